"""G-cf — control-flow skeletons. Every branch decision reads d[i] from a decision vector passed to main(d), so every
vector in the product of the per-decision domains is realisable by a concrete input. Simple statements are out(K)
with a unique constant K, so the output sequence *is* the sequence of executed simple statements (used to validate
the reference executor's control flow against CPython / node on the very same inputs).

Skeleton = nested lists of nodes; a node is a tuple:
  ("s",)                          simple statement out(K)
  ("if", i, then, else|None)      decision i in {0,1}
  ("while", i, body)              runs d[i] in {0,1,2} times (counter incremented first thing in the body)
  ("for", i, body)                counted for: py `for j in range(d[i])`, js/java/c `for (j = 0; j < d[i]; j++)`
  ("forin", i, body)              py `for e in d[i]` over a list of length 0..2 ; js `for (const e of d[i])`
  ("dowhile", i, body)            body, then repeat while counter < d[i]     (no Python rendering)
  ("whileelse", i, body, else)    Python only: while ... else (the else clause runs iff the loop ended without break)
  ("forelse", i, body, else)      Python only: for j in range(d[i]) ... else
  ("break",) ("continue",) ("return",)
  ("try", i, body, handler, else|None, final|None)   body raises iff d[i] (a raise statement is appended under `if d[i]`)
  ("switch", i, [case bodies], default|None, breaks) d[i] in {0..len(cases)}
  ("func", body)                  nested function declaration followed by a call of it
  ("class",)                      nested class declaration with one method
  ("procs", [spec, ...])          (only as the whole body, see starter_skeletons) a program of PARAMETERLESS procedures p0, p1, ...
                                  called by main(d); spec = (kind, i, inner, tail): the body of the procedure STARTS with the
                                  compound statement `kind`, whose decision is the module-level / static scalar G<i> that
                                  main sets to d[i] just before the call

Renderers: Python, JavaScript, TypeScript (the JavaScript text), Java, C (own ground-truth engines), PHP and Go (no runtime
in the sandbox: same const() order and same meaning as the JavaScript rendering, which supplies the ground truth).
LANG_KINDS names, per language, the node kinds it can express (Builder/systematic_skeletons `only`).
"""
import itertools
import random

LOOPS = ("while", "for", "forin", "dowhile")
ELSE_LOOPS = ("whileelse", "forelse")


class Skel:
    def __init__(self, body, domains, label=""):
        self.body, self.domains, self.label = body, domains, label


class Builder:
    def __init__(self, rng, lang, max_depth=3, only=None, loop_dom=(0, 1, 2)):
        self.rng, self.lang, self.max_depth = rng, lang, max_depth
        self.only = only            # optional whitelist of node kinds
        self.loop_dom = loop_dom
        self.domains = []
        self.pairs = set()

    def dec(self, dom):
        self.domains.append(dom)
        return len(self.domains) - 1

    def kinds(self, depth, in_loop, in_func_nest):
        ks = ["s", "s", "if", "if", "while", "for", "forin", "return", "try", "switch"]
        if self.lang != "python":
            ks.append("dowhile")
        else:
            ks += ["whileelse", "forelse"]
        if in_loop:
            ks += ["break", "continue", "break", "continue"]
        if depth <= 1 and not in_func_nest:
            ks += ["func", "class"]
        if self.only is not None:
            ks = [k for k in ks if k in self.only]
        return ks

    def block(self, depth, in_loop, nest, parent_kind, minlen=1):
        n = self.rng.choice([1, 1, 2, 2, 3]) if depth < self.max_depth else 1
        n = max(n, minlen)
        out = []
        for _ in range(n):
            out.append(self.node(depth, in_loop, nest, parent_kind))
            if out[-1][0] in ("break", "continue", "return"):
                break
        return out

    def node(self, depth, in_loop, nest, parent_kind):
        ks = self.kinds(depth, in_loop, nest)
        if depth >= self.max_depth:
            ks = [k for k in ks if k in ("s", "break", "continue", "return")]
        k = self.rng.choice(ks)
        self.pairs.add((parent_kind, k))
        if k in ("s", "break", "continue", "return", "class"):
            return (k,)
        if k == "if":
            i = self.dec((0, 1))
            then = self.block(depth + 1, in_loop, nest, "if") if self.rng.random() < 0.93 else []
            els = None
            r = self.rng.random()
            if r < 0.45:
                els = self.block(depth + 1, in_loop, nest, "else")
            elif r < 0.5 and self.lang != "python":
                els = []
            return ("if", i, then, els)
        if k in LOOPS:
            i = self.dec(tuple(self.loop_dom))
            body = self.block(depth + 1, True, nest, k) if self.rng.random() < 0.95 or self.lang == "python" else []
            return (k, i, body)
        if k in ELSE_LOOPS:
            i = self.dec(tuple(self.loop_dom))
            body = self.block(depth + 1, True, nest, k)
            if not any(x[0] == "break" for x in body) and self.rng.random() < 0.7:
                # a break of this very loop under a decision: the case in which the else clause is skipped
                j = self.dec((0, 1))
                body = body[:-1] + [("if", j, [("break",)], None)] + body[-1:] if body[-1][0] in ("break", "continue", "return") \
                    else body + [("if", j, [("break",)], None)]
            els = self.block(depth + 1, in_loop, nest, "loop-else")
            return (k, i, body, els)
        if k == "try":
            i = self.dec((0, 1))
            body = self.block(depth + 1, in_loop, nest, "try")
            handler = self.block(depth + 1, in_loop, nest, "except")
            els = self.block(depth + 1, in_loop, nest, "try-else") if (self.lang == "python" and self.rng.random() < 0.3) else None
            fin = self.block(depth + 1, False, nest, "finally") if self.rng.random() < 0.4 else None
            if fin is not None:
                fin = [n for n in fin if n[0] not in ("break", "continue", "return")] or [("s",)]
            return ("try", i, body, handler, els, fin)
        if k == "switch":
            nc = self.rng.choice([1, 2, 2, 3])
            cases = [self.block(depth + 1, in_loop, nest, "case") for _ in range(nc)]
            default = self.block(depth + 1, in_loop, nest, "default") if self.rng.random() < 0.6 else None
            if self.lang == "python":
                breaks = [True] * nc
            else:
                breaks = [self.rng.random() < 0.7 for _ in range(nc)]
            # `break` directly inside a switch body means "leave the switch" in C-like languages: keep loop-breaks out of it
            def strip(b):
                return [n for n in b if n[0] not in ("break",)] or [("s",)]
            if self.lang != "python":
                cases = [strip(b) for b in cases]
                default = strip(default) if default is not None else None
            i = self.dec(tuple(range(nc + 1)))
            return ("switch", i, cases, default, breaks)
        if k == "func":
            return ("func", self.block(depth + 1, False, True, "func"))
        raise AssertionError(k)


def random_skeleton(seed, lang, max_depth=3, only=None, loop_dom=(0, 1, 2)):
    rng = random.Random(seed)
    b = Builder(rng, lang, max_depth, only=only, loop_dom=loop_dom)
    body = b.block(0, False, False, "main", minlen=rng.choice([1, 2, 3]))
    return Skel(body, b.domains, f"rand{seed}"), b.pairs


SYS_KIND = {"else": "if", "except": "try", "finally": "try", "ifelse": "if", "emptyif": "if", "tryfin": "try", "switchnd": "switch",
            "whileelse-else": "whileelse", "forelse-else": "forelse", "whileelse-nb": "whileelse", "forelse-nb": "forelse"}


def systematic_skeletons(lang, only=None):
    """Every (outer, inner) nesting at depth 2 in three positions (alone / leading simple / trailing simple).
    `only`: optional whitelist of node kinds (same meaning as for Builder): nestings that need another kind are left out."""
    outers = ["if", "else", "while", "for", "forin", "try", "except", "finally", "switch", "func"] + \
             (["dowhile"] if lang != "python" else ["whileelse", "whileelse-else", "forelse", "forelse-else"])
    inners = ["s", "if", "ifelse", "while", "for", "forin", "break", "continue", "return", "try", "tryfin", "switch", "switchnd", "func", "class"] + \
             (["dowhile", "emptyif"] if lang != "python" else ["whileelse", "whileelse-nb", "forelse", "forelse-nb"])
    if only is not None:
        outers = [o for o in outers if SYS_KIND.get(o, o) in only]
        inners = [i for i in inners if SYS_KIND.get(i, i) in only]
    out = []
    for o in outers:
        for inn in inners:
            for pos in ("alone", "lead", "trail", "both"):
                doms = []

                def dec(dom):
                    doms.append(dom)
                    return len(doms) - 1
                in_loop = o in LOOPS or o in ELSE_LOOPS       # (the else clause of a loop is not inside it)
                if inn in ("break", "continue") and not in_loop:
                    continue
                if inn in ("break", "continue", "return") and pos in ("trail", "both"):
                    continue
                if o == "finally" and inn in ("break", "continue", "return"):
                    continue
                if o == "switch" and inn == "break" and lang != "python":
                    continue

                def mk_inner():
                    if inn == "s":
                        return ("s",)
                    if inn == "if":
                        return ("if", dec((0, 1)), [("s",)], None)
                    if inn == "emptyif":
                        return ("if", dec((0, 1)), [], None)
                    if inn == "ifelse":
                        return ("if", dec((0, 1)), [("s",)], [("s",)])
                    if inn in LOOPS:
                        return (inn, dec((0, 1, 2)), [("s",)])
                    if inn in ELSE_LOOPS:          # with a break of its own under a decision
                        return (inn, dec((0, 1, 2)), [("s",), ("if", dec((0, 1)), [("break",)], None), ("s",)], [("s",)])
                    if inn in ("whileelse-nb", "forelse-nb"):      # no break: the else clause always runs
                        return (inn[:-3], dec((0, 1, 2)), [("if", dec((0, 1)), [("continue",)], None), ("s",)], [("s",)])
                    if inn in ("break", "continue", "return", "class"):
                        return (inn,)
                    if inn == "try":
                        return ("try", dec((0, 1)), [("s",)], [("s",)], None, None)
                    if inn == "tryfin":
                        return ("try", dec((0, 1)), [("s",)], [("s",)], None, [("s",)])
                    if inn == "switch":
                        return ("switch", dec((0, 1, 2)), [[("s",)], [("s",)]], [("s",)], [True, lang == "python"])
                    if inn == "switchnd":
                        return ("switch", dec((0, 1, 2)), [[("s",)], [("s",)]], None, [True, True])
                    if inn == "func":
                        return ("func", [("s",), ("return",)])
                    raise AssertionError(inn)
                core = [mk_inner()]
                if inn in ("break", "continue", "return") :
                    core = [("if", dec((0, 1)), core, None)] if pos == "lead" else core
                blk = ([("s",)] if pos in ("lead", "both") else []) + core + ([("s",)] if pos in ("trail", "both") else [])
                if o == "if":
                    outer = ("if", dec((0, 1)), blk, None)
                elif o == "else":
                    outer = ("if", dec((0, 1)), [("s",)], blk)
                elif o in LOOPS:
                    outer = (o, dec((0, 1, 2)), blk)
                elif o in ELSE_LOOPS:
                    # the inner construct in the loop body, followed by a break of the outer loop under a decision
                    outer = (o, dec((0, 1, 2)), blk + ([("if", dec((0, 1)), [("break",)], None)] if blk[-1][0] not in ("break", "continue", "return") else []), [("s",)])
                elif o in ("whileelse-else", "forelse-else"):
                    # the inner construct in the else clause
                    outer = (o[:-5], dec((0, 1, 2)), [("s",), ("if", dec((0, 1)), [("break",)], None)], blk)
                elif o == "try":
                    outer = ("try", dec((0, 1)), blk, [("s",)], None, None)
                elif o == "except":
                    outer = ("try", dec((0, 1)), [("s",)], blk, None, None)
                elif o == "finally":
                    outer = ("try", dec((0, 1)), [("s",)], [("s",)], None, blk)
                elif o == "switch":
                    outer = ("switch", dec((0, 1, 2)), [blk, [("s",)]], [("s",)], [True, lang == "python"])
                elif o == "func":
                    outer = ("func", blk)
                for tail in (True, False):
                    body = [("s",), outer] + ([("s",)] if tail else [])
                    out.append(Skel(body, list(doms), f"{o}>{inn}:{pos}:{'tail' if tail else 'last'}"))
    return out


# compound statements a parameterless procedure can START with, per language (the statement must be the first GIR row of the
# body: no declaration, no temporary in front of it — hence the plain global scalar as condition)
STARTERS = {
    "python": ("if", "switch", "try", "while"),
    "javascript": ("dowhile", "while", "for", "if", "switch", "try"),
    "typescript": ("dowhile", "while", "for", "if", "switch", "try"),
    "java": ("dowhile", "while", "for", "if", "switch", "try"),
    "c": ("dowhile", "while", "for", "if", "switch"),
    "php": ("dowhile", "while", "if", "switch", "try"),
    "go": ("while", "for", "if", "switch"),
}
STARTER_DOM = {"dowhile": (0, 1, 2), "while": (0, 1, 2), "for": (0, 1, 2), "if": (0, 1), "switch": (0, 1, 2), "try": (0, 1)}


def starter_skeletons(lang, per_program=3):
    """Programs of several methods, most of them WITHOUT parameters, whose bodies start with each compound statement in turn
    (with a plain statement / break / continue / return inside, with and without a statement after it). ControlFlowAnalysis
    hands the shared default list `parent_stmts=[]` of analyze_block to the handler of the first statement of a parameterless
    method: a handler that extends the list it was given leaks its statement into every method analysed later."""
    specs = []
    for kind in STARTERS.get(lang, ()):
        inners = [[("s",)], [("s",), ("return",)]]
        if kind in ("dowhile", "while", "for"):
            inners += [[("s",), ("break",)], [("s",), ("continue",)]]
        for inner in inners:
            for tail in (True, False):
                specs.append((kind, inner, tail))
    out = []
    for k in range(0, len(specs), per_program):
        chunk = specs[k:k + per_program]
        doms = [STARTER_DOM[kind] for kind, _, _ in chunk]
        body = [("procs", [(kind, i, inner, tail) for i, (kind, inner, tail) in enumerate(chunk)])]
        out.append(Skel(body, doms, "procs:" + "+".join(f"{kind}>{inner[-1][0]}{'+s' if tail else ''}" for kind, inner, tail in chunk)))
    return out


def vectors(domains, cap, rng):
    total = 1
    for d in domains:
        total *= len(d)
    if total <= cap:
        return [list(v) for v in itertools.product(*domains)]
    seen = set()
    out = []
    # always include all-zero, all-max, and a spread
    for v in ([d[0] for d in domains], [d[-1] for d in domains]):
        if tuple(v) not in seen:
            seen.add(tuple(v)); out.append(list(v))
    while len(out) < cap:
        v = tuple(rng.choice(d) for d in domains)
        if v not in seen:
            seen.add(v); out.append(list(v))
    return out


# ------------------------------------------------------------------------------------------------ renderers
class PyRenderer:
    ext = "py"
    lang = "python"

    def __init__(self):
        self.k = 0
        self.lines = []
        self.fn = 0

    def const(self):
        self.k += 1
        return self.k

    def emit(self, ind, t):
        self.lines.append("    " * ind + t)

    def block(self, ind, nodes):
        if not nodes:
            self.emit(ind, "pass")
        for n in nodes:
            self.node(ind, n)

    def node(self, ind, n):
        k = n[0]
        if k == "s":
            self.emit(ind, f"out({self.const()})")
        elif k == "if":
            self.emit(ind, f"if d[{n[1]}]:")
            self.block(ind + 1, n[2])
            if n[3] is not None:
                self.emit(ind, "else:")
                self.block(ind + 1, n[3])
        elif k == "while":
            c = f"k{n[1]}"
            self.emit(ind, f"{c} = 0")
            self.emit(ind, f"while {c} < d[{n[1]}]:")
            self.emit(ind + 1, f"{c} = {c} + 1")
            self.block(ind + 1, n[2])
        elif k == "for":
            self.emit(ind, f"for j{n[1]} in range(d[{n[1]}]):")
            self.block(ind + 1, n[2])
        elif k == "forin":
            self.emit(ind, f"for e{n[1]} in d[{n[1]}]:")
            self.block(ind + 1, n[2])
        elif k == "whileelse":
            c = f"k{n[1]}"
            self.emit(ind, f"{c} = 0")
            self.emit(ind, f"while {c} < d[{n[1]}]:")
            self.emit(ind + 1, f"{c} = {c} + 1")
            self.block(ind + 1, n[2])
            self.emit(ind, "else:")
            self.block(ind + 1, n[3])
        elif k == "forelse":
            self.emit(ind, f"for j{n[1]} in range(d[{n[1]}]):")
            self.block(ind + 1, n[2])
            self.emit(ind, "else:")
            self.block(ind + 1, n[3])
        elif k in ("break", "continue"):
            self.emit(ind, k)
        elif k == "return":
            self.emit(ind, f"return {self.const()}")
        elif k == "try":
            self.emit(ind, "try:")
            pos = (n[1] * 7 + len(n[2])) % (len(n[2]) + 1)      # where in the body the conditional raise sits
            if any(x[0] in ("break", "continue", "return") for x in n[2][:pos]):
                pos = 0
            for x in n[2][:pos]:
                self.node(ind + 1, x)
            self.emit(ind + 1, f"if d[{n[1]}]:")
            self.emit(ind + 2, "raise ValueError(\"e\")")
            for x in n[2][pos:]:
                self.node(ind + 1, x)
            self.emit(ind, "except ValueError:")
            self.block(ind + 1, n[3])
            if n[4] is not None:
                self.emit(ind, "else:")
                self.block(ind + 1, n[4])
            if n[5] is not None:
                self.emit(ind, "finally:")
                self.block(ind + 1, n[5])
        elif k == "switch":
            self.emit(ind, f"match d[{n[1]}]:")
            for ci, body in enumerate(n[2]):
                self.emit(ind + 1, f"case {ci}:")
                self.block(ind + 2, body)
            if n[3] is not None:
                self.emit(ind + 1, "case _:")
                self.block(ind + 2, n[3])
        elif k == "func":
            self.fn += 1
            name = f"inner{self.fn}"
            self.emit(ind, f"def {name}():")
            self.block(ind + 1, n[1])
            self.emit(ind, f"{name}()")
        elif k == "class":
            self.fn += 1
            self.emit(ind, f"class Q{self.fn}:")
            self.emit(ind + 1, "def m(self):")
            self.emit(ind + 2, f"return {self.const()}")
        else:
            raise AssertionError(k)

    def render(self, skel):
        if self.is_procs(skel):
            return self.render_procs(skel)
        self.emit(0, "def main(d):")
        self.block(1, skel.body)
        return "\n".join(self.lines) + "\n"

    # ---- programs of parameterless procedures (see starter_skeletons)
    dv = "d"

    @staticmethod
    def is_procs(skel):
        return bool(skel.body) and skel.body[0][0] == "procs"

    def finish_text(self):
        return "\n".join(self.lines) + "\n"

    def render_procs(self, skel):
        specs = skel.body[0][1]
        self.procs_header(specs)
        for k, spec in enumerate(specs):
            self.proc(k, spec)
        self.procs_main(specs)
        return self.finish_text()

    def procs_header(self, specs):
        for kind, i, inner, tail in specs:
            self.emit(0, f"L{i} = []" if kind == "while" else f"G{i} = 0")

    def proc(self, k, spec):
        kind, i, inner, tail = spec
        self.emit(0, f"def p{k}():")
        if kind == "if":
            self.emit(1, f"if G{i}:")
            self.block(2, inner)
            self.emit(1, "else:")
            self.emit(2, f"out({self.const()})")
        elif kind == "switch":
            self.emit(1, f"match G{i}:")
            self.emit(2, "case 0:")
            self.block(3, inner)
            self.emit(2, "case 1:")
            self.emit(3, f"out({self.const()})")
            self.emit(2, "case _:")
            self.emit(3, f"out({self.const()})")
        elif kind == "try":
            self.emit(1, "try:")
            self.emit(2, f"out({self.const()})")
            self.emit(2, f"if G{i}:")
            self.emit(3, "raise ValueError(\"e\")")
            self.block(2, inner)
            self.emit(1, "except ValueError:")
            self.emit(2, f"out({self.const()})")
        elif kind == "while":
            # a module-level list shrunk by a method call: no assignment to a global name (a `global` statement would be
            # the first row of the body)
            self.emit(1, f"while L{i}:")
            self.emit(2, f"L{i}.pop()")
            self.block(2, inner)
        else:
            raise AssertionError(kind)
        if tail:
            self.emit(1, f"out({self.const()})")

    def procs_main(self, specs):
        self.emit(0, "def main(d):")
        self.emit(1, "global " + ", ".join((f"L{i}" if kind == "while" else f"G{i}") for kind, i, _, _ in specs))
        self.emit(1, f"out({self.const()})")
        for k, (kind, i, inner, tail) in enumerate(specs):
            self.emit(1, f"L{i} = [0] * d[{i}]" if kind == "while" else f"G{i} = d[{i}]")
            self.emit(1, f"p{k}()")
        self.emit(1, f"out({self.const()})")

    def conv_vector(self, v, skel):
        # for-in decisions iterate over a list of that length
        out = list(v)
        for i in self.forin_indexes(skel.body):
            out[i] = list(range(v[i]))
        return out

    def forin_indexes(self, nodes):
        res = []
        for n in nodes:
            if not isinstance(n, tuple):
                continue
            if n[0] == "forin":
                res.append(n[1])
            for part in n[1:]:
                if isinstance(part, list):
                    if part and isinstance(part[0], list):
                        for sub in part:
                            res += self.forin_indexes(sub)
                    else:
                        res += self.forin_indexes(part)
        return res


class JsRenderer(PyRenderer):
    ext = "js"
    lang = "javascript"

    def block(self, ind, nodes):
        for n in nodes:
            self.node(ind, n)

    def node(self, ind, n):
        k = n[0]
        if k == "s":
            self.emit(ind, f"out({self.const()});")
        elif k == "if":
            self.emit(ind, f"if (d[{n[1]}]) {{")
            self.block(ind + 1, n[2])
            if n[3] is not None:
                self.emit(ind, "} else {")
                self.block(ind + 1, n[3])
            self.emit(ind, "}")
        elif k == "while":
            c = f"k{n[1]}"
            self.emit(ind, f"let {c} = 0;")
            self.emit(ind, f"while ({c} < d[{n[1]}]) {{")
            self.emit(ind + 1, f"{c} = {c} + 1;")
            self.block(ind + 1, n[2])
            self.emit(ind, "}")
        elif k == "for":
            j = f"j{n[1]}"
            self.emit(ind, f"for (let {j} = 0; {j} < d[{n[1]}]; {j}++) {{")
            self.block(ind + 1, n[2])
            self.emit(ind, "}")
        elif k == "forin":
            self.emit(ind, f"for (const e{n[1]} of d[{n[1]}]) {{")
            self.block(ind + 1, n[2])
            self.emit(ind, "}")
        elif k == "dowhile":
            c = f"k{n[1]}"
            self.emit(ind, f"let {c} = 0;")
            self.emit(ind, "do {")
            self.emit(ind + 1, f"{c} = {c} + 1;")
            self.block(ind + 1, n[2])
            self.emit(ind, f"}} while ({c} < d[{n[1]}]);")
        elif k in ("break", "continue"):
            self.emit(ind, k + ";")
        elif k == "return":
            self.emit(ind, f"return {self.const()};")
        elif k == "try":
            self.emit(ind, "try {")
            pos = (n[1] * 7 + len(n[2])) % (len(n[2]) + 1)
            if any(x[0] in ("break", "continue", "return") for x in n[2][:pos]):
                pos = 0
            for x in n[2][:pos]:
                self.node(ind + 1, x)
            self.emit(ind + 1, f"if (d[{n[1]}]) {{")
            self.emit(ind + 2, "throw 7;")
            self.emit(ind + 1, "}")
            for x in n[2][pos:]:
                self.node(ind + 1, x)
            self.emit(ind, "} catch (ex) {")
            self.block(ind + 1, n[3])
            if n[5] is not None:
                self.emit(ind, "} finally {")
                self.block(ind + 1, n[5])
            self.emit(ind, "}")
        elif k == "switch":
            self.emit(ind, f"switch (d[{n[1]}]) {{")
            for ci, body in enumerate(n[2]):
                self.emit(ind + 1, f"case {ci}:")
                self.block(ind + 2, body)
                if n[4][ci] and not (body and body[-1][0] in ("return", "continue", "break")):
                    self.emit(ind + 2, "break;")
            if n[3] is not None:
                self.emit(ind + 1, "default:")
                self.block(ind + 2, n[3])
            self.emit(ind, "}")
        elif k == "func":
            self.fn += 1
            name = f"inner{self.fn}"
            self.emit(ind, f"function {name}() {{")
            self.block(ind + 1, n[1])
            self.emit(ind, "}")
            self.emit(ind, f"{name}();")
        elif k == "class":
            self.fn += 1
            self.emit(ind, f"class Q{self.fn} {{")
            self.emit(ind + 1, f"m() {{ return {self.const()}; }}")
            self.emit(ind, "}")
        else:
            raise AssertionError(k)

    def render(self, skel):
        if self.is_procs(skel):
            return self.render_procs(skel)
        self.emit(0, "function main(d) {")
        self.block(1, skel.body)
        self.emit(0, "}")
        return "\n".join(self.lines) + "\n"

    # ---- programs of parameterless procedures: C-like languages share the shape, the hooks give the spelling
    END = ";"

    def g(self, i, kind=None):
        return f"G{i}"

    def truth(self, i, kind):           # the scalar as a condition
        return self.g(i, kind)

    def positive(self, i):
        return f"{self.g(i)} > 0"

    def counted_for(self, i):
        return f"for (let j{i} = 0; j{i} < {self.g(i)}; j{i}++) {{"

    def throw_stmt(self):
        return "throw 7;"

    def catch_open(self):
        return "} catch (ex) {"

    def procs_header(self, specs):
        for kind, i, inner, tail in specs:
            self.emit(0, f"let G{i} = 0;")

    def proc_open(self, k, spec):
        self.emit(0, f"function p{k}() {{")

    def proc_close(self, k, spec):
        self.emit(0, "}")

    def out_stmt(self):
        return f"out({self.const()}){self.END}"

    def dec_stmt(self, i):
        return f"{self.g(i)} = {self.g(i)} - 1{self.END}"

    def switch_open(self, i):
        return f"switch ({self.g(i)}) {{"

    def proc(self, k, spec):
        kind, i, inner, tail = spec
        self.proc_open(k, spec)
        if kind == "while":
            self.emit(1, self.while_open(i))
            self.emit(2, self.dec_stmt(i))
            self.block(2, inner)
            self.emit(1, "}")
        elif kind == "dowhile":
            self.emit(1, "do {")
            self.emit(2, self.dec_stmt(i))
            self.block(2, inner)
            self.emit(1, f"}} while ({self.positive(i)});")
        elif kind == "for":
            self.emit(1, self.counted_for(i))
            self.block(2, inner)
            self.emit(1, "}")
        elif kind == "if":
            self.emit(1, self.if_open(i))
            self.block(2, inner)
            self.emit(1, "} else {")
            self.emit(2, self.out_stmt())
            self.emit(1, "}")
        elif kind == "switch":
            self.switch_body(i, inner)
        elif kind == "try":
            self.emit(1, "try {")
            self.emit(2, self.out_stmt())
            self.emit(2, self.if_open(i, "try"))
            self.emit(3, self.throw_stmt())
            self.emit(2, "}")
            self.block(2, inner)
            self.emit(1, self.catch_open())
            self.emit(2, self.out_stmt())
            self.emit(1, "}")
        else:
            raise AssertionError(kind)
        if tail:
            self.emit(1, self.out_stmt())
        self.proc_close(k, spec)

    def while_open(self, i):
        return f"while ({self.truth(i, 'while')}) {{"

    def if_open(self, i, kind="if"):
        return f"if ({self.truth(i, kind)}) {{"

    def switch_body(self, i, inner):
        self.emit(1, self.switch_open(i))
        self.emit(2, "case 0:")
        self.block(3, inner)
        if inner[-1][0] not in ("return", "break", "continue"):
            self.emit(3, "break;")
        self.emit(2, "case 1:")
        self.emit(3, self.out_stmt())           # no break: falls into the default clause
        self.emit(2, "default:")
        self.emit(3, self.out_stmt())
        self.emit(1, "}")

    def main_open(self, specs):
        self.emit(0, "function main(d) {")

    def main_close(self, specs):
        self.emit(0, "}")

    def set_g(self, i, kind):
        return f"{self.g(i, kind)} = d[{i}]{self.END}"

    def call_p(self, k):
        return f"p{k}(){self.END}"

    def procs_main(self, specs):
        self.main_open(specs)
        self.emit(1, self.out_stmt())
        for k, (kind, i, inner, tail) in enumerate(specs):
            self.emit(1, self.set_g(i, kind))
            self.emit(1, self.call_p(k))
        self.emit(1, self.out_stmt())
        self.main_close(specs)


class _DuMixin:
    """Simple statements become definitions/uses over a small pool of variables (for the reaching-definition checks)."""
    NV = 3

    def du_init(self, seed):
        self.du_rng = random.Random(seed)

    def du_stmt(self):
        r = self.du_rng
        v = f"v{r.randrange(self.NV)}"
        w = f"v{r.randrange(self.NV)}"
        k = r.random()
        if k < 0.3:
            return f"{v} = {self.const()}"
        if k < 0.6:
            return f"{v} = {w} + {self.const()}"
        if k < 0.75:
            return f"{v} = {v} + 1"
        return f"out({w})"


class PyDuRenderer(_DuMixin, PyRenderer):
    def node(self, ind, n):
        if n[0] == "s":
            self.emit(ind, self.du_stmt())
        else:
            PyRenderer.node(self, ind, n)

    def render(self, skel):
        self.du_init(__import__("zlib").crc32(skel.label.encode()))
        self.emit(0, "def main(d):")
        for i in range(self.NV):
            self.emit(1, f"v{i} = {self.const()}")
        self.block(1, skel.body)
        self.emit(1, "out(v0)")
        self.emit(1, "out(v1)")
        self.emit(1, "out(v2)")
        return "\n".join(self.lines) + "\n"


class JsDuRenderer(_DuMixin, JsRenderer):
    def node(self, ind, n):
        if n[0] == "s":
            self.emit(ind, self.du_stmt() + ";")
        else:
            JsRenderer.node(self, ind, n)

    def render(self, skel):
        self.du_init(__import__("zlib").crc32(skel.label.encode()))
        self.emit(0, "function main(d) {")
        for i in range(self.NV):
            self.emit(1, f"let v{i} = {self.const()};")
        self.block(1, skel.body)
        self.emit(1, "out(v0);")
        self.emit(1, "out(v1);")
        self.emit(1, "out(v2);")
        self.emit(0, "}")
        return "\n".join(self.lines) + "\n"


class JavaRenderer(JsRenderer):
    ext = "java"
    lang = "java"

    def __init__(self, ident="0"):
        JsRenderer.__init__(self)
        self.ident = ident

    def cond(self, i):
        return f"d[{i}] != 0"

    def node(self, ind, n):
        k = n[0]
        if k == "if":
            self.emit(ind, f"if ({self.cond(n[1])}) {{")
            self.block(ind + 1, n[2])
            if n[3] is not None:
                self.emit(ind, "} else {")
                self.block(ind + 1, n[3])
            self.emit(ind, "}")
        elif k == "while":
            c = f"k{n[1]}"
            self.emit(ind, f"int {c} = 0;")
            self.emit(ind, f"while ({c} < d[{n[1]}]) {{")
            self.emit(ind + 1, f"{c} = {c} + 1;")
            self.block(ind + 1, n[2])
            self.emit(ind, "}")
        elif k == "for":
            j = f"j{n[1]}"
            self.emit(ind, f"for (int {j} = 0; {j} < d[{n[1]}]; {j}++) {{")
            self.block(ind + 1, n[2])
            self.emit(ind, "}")
        elif k == "dowhile":
            c = f"k{n[1]}"
            self.emit(ind, f"int {c} = 0;")
            self.emit(ind, "do {")
            self.emit(ind + 1, f"{c} = {c} + 1;")
            self.block(ind + 1, n[2])
            self.emit(ind, f"}} while ({c} < d[{n[1]}]);")
        elif k == "return":
            self.emit(ind, f"if ({self.dv}.length >= 0) {{ return {self.const()}; }}")      # javac rejects statically unreachable code
        elif k in ("break", "continue"):
            self.emit(ind, f"if ({self.dv}.length >= 0) {{ {k}; }}")
        elif k == "try":
            self.emit(ind, "try {")
            pos = (n[1] * 7 + len(n[2])) % (len(n[2]) + 1)
            if any(x[0] in ("break", "continue", "return") for x in n[2][:pos]):
                pos = 0
            for x in n[2][:pos]:
                self.node(ind + 1, x)
            self.emit(ind + 1, f"if ({self.cond(n[1])}) {{")
            self.emit(ind + 2, 'throw new RuntimeException("e");')
            self.emit(ind + 1, "}")
            for x in n[2][pos:]:
                self.node(ind + 1, x)
            self.emit(ind, "} catch (RuntimeException ex) {")
            self.block(ind + 1, n[3])
            if n[5] is not None:
                self.emit(ind, "} finally {")
                self.block(ind + 1, n[5])
            self.emit(ind, "}")
        elif k == "switch":
            self.emit(ind, f"switch (d[{n[1]}]) {{")
            for ci, body in enumerate(n[2]):
                self.emit(ind + 1, f"case {ci}:")
                self.block(ind + 2, body)
                if n[4][ci]:
                    self.emit(ind + 2, "if (d.length >= 0) { break; }")
            if n[3] is not None:
                self.emit(ind + 1, "default:")
                self.block(ind + 2, n[3])
            self.emit(ind, "}")
        elif k in ("func", "class", "forin"):
            self.emit(ind, f"out({self.const()});")
        else:
            JsRenderer.node(self, ind, n)

    # ---- parameterless procedures: static fields, static methods (one indentation level deeper: emitted through emit1)
    def emit(self, ind, t):
        JsRenderer.emit(self, ind + getattr(self, "shift", 0), t)

    def truth(self, i, kind):
        return f"B{i}" if kind == "if" else f"G{i} != 0" if kind == "try" else f"G{i} > 0"

    def counted_for(self, i):
        return f"for (int j{i} = 0; j{i} < G{i}; j{i}++) {{"

    def throw_stmt(self):
        return 'throw new RuntimeException("e");'

    def catch_open(self):
        return "} catch (RuntimeException ex) {"

    def g(self, i, kind=None):
        return f"B{i}" if kind == "if" else f"G{i}"

    def set_g(self, i, kind):
        return f"B{i} = d[{i}] != 0;" if kind == "if" else f"G{i} = d[{i}];"

    def switch_body(self, i, inner):
        self.emit(1, self.switch_open(i))
        self.emit(2, "case 0:")
        self.block(3, inner)
        self.emit(3, f"if ({self.dv}.length >= 0) {{ break; }}")
        self.emit(2, "case 1:")
        self.emit(3, self.out_stmt())
        self.emit(2, "default:")
        self.emit(3, self.out_stmt())
        self.emit(1, "}")

    def procs_header(self, specs):
        self.emit(0, f"public class Sk{self.ident} {{")
        self.shift = 1
        self.emit(0, "static int[] D = null;")
        for kind, i, inner, tail in specs:
            self.emit(0, f"static boolean B{i} = false;" if kind == "if" else f"static int G{i} = 0;")
        self.emit(0, "static void out(int k) { System.out.println(k); }")
        self.dv = "D"

    def proc_open(self, k, spec):
        self.emit(0, f"static int p{k}() {{")

    def proc_close(self, k, spec):
        self.emit(1, "return 0;")
        self.emit(0, "}")

    def main_open(self, specs):
        self.dv = "d"
        self.emit(0, "static int main(int[] d) {")
        self.emit(1, "D = d;")

    def main_close(self, specs):
        self.emit(1, "return 0;")
        self.emit(0, "}")
        self.shift = 0
        self.emit(0, "}")

    def render(self, skel):
        if self.is_procs(skel):
            return self.render_procs(skel)
        self.emit(0, f"public class Sk{self.ident} {{")
        self.emit(1, "static void out(int k) { System.out.println(k); }")
        self.emit(1, "static int main(int[] d) {")
        self.block(2, skel.body)
        self.emit(2, "return 0;")
        self.emit(1, "}")
        self.emit(0, "}")
        return "\n".join(self.lines) + "\n"

    def conv_vector(self, v, skel):
        return list(v)


class CRenderer(JavaRenderer):
    ext = "c"
    lang = "c"

    def cond(self, i):
        return f"d[{i}]"

    def node(self, ind, n):
        k = n[0]
        if k == "return":
            self.emit(ind, f"return {self.const()};")
        elif k in ("break", "continue"):
            self.emit(ind, k + ";")
        elif k == "try":
            # no exceptions in C: the body and the handler become a plain if/else on the decision
            self.emit(ind, f"if (!d[{n[1]}]) {{")
            self.block(ind + 1, n[2])
            self.emit(ind, "} else {")
            self.block(ind + 1, n[3])
            self.emit(ind, "}")
            if n[5] is not None:
                self.block(ind, n[5])
        elif k == "switch":
            self.emit(ind, f"switch (d[{n[1]}]) {{")
            for ci, body in enumerate(n[2]):
                self.emit(ind + 1, f"case {ci}:")
                self.block(ind + 2, body)
                if n[4][ci] and not (body and body[-1][0] in ("return", "continue", "break")):
                    self.emit(ind + 2, "break;")
            if n[3] is not None:
                self.emit(ind + 1, "default:")
                self.block(ind + 2, n[3])
            self.emit(ind, "}")
        else:
            JavaRenderer.node(self, ind, n)

    def truth(self, i, kind):
        return f"G{i}"

    def g(self, i, kind=None):
        return f"G{i}"

    def set_g(self, i, kind):
        return f"G{i} = d[{i}];"

    def switch_body(self, i, inner):
        JsRenderer.switch_body(self, i, inner)

    def procs_header(self, specs):
        self.emit(0, "void out(int k);")
        for kind, i, inner, tail in specs:
            self.emit(0, f"int G{i};")

    def proc_open(self, k, spec):
        self.emit(0, f"int p{k}() {{")          # (the C frontend lowers `(void)` to a parameter_decl without name)

    def main_open(self, specs):
        self.emit(0, "int main_(int* d) {")

    def main_close(self, specs):
        self.emit(1, "return 0;")
        self.emit(0, "}")

    def render(self, skel):
        if self.is_procs(skel):
            return self.render_procs(skel)
        self.emit(0, "void out(int k);")
        self.emit(0, "int main_(int* d) {")
        self.block(1, skel.body)
        self.emit(1, "return 0;")
        self.emit(0, "}")
        return "\n".join(self.lines) + "\n"


# ------------------------------------------------------------------------------------------------ frontends without a runtime here
# The ground truth of an execution of these renderings is node's result on the JavaScript rendering (JsRenderer) of the
# *same skeleton with the same decision vector*: the renderers below call const() in exactly the order JsRenderer does
# and only produce shapes whose meaning in the target language is the meaning of the JavaScript text.
class TsRenderer(JsRenderer):
    """The JavaScript rendering is valid TypeScript: same text, `.ts`."""
    ext = "ts"
    lang = "typescript"


class TsDuRenderer(JsDuRenderer):
    ext = "ts"
    lang = "typescript"


class PhpRenderer(JsRenderer):
    ext = "php"
    lang = "php"
    twin = "javascript"

    def __init__(self):
        JsRenderer.__init__(self)
        self.ctx = []           # enclosing "loop" / "switch" constructs of the function being rendered, innermost last

    def inside(self, kind, ind, nodes):
        self.ctx.append(kind)
        self.block(ind, nodes)
        self.ctx.pop()

    def node(self, ind, n):
        k = n[0]
        if k == "s":
            self.emit(ind, f"out({self.const()});")
        elif k == "if":
            self.emit(ind, f"if ($d[{n[1]}]) {{")
            self.block(ind + 1, n[2])
            if n[3] is not None:
                self.emit(ind, "} else {")
                self.block(ind + 1, n[3])
            self.emit(ind, "}")
        elif k == "while":
            c = f"$k{n[1]}"
            self.emit(ind, f"{c} = 0;")
            self.emit(ind, f"while ({c} < $d[{n[1]}]) {{")
            self.emit(ind + 1, f"{c} = {c} + 1;")
            self.inside("loop", ind + 1, n[2])
            self.emit(ind, "}")
        elif k == "for":
            j = f"$j{n[1]}"
            self.emit(ind, f"for ({j} = 0; {j} < $d[{n[1]}]; {j}++) {{")
            self.inside("loop", ind + 1, n[2])
            self.emit(ind, "}")
        elif k == "forin":
            self.emit(ind, f"foreach ($d[{n[1]}] as $e{n[1]}) {{")
            self.inside("loop", ind + 1, n[2])
            self.emit(ind, "}")
        elif k == "dowhile":
            c = f"$k{n[1]}"
            self.emit(ind, f"{c} = 0;")
            self.emit(ind, "do {")
            self.emit(ind + 1, f"{c} = {c} + 1;")
            self.inside("loop", ind + 1, n[2])
            self.emit(ind, f"}} while ({c} < $d[{n[1]}]);")
        elif k == "break":
            self.emit(ind, "break;")
        elif k == "continue":
            # PHP counts a switch as a looping structure for `continue`: name the level of the loop it belongs to
            lvl = 1
            for c in reversed(self.ctx):
                if c == "loop":
                    break
                lvl += 1
            self.emit(ind, "continue;" if lvl == 1 else f"continue {lvl};")
        elif k == "return":
            self.emit(ind, f"return {self.const()};")
        elif k == "try":
            self.emit(ind, "try {")
            pos = (n[1] * 7 + len(n[2])) % (len(n[2]) + 1)
            if any(x[0] in ("break", "continue", "return") for x in n[2][:pos]):
                pos = 0
            for x in n[2][:pos]:
                self.node(ind + 1, x)
            self.emit(ind + 1, f"if ($d[{n[1]}]) {{")
            self.emit(ind + 2, 'throw new Exception("e");')
            self.emit(ind + 1, "}")
            for x in n[2][pos:]:
                self.node(ind + 1, x)
            self.emit(ind, "} catch (Exception $ex) {")
            self.block(ind + 1, n[3])
            if n[5] is not None:
                self.emit(ind, "} finally {")
                self.block(ind + 1, n[5])
            self.emit(ind, "}")
        elif k == "switch":
            self.emit(ind, f"switch ($d[{n[1]}]) {{")
            self.ctx.append("switch")
            for ci, body in enumerate(n[2]):
                self.emit(ind + 1, f"case {ci}:")
                self.block(ind + 2, body)
                if n[4][ci] and not (body and body[-1][0] in ("return", "continue", "break")):
                    self.emit(ind + 2, "break;")
            if n[3] is not None:
                self.emit(ind + 1, "default:")
                self.block(ind + 2, n[3])
            self.ctx.pop()
            self.emit(ind, "}")
        elif k == "func":
            self.fn += 1
            saved, self.ctx = self.ctx, []
            # PHP functions do not see the variables of the enclosing function: the decision vector is passed on
            # (the JavaScript twin reads the captured, never modified, d)
            if self.fn % 2:
                name = f"inner{self.fn}"
                self.emit(ind, f"function {name}($d) {{")
                self.block(ind + 1, n[1])
                self.emit(ind, "}")
            else:
                name = f"$inner{self.fn}"
                self.emit(ind, f"{name} = function ($d) {{")
                self.block(ind + 1, n[1])
                self.emit(ind, "};")
            self.ctx = saved
            self.emit(ind, f"{name}($d);")
        elif k == "class":
            self.fn += 1
            self.emit(ind, f"class Q{self.fn} {{")
            self.emit(ind + 1, f"function m() {{ return {self.const()}; }}")
            self.emit(ind, "}")
        else:
            raise AssertionError(k)

    # ---- parameterless procedures: top-level variables, named in a `global` statement (which leaves no GIR row)
    def g(self, i, kind=None):
        return f"$G{i}"

    def set_g(self, i, kind):
        return f"$G{i} = $d[{i}];"

    def throw_stmt(self):
        return 'throw new Exception("e");'

    def catch_open(self):
        return "} catch (Exception $ex) {"

    def procs_header(self, specs):
        self.emit(0, "<?php")
        for kind, i, inner, tail in specs:
            self.emit(0, f"$G{i} = 0;")

    def proc_open(self, k, spec):
        self.ctx = ["loop"] if spec[0] in ("while", "dowhile", "for") else []
        self.emit(0, f"function p{k}() {{")
        self.emit(1, f"global $G{spec[1]};")

    def main_open(self, specs):
        self.ctx = []
        self.emit(0, "function main($d) {")
        self.emit(1, "global " + ", ".join(f"$G{i}" for _, i, _, _ in specs) + ";")

    def render(self, skel):
        if self.is_procs(skel):
            return self.render_procs(skel)
        self.emit(0, "<?php")
        self.emit(0, "function main($d) {")
        self.block(1, skel.body)
        self.emit(0, "}")
        return "\n".join(self.lines) + "\n"


class GoRenderer(JsRenderer):
    """Go has no exceptions, no do-while and no class declarations inside functions: use only=GO_KINDS. The decisions are
    read from d []int; the sequences iterated by range loops from a [][]int (same index). A function that falls off its
    end returns 0 (JavaScript: undefined)."""
    ext = "go"
    lang = "go"
    twin = "javascript"
    entry = "run"
    ret_none = 0

    def node(self, ind, n):
        k = n[0]
        if k == "s":
            self.emit(ind, f"out({self.const()})")
        elif k == "if":
            self.emit(ind, f"if d[{n[1]}] != 0 {{")
            self.block(ind + 1, n[2])
            if n[3] is not None:
                self.emit(ind, "} else {")
                self.block(ind + 1, n[3])
            self.emit(ind, "}")
        elif k == "while":
            c = f"k{n[1]}"
            self.emit(ind, f"{c} := 0")
            self.emit(ind, f"for {c} < d[{n[1]}] {{")
            self.emit(ind + 1, f"{c} = {c} + 1")
            self.block(ind + 1, n[2])
            self.emit(ind, "}")
        elif k == "for":
            j = f"j{n[1]}"
            self.emit(ind, f"for {j} := 0; {j} < d[{n[1]}]; {j}++ {{")
            self.block(ind + 1, n[2])
            self.emit(ind, "}")
        elif k == "forin":
            self.emit(ind, f"for _, e{n[1]} := range a[{n[1]}] {{")
            self.emit(ind + 1, f"_ = e{n[1]}")
            self.block(ind + 1, n[2])
            self.emit(ind, "}")
        elif k in ("break", "continue"):
            self.emit(ind, k)
        elif k == "return":
            self.emit(ind, f"return {self.const()}")
        elif k == "switch":
            self.emit(ind, f"switch d[{n[1]}] {{")
            last_clause = len(n[2]) - 1 if n[3] is None else len(n[2])
            for ci, body in enumerate(n[2]):
                self.emit(ind, f"case {ci}:")
                self.block(ind + 1, body)
                ends_in_jump = bool(body) and body[-1][0] in ("return", "continue", "break")
                if not n[4][ci] and not ends_in_jump and ci < last_clause:
                    self.emit(ind + 1, "fallthrough")       # JavaScript: no break, control falls into the next clause
            if n[3] is not None:
                self.emit(ind, "default:")
                self.block(ind + 1, n[3])
            self.emit(ind, "}")
        elif k == "func":
            self.fn += 1
            name = f"inner{self.fn}"
            self.emit(ind, f"{name} := func() int {{")
            self.block(ind + 1, n[1])
            self.emit(ind + 1, "return 0")
            self.emit(ind, "}")
            self.emit(ind, f"{name}()")
        elif k == "class":
            self.fn += 1
            self.const()                                     # the JavaScript class body holds one constant
            self.emit(ind, f"type Q{self.fn} struct {{")
            self.emit(ind + 1, "x int")
            self.emit(ind, "}")
        else:
            raise AssertionError(k)

    # ---- parameterless procedures: package-level variables
    END = ""

    def g(self, i, kind=None):
        return f"B{i}" if kind == "if" else f"G{i}"

    def set_g(self, i, kind):
        return f"B{i} = d[{i}] != 0" if kind == "if" else f"G{i} = d[{i}]"

    def while_open(self, i):
        return f"for G{i} > 0 {{"

    def counted_for(self, i):
        return f"for j{i} := 0; j{i} < G{i}; j{i}++ {{"

    def if_open(self, i, kind="if"):
        return f"if B{i} {{"

    def switch_body(self, i, inner):
        self.emit(1, f"switch G{i} {{")
        self.emit(1, "case 0:")
        self.block(2, inner)
        self.emit(1, "case 1:")
        self.emit(2, self.out_stmt())
        self.emit(2, "fallthrough")
        self.emit(1, "default:")
        self.emit(2, self.out_stmt())
        self.emit(1, "}")

    def procs_header(self, specs):
        self.emit(0, "package main")
        self.emit(0, "")
        for kind, i, inner, tail in specs:
            self.emit(0, f"var B{i} bool" if kind == "if" else f"var G{i} int")
        self.emit(0, "")

    def proc_open(self, k, spec):
        self.emit(0, f"func p{k}() int {{")

    def proc_close(self, k, spec):
        self.emit(1, "return 0")
        self.emit(0, "}")
        self.emit(0, "")

    def main_open(self, specs):
        self.emit(0, "func run(d []int, a [][]int) int {")

    def main_close(self, specs):
        self.emit(1, "return 0")
        self.emit(0, "}")

    def finish_text(self):
        return "\n".join(self.lines).replace("    ", "\t") + "\n"

    def render(self, skel):
        if self.is_procs(skel):
            return self.render_procs(skel)
        self.emit(0, "package main")
        self.emit(0, "")
        self.emit(0, "func run(d []int, a [][]int) int {")
        self.block(1, skel.body)
        self.emit(1, "return 0")
        self.emit(0, "}")
        return "\n".join(self.lines).replace("    ", "\t") + "\n"

    def conv_args(self, v, skel):
        fi = set(self.forin_indexes(skel.body))
        return [[0 if i in fi else x for i, x in enumerate(v)], [list(range(x)) if i in fi else [] for i, x in enumerate(v)]]


class PhpDuRenderer(_DuMixin, PhpRenderer):
    def php(self, t):
        return __import__("re").sub(r"\bv(\d)\b", r"$v\1", t)

    def node(self, ind, n):
        if n[0] == "s":
            self.emit(ind, self.php(self.du_stmt()) + ";")
        else:
            PhpRenderer.node(self, ind, n)

    def render(self, skel):
        self.du_init(__import__("zlib").crc32(skel.label.encode()))
        self.emit(0, "<?php")
        self.emit(0, "function main($d) {")
        for i in range(self.NV):
            self.emit(1, f"$v{i} = {self.const()};")
        self.block(1, skel.body)
        for i in range(self.NV):
            self.emit(1, f"out($v{i});")
        self.emit(0, "}")
        return "\n".join(self.lines) + "\n"


class GoDuRenderer(_DuMixin, GoRenderer):
    def node(self, ind, n):
        if n[0] == "s":
            self.emit(ind, self.du_stmt())
        else:
            GoRenderer.node(self, ind, n)

    def render(self, skel):
        self.du_init(__import__("zlib").crc32(skel.label.encode()))
        self.emit(0, "package main")
        self.emit(0, "")
        self.emit(0, "func run(d []int, a [][]int) int {")
        for i in range(self.NV):
            self.emit(1, f"v{i} := {self.const()}")
        self.block(1, skel.body)
        for i in range(self.NV):
            self.emit(1, f"out(v{i})")
        self.emit(1, "return 0")
        self.emit(0, "}")
        return "\n".join(self.lines).replace("    ", "\t") + "\n"


GO_KINDS = ("s", "if", "while", "for", "forin", "break", "continue", "return", "switch", "func", "class")
# node kinds a language can express with the meaning of the JavaScript rendering (None = all of the skeleton language)
LANG_KINDS = {"go": GO_KINDS}

RENDERERS = {"python": PyRenderer, "javascript": JsRenderer, "java": JavaRenderer, "c": CRenderer,
             "typescript": TsRenderer, "php": PhpRenderer, "go": GoRenderer}
DU_RENDERERS = {"python": PyDuRenderer, "javascript": JsDuRenderer, "typescript": TsDuRenderer, "php": PhpDuRenderer, "go": GoDuRenderer}
