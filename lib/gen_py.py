"""G-py — type-directed generator of deterministic, total, observable Python programs over exactly the constructs of
C01's quantifier. Every program defines `main(a, b, c)` (ints); every computed scalar flows into out(...) or the
return value. Boolean operators only get side-effect-free, non-raising operands (GIR evaluates them eagerly)."""
import random

INT, BOOL, STR = "int", "bool", "str"


class Ty:
    def __init__(self, kind, n=0, keys=(), cls=None):
        self.kind, self.n, self.keys, self.cls = kind, n, tuple(keys), cls

    def __repr__(self):
        return f"Ty({self.kind},{self.n},{self.keys},{self.cls})"


class ClassInfo:
    def __init__(self, name, fields, methods, base=None):
        self.name, self.fields, self.methods, self.base = name, fields, methods, base

    def all_fields(self):
        return (self.base.all_fields() if self.base else []) + self.fields

    def all_methods(self):
        d = dict(self.base.all_methods()) if self.base else {}
        d.update(self.methods)
        return d


class FuncInfo:
    def __init__(self, name, params, ret=INT):
        self.name, self.params, self.ret = name, params, ret   # params: [(name, default or None, kwonly)]


class Gen:
    def __init__(self, rng, max_stmts=28, max_depth=3):
        self.rng = rng
        self.max_stmts = max_stmts
        self.max_depth = max_depth
        self.features = set()
        self.lines = []
        self.funcs = []
        self.classes = []
        self.globals = {}
        self.counter = 0
        self.budget = max_stmts
        self.no_append = 0
        self.protected = set()

    # -------------------------------------------------------------- helpers
    def fresh(self, prefix):
        self.counter += 1
        return f"{prefix}{self.counter}"

    def emit(self, ind, text):
        self.lines.append("    " * ind + text)

    def pick(self, seq):
        return seq[self.rng.randrange(len(seq))]

    def chance(self, p):
        return self.rng.random() < p

    def vars_of(self, env, kind):
        return [n for n, t in env.items() if t.kind == kind]

    # -------------------------------------------------------------- expressions
    def int_lit(self):
        return str(self.pick([0, 1, 2, 3, 4, 5, 7, 10, 12, 100]))

    def int_atom(self, env):
        cands = self.vars_of(env, INT)
        r = self.rng.random()
        if cands and r < 0.6:
            return self.pick(cands)
        if r < 0.7:
            ls = [n for n, t in env.items() if t.kind in ("list", "tuple") and t.n > 0]
            if ls:
                n = self.pick(ls)
                self.features.add("subscript")
                return f"{n}[{self.rng.randrange(env[n].n)}]"
        if r < 0.78:
            ds = [n for n, t in env.items() if t.kind == "dict" and t.keys]
            if ds:
                n = self.pick(ds)
                self.features.add("dict-subscript")
                return f'{n}["{self.pick(env[n].keys)}"]'
        if r < 0.86:
            os_ = [n for n, t in env.items() if t.kind == "obj" and t.cls.all_fields()]
            if os_:
                n = self.pick(os_)
                self.features.add("field-read")
                return f"{n}.{self.pick(env[n].cls.all_fields())}"
        if r < 0.9:
            ls = [n for n, t in env.items() if t.kind in ("list", "str", "dict")]
            if ls:
                self.features.add("len")
                return f"len({self.pick(ls)})"
        if r < 0.93 and self.globals:
            return self.pick(list(self.globals))
        return self.int_lit()

    def int_expr(self, env, depth=0):
        if depth >= self.max_depth or self.chance(0.35):
            return self.int_atom(env)
        r = self.rng.random()
        if r < 0.55:
            op = self.pick(["+", "-", "*", "+", "-"])
            self.features.add("arith")
            return f"({self.int_expr(env, depth + 1)} {op} {self.int_expr(env, depth + 1)})"
        if r < 0.65:
            op = self.pick(["//", "%"])
            self.features.add("divmod")
            return f"({self.int_expr(env, depth + 1)} {op} (abs({self.int_atom(env)}) + {self.pick([1, 2, 3])}))"
        if r < 0.7:
            self.features.add("pow")
            return f"(({self.int_atom(env)} % 5) ** {self.pick([2, 3])})"
        if r < 0.78:
            self.features.add("unary-minus")
            return f"(-{self.int_atom(env)})"
        if r < 0.86:
            self.features.add("condexpr")
            return f"({self.int_expr(env, depth + 1)} if {self.bool_expr(env, depth + 1)} else {self.int_expr(env, depth + 1)})"
        if r < 0.9:
            self.features.add("bitop")
            return f"({self.int_atom(env)} {self.pick(['&', '|', '^'])} {self.int_atom(env)})"
        if r < 0.97 and self.funcs and depth < 2:
            return self.call_expr(env, depth + 1)
        return self.int_atom(env)

    def call_expr(self, env, depth):
        f = self.pick(self.funcs)
        args = []
        self.features.add("call")
        used_kw = False
        for (pn, dflt, kwonly) in f.params:
            if dflt is not None and self.chance(0.5):
                self.features.add("default-arg")
                continue
            a = self.int_expr(env, depth + 1)
            if kwonly or used_kw or self.chance(0.25):
                args.append(f"{pn}={a}")
                used_kw = True
                self.features.add("keyword-arg")
            else:
                args.append(a)
        return f"{f.name}({', '.join(args)})"

    def bool_expr(self, env, depth=0):
        r = self.rng.random()
        bools = self.vars_of(env, BOOL)
        if bools and r < 0.15:
            return self.pick(bools)
        if r < 0.6 or depth >= self.max_depth:
            op = self.pick(["<", "<=", ">", ">=", "==", "!="])
            self.features.add("compare")
            return f"({self.int_atom(env)} {op} {self.int_atom(env)})"
        if r < 0.72:
            self.features.add("boolop")
            return f"({self.bool_expr(env, depth + 1)} {self.pick(['and', 'or'])} {self.bool_expr(env, depth + 1)})"
        if r < 0.8:
            self.features.add("not")
            return f"(not {self.bool_expr(env, depth + 1)})"
        if r < 0.86:
            ls = [n for n, t in env.items() if t.kind in ("list", "tuple")]
            if ls:
                self.features.add("in")
                return f"({self.int_atom(env)} {self.pick(['in', 'not in'])} {self.pick(ls)})"
        if r < 0.9:
            self.features.add("chained-compare")
            return f"({self.int_atom(env)} {self.pick(['<', '<='])} {self.int_atom(env)} {self.pick(['<', '<=', '=='])} {self.int_atom(env)})"
        if r < 0.94:
            strs = self.vars_of(env, STR)
            if strs:
                self.features.add("str-compare")
                return f"({self.pick(strs)} == {self.str_lit()})"
        op = self.pick(["<", ">", "=="])
        return f"({self.int_expr(env, depth + 1)} {op} {self.int_expr(env, depth + 1)})"

    def str_lit(self):
        return self.pick(['"a"', '"bc"', "'x y'", '""', '"it\'s"', '"q\\"t"', '"a\\\\b"', '"1+2"', '"%s"', "'{}'", '"naïve"'])

    def str_expr(self, env, depth=0):
        strs = self.vars_of(env, STR)
        r = self.rng.random()
        if strs and r < 0.4:
            return self.pick(strs)
        if r < 0.6 or depth >= 2:
            return self.str_lit()
        if r < 0.85:
            self.features.add("str-concat")
            return f"({self.str_expr(env, depth + 1)} + {self.str_expr(env, depth + 1)})"
        if r < 0.93:
            self.features.add("str-repeat")
            return f"({self.str_expr(env, depth + 1)} * {self.pick([0, 1, 2, 3])})"
        self.features.add("str-of-int")
        return f"str({self.int_atom(env)})"

    # -------------------------------------------------------------- statements
    def out_stmt(self, ind, env):
        k = self.rng.randint(1, 3)
        args = []
        for _ in range(k):
            r = self.rng.random()
            if r < 0.6:
                args.append(self.int_expr(env, 1))
            elif r < 0.8:
                args.append(self.bool_expr(env, 1))
            else:
                args.append(self.str_expr(env, 1))
        self.emit(ind, f"out({', '.join(args)})")

    def block(self, ind, env, depth, in_loop, in_func, ret_ok=True):
        """Emit 1..k statements; env is updated only with variables defined on all paths (copy for branches)."""
        n = self.rng.randint(1, 4 if depth else 6)
        for _ in range(n):
            if self.budget <= 0:
                break
            self.stmt(ind, env, depth, in_loop, in_func, ret_ok)
        if not self.lines or not self.lines[-1].startswith("    " * ind) or self.lines[-1].strip() == "":
            self.emit(ind, "pass")

    def stmt(self, ind, env, depth, in_loop, in_func, ret_ok):
        self.budget -= 1
        r = self.rng.random()
        ints = [n for n in self.vars_of(env, INT) if n not in self.protected]
        if r < 0.16:
            v = self.pick(ints) if ints and self.chance(0.5) else self.fresh("v")
            self.emit(ind, f"{v} = {self.int_expr(env)}")
            env[v] = Ty(INT)
            self.features.add("assign")
        elif r < 0.24 and ints:
            self.features.add("augassign")
            self.emit(ind, f"{self.pick(ints)} {self.pick(['+=', '-=', '*='] if not in_loop else ['+=', '-='])} {self.int_expr(env, 1)}")
        elif r < 0.29:
            v = self.fresh("s")
            self.emit(ind, f"{v} = {self.str_expr(env)}")
            env[v] = Ty(STR)
        elif r < 0.33:
            v = self.fresh("f")
            self.emit(ind, f"{v} = {self.bool_expr(env)}")
            env[v] = Ty(BOOL)
        elif r < 0.39:
            v = self.fresh("l")
            k = self.rng.randint(1, 4)
            self.features.add("list")
            self.emit(ind, f"{v} = [{', '.join(self.int_expr(env, 2) for _ in range(k))}]")
            env[v] = Ty("list", k)
        elif r < 0.42:
            v = self.fresh("t")
            self.features.add("tuple")
            self.emit(ind, f"{v} = ({self.int_expr(env, 2)}, {self.int_expr(env, 2)})")
            env[v] = Ty("tuple", 2)
        elif r < 0.46:
            v = self.fresh("d")
            keys = self.rng.sample(["k", "m", "x", "yy"], self.rng.randint(1, 3))
            self.features.add("dict")
            self.emit(ind, f"{v} = {{{', '.join(f'\"{k}\": {self.int_expr(env, 2)}' for k in keys)}}}")
            env[v] = Ty("dict", keys=keys)
        elif r < 0.51:
            ls = [n for n, t in env.items() if t.kind == "list" and t.n > 0]
            ds = [n for n, t in env.items() if t.kind == "dict" and t.keys]
            if ls and (not ds or self.chance(0.6)):
                n = self.pick(ls)
                i = self.rng.randrange(env[n].n)
                if self.chance(0.4):
                    self.features.add("aug-subscript")
                    self.emit(ind, f"{n}[{i}] {self.pick(['+=', '-='])} {self.int_expr(env, 2)}")
                else:
                    self.features.add("subscript-store")
                    self.emit(ind, f"{n}[{i}] = {self.int_expr(env, 2)}")
            elif ds:
                n = self.pick(ds)
                self.features.add("dict-store")
                self.emit(ind, f'{n}["{self.pick(env[n].keys)}"] {self.pick(["=", "+="])} {self.int_expr(env, 2)}')
            else:
                self.out_stmt(ind, env)
        elif r < 0.55:
            tl = [n for n, t in env.items() if t.kind in ("tuple", "list") and t.n == 2]
            x, y = self.fresh("u"), self.fresh("u")
            self.features.add("unpack")
            if tl and self.chance(0.6):
                self.emit(ind, f"{x}, {y} = {self.pick(tl)}")
            else:
                self.emit(ind, f"{x}, {y} = {self.int_expr(env, 2)}, {self.int_expr(env, 2)}")
            env[x] = Ty(INT)
            env[y] = Ty(INT)
        elif r < 0.59:
            ls = [n for n, t in env.items() if t.kind == "list" and t.n >= 2]
            if ls:
                n = self.pick(ls)
                v = self.fresh("l")
                a = self.rng.randrange(env[n].n)
                b = self.rng.randint(a, env[n].n)
                self.features.add("slice")
                form = self.pick([f"{a}:{b}", f"{a}:", f":{b}", "::2", f"{a}:{b}:1"])
                self.emit(ind, f"{v} = {n}[{form}]")
                env[v] = Ty("list", 0)
            else:
                self.out_stmt(ind, env)
        elif r < 0.62:
            ls = [n for n, t in env.items() if t.kind == "list"]
            if ls and self.no_append == 0:
                n = self.pick(ls)
                self.features.add("append")
                self.emit(ind, f"{n}.append({self.int_expr(env, 2)})")
            else:
                self.out_stmt(ind, env)
        elif r < 0.70 and depth < self.max_depth:
            self.if_stmt(ind, env, depth, in_loop, in_func, ret_ok)
        elif r < 0.76 and depth < self.max_depth:
            self.while_stmt(ind, env, depth, in_func)
        elif r < 0.82 and depth < self.max_depth:
            self.for_stmt(ind, env, depth, in_func)
        elif r < 0.86 and self.classes:
            self.obj_stmt(ind, env)
        elif r < 0.88 and in_loop:
            self.features.add("break" if self.chance(0.5) else "continue")
            kw = "break" if self.chance(0.5) else "continue"
            self.emit(ind, f"if {self.bool_expr(env, 1)}:")
            self.emit(ind + 1, kw)
        elif r < 0.90 and ret_ok and in_func and depth > 0:
            self.features.add("early-return")
            self.emit(ind, f"if {self.bool_expr(env, 1)}:")
            self.emit(ind + 1, f"return {self.int_expr(env, 1)}")
        elif r < 0.93 and in_func and depth == 0 and not in_loop:
            self.nested_func(ind, env)
        else:
            self.out_stmt(ind, env)

    def if_stmt(self, ind, env, depth, in_loop, in_func, ret_ok):
        self.features.add("if")
        self.emit(ind, f"if {self.bool_expr(env)}:")
        self.block(ind + 1, dict(env), depth + 1, in_loop, in_func, ret_ok)
        k = self.rng.random()
        if k < 0.35:
            self.features.add("elif")
            for _ in range(self.rng.randint(1, 2)):
                self.emit(ind, f"elif {self.bool_expr(env)}:")
                self.block(ind + 1, dict(env), depth + 1, in_loop, in_func, ret_ok)
        if k < 0.7:
            self.features.add("else")
            self.emit(ind, "else:")
            self.block(ind + 1, dict(env), depth + 1, in_loop, in_func, ret_ok)

    def while_stmt(self, ind, env, depth, in_func):
        self.features.add("while")
        i = self.fresh("i")
        bound = self.rng.randint(0, 4)
        self.emit(ind, f"{i} = 0")
        env[i] = Ty(INT)
        self.protected.add(i)
        cond = f"{i} < {bound}"
        if self.chance(0.3):
            cond = f"({i} < {bound}) and {self.bool_expr(env, 2)}"
            self.features.add("while-compound-cond")
        self.emit(ind, f"while {cond}:")
        self.emit(ind + 1, f"{i} += 1")
        inner = dict(env)
        inner_ro = i
        self.block(ind + 1, inner, depth + 1, True, in_func)
        # make sure nothing in the body re-assigned the counter downwards: counter names are fresh and only `+=`-able
        if self.chance(0.15):
            self.features.add("while-else")
            self.emit(ind, "else:")
            self.out_stmt(ind + 1, env)

    def for_stmt(self, ind, env, depth, in_func):
        self.features.add("for")
        x = self.fresh("x")
        r = self.rng.random()
        ls = [n for n, t in env.items() if t.kind in ("list", "tuple")]
        ds = [n for n, t in env.items() if t.kind == "dict"]
        if r < 0.4:
            self.features.add("range")
            self.emit(ind, f"for {x} in range({self.rng.randint(0, 4)}):")
            env2 = dict(env); env2[x] = Ty(INT)
        elif r < 0.7 and ls:
            self.emit(ind, f"for {x} in {self.pick(ls)}:")
            env2 = dict(env); env2[x] = Ty(INT)
        elif r < 0.8 and ds:
            self.features.add("for-dict")
            self.emit(ind, f"for {x} in {self.pick(ds)}:")
            env2 = dict(env); env2[x] = Ty(STR)
        elif r < 0.9:
            y = self.fresh("y")
            self.features.add("for-unpack")
            self.emit(ind, f"for {x}, {y} in [({self.int_expr(env, 2)}, 1), (2, {self.int_expr(env, 2)})]:")
            env2 = dict(env); env2[x] = Ty(INT); env2[y] = Ty(INT)
        else:
            self.emit(ind, f"for {x} in [{self.int_expr(env, 2)}, {self.int_expr(env, 2)}]:")
            env2 = dict(env); env2[x] = Ty(INT)
        self.no_append += 1
        self.block(ind + 1, env2, depth + 1, True, in_func)
        self.no_append -= 1

    def obj_stmt(self, ind, env):
        objs = [n for n, t in env.items() if t.kind == "obj"]
        if not objs or self.chance(0.35):
            c = self.pick(self.classes)
            v = self.fresh("o")
            self.features.add("new")
            nargs = c.__dict__.get("ctor_args", 1)
            self.emit(ind, f"{v} = {c.name}({', '.join(self.int_expr(env, 2) for _ in range(nargs))})")
            env[v] = Ty("obj", cls=c)
            return
        o = self.pick(objs)
        c = env[o].cls
        r = self.rng.random()
        if r < 0.35 and c.all_fields():
            self.features.add("field-write")
            self.emit(ind, f"{o}.{self.pick(c.all_fields())} {self.pick(['=', '+=', '-='])} {self.int_expr(env, 2)}")
        elif c.all_methods():
            m = self.pick(list(c.all_methods()))
            v = self.fresh("v")
            self.features.add("method-call")
            np_ = c.all_methods()[m]
            self.emit(ind, f"{v} = {o}.{m}({', '.join(self.int_expr(env, 2) for _ in range(np_))})")
            env[v] = Ty(INT)
        else:
            self.out_stmt(ind, env)

    def nested_func(self, ind, env):
        ints = self.vars_of(env, INT)
        if not ints:
            return self.out_stmt(ind, env)
        name = self.fresh("inner")
        cap = self.pick(ints)
        self.features.add("nested-func")
        self.emit(ind, f"def {name}(p):")
        if self.chance(0.4):
            self.features.add("nonlocal")
            self.emit(ind + 1, f"nonlocal {cap}")
            self.emit(ind + 1, f"{cap} = {cap} + p")
            self.emit(ind + 1, f"return {cap} * 2")
        else:
            self.features.add("closure-read")
            self.emit(ind + 1, f"q = {cap} + p")
            self.emit(ind + 1, f"return q - {self.int_lit()}")
        v = self.fresh("v")
        self.emit(ind, f"{v} = {name}({self.int_expr(env, 2)})")
        env[v] = Ty(INT)
        if self.chance(0.5):
            self.emit(ind, f"out({name}(1), {cap})")

    # -------------------------------------------------------------- top level
    def gen_func(self):
        name = self.fresh("fn")
        params = []
        np_ = self.rng.randint(1, 3)
        seen_default = False
        kwonly_started = False
        sig = []
        rebind = []
        for k in range(np_):
            pn = f"p{k}"
            dflt = None
            if seen_default or self.chance(0.35):
                dflt = self.pick(["0", "1", "5", "-1", "10"])
                if self.globals and self.chance(0.4):
                    # a default that is a bare name: bound when the def executes, not when the call is made
                    dflt = self.pick(list(self.globals))
                    rebind.append(dflt)
                    self.features.add("default-param-name")
                seen_default = True
            kwonly = False
            if kwonly_started or (k == np_ - 1 and np_ > 1 and self.chance(0.2)):
                if not kwonly_started:
                    sig.append("*")
                kwonly_started = True
                kwonly = True
                self.features.add("kwonly-param")
            params.append((pn, dflt, kwonly))
            sig.append(pn if dflt is None else f"{pn}={dflt}")
            if dflt is not None:
                self.features.add("default-param")
        self.emit(0, f"def {name}({', '.join(sig)}):")
        env = {pn: Ty(INT) for pn, _, _ in params}
        saved_funcs = list(self.funcs)
        if self.chance(0.2):
            self.features.add("recursion")
            self.emit(1, f"if p0 <= 0 or p0 > 6:")
            self.emit(2, f"return {self.int_lit()}")
            rec_args = ["p0 - 1"] + [f"{pn}={pn}" for pn, _, _ in params[1:]]
            self.emit(1, f"r = {name}({', '.join(rec_args)})")
            env["r"] = Ty(INT)
        saved_budget = self.budget
        self.budget = min(self.budget, 6)
        self.block(1, env, 1, False, True)
        self.budget = saved_budget - (6 - max(self.budget, 0))
        self.emit(1, f"return {self.int_expr(env, 1)}")
        self.emit(0, "")
        for g in rebind:
            # the name used as a default is rebound after the def: calls that omit the argument still get the old value
            self.emit(0, f"{g} = {g} + {self.rng.randint(3, 9)}")
        self.funcs = saved_funcs + [FuncInfo(name, params)]

    def gen_class(self, base=None):
        name = self.fresh("K")
        fields = [self.fresh("g") for _ in range(self.rng.randint(1, 2))]
        self.features.add("class")
        hdr = f"class {name}({base.name}):" if base else f"class {name}:"
        if base:
            self.features.add("inheritance")
        self.emit(0, hdr)
        if self.chance(0.3):
            self.features.add("class-attr")
            self.emit(1, f"shared = {self.int_lit()}")
        self.emit(1, "def __init__(self, a0):")
        if base:
            self.emit(2, f"{base.name}.__init__(self, a0 + 1)")
        for i, f in enumerate(fields):
            self.emit(2, f"self.{f} = a0 + {i}" if i else f"self.{f} = a0")
        methods = {}
        for _ in range(self.rng.randint(1, 2)):
            m = self.fresh("m")
            np_ = self.rng.randint(0, 2)
            ps = [f"q{k}" for k in range(np_)]
            self.emit(1, f"def {m}({', '.join(['self'] + ps)}):")
            env = {p: Ty(INT) for p in ps}
            allf = (base.all_fields() if base else []) + fields
            f0 = self.pick(allf)
            self.emit(2, f"t = self.{f0} + {self.int_expr(env, 2)}")
            env["t"] = Ty(INT)
            if self.chance(0.5):
                self.emit(2, f"self.{self.pick(allf)} = t")
            if self.chance(0.4):
                self.emit(2, f"if {self.bool_expr(env, 2)}:")
                self.emit(3, f"return t - {self.int_lit()}")
            if methods and self.chance(0.4):
                om = self.pick(list(methods))
                self.features.add("self-call")
                self.emit(2, f"t = t + self.{om}({', '.join(self.int_lit() for _ in range(methods[om]))})")
            self.emit(2, f"return {self.int_expr(env, 2)}")
            methods[m] = np_
        if base and self.chance(0.5) and base.methods:
            om = self.pick(list(base.methods))
            self.features.add("override")
            ps = [f"q{k}" for k in range(base.methods[om])]
            self.emit(1, f"def {om}({', '.join(['self'] + ps)}):")
            self.emit(2, f"return self.{fields[0]} * 3")
            methods[om] = base.methods[om]
        self.emit(0, "")
        ci = ClassInfo(name, fields, methods, base)
        ci.ctor_args = 1
        self.classes.append(ci)
        return ci

    def generate(self):
        for _ in range(self.rng.randint(0, 2)):
            g = self.fresh("G")
            self.emit(0, f"{g} = {self.int_lit()}")
            self.globals[g] = Ty(INT)
        for _ in range(self.rng.randint(0, 2)):
            self.gen_func()
        if self.chance(0.5):
            c = self.gen_class()
            if self.chance(0.4):
                self.gen_class(base=c)
        if self.chance(0.3):
            self.gen_func()
        self.emit(0, "def main(a, b, c):")
        env = {"a": Ty(INT), "b": Ty(INT), "c": Ty(INT)}
        if self.globals and self.chance(0.3):
            g = self.pick(list(self.globals))
            self.features.add("global-stmt")
            self.emit(1, f"global {g}")
            self.emit(1, f"{g} = {g} + a")
        self.block(1, env, 0, False, True, ret_ok=True)
        while self.budget > 0 and self.chance(0.7):
            self.stmt(1, env, 0, False, True, True)
        scal = [n for n, t in env.items() if t.kind in (INT, BOOL, STR)]
        self.emit(1, f"out({', '.join(scal[:8])})")
        for n, t in env.items():
            if t.kind == "obj":
                for f in t.cls.all_fields():
                    self.emit(1, f"out({n}.{f})")
            elif t.kind in ("list", "tuple"):
                self.emit(1, f"out(len({n}))")
                self.emit(1, f"for e_ in {n}:")
                self.emit(2, "out(e_)")
            elif t.kind == "dict":
                for k in t.keys:
                    self.emit(1, f'out({n}["{k}"])')
        self.emit(1, f"return {self.int_expr(env, 1)}")
        self.emit(0, "")
        if self.chance(0.4):
            self.features.add("toplevel-code")
            self.emit(0, f"out(main(1, 2, 3))")
            if self.globals:
                self.emit(0, f"out({self.pick(list(self.globals))})")
        return "\n".join(self.lines) + "\n"


def generate(seed, max_stmts=28):
    rng = random.Random(seed)
    g = Gen(rng, max_stmts=max_stmts)
    src = g.generate()
    return src, sorted(g.features)


ARG_VECTORS = [(0, 0, 0), (1, 2, 3), (-3, 5, 2), (7, -1, 4), (2, 2, 2), (10, 0, -5)]
