"""G-adv — parameterised adversarial program families F(n) for C13 (termination / polynomial work).

Every family is a pure function (n, variant) -> Program: the text of the program is determined by the family
name, the size parameter n and a small integer `variant` (derived from VERIF_SEED; it chooses the order in which
the functions are written into the file, a name salt and one of a few equivalent statement shapes).  Nothing else
is random, so a stored (family, n, p2, variant) replays exactly.

All programs have an entry function `entry(req)` whose parameter `req` is the taint source (parameter rule) and
call(s) of an unresolved `sink(...)` as taint sink, so that the taint phase of `lian run` has a non-empty
worklist, and top-level code that calls `entry`.
"""
import random

SETTINGS = {
    "entry": "- method_list: ['%unit_init', 'entry']\n",
    "source": ("- lang: python\n  rules:\n  - operation: parameter_decl\n    name: req\n"
               "- lang: javascript\n  rules:\n  - operation: parameter_decl\n    name: req\n"
               "- lang: java\n  rules:\n  - operation: parameter_decl\n    name: req\n"),
    "sink": ("- lang: python\n  rules:\n  - operation: call_stmt\n    name: sink\n    target: ['\\%arg0']\n"
             "    vuln_type: generic_sink\n"
             "- lang: javascript\n  rules:\n  - operation: call_stmt\n    name: sink\n    target: ['\\%arg0']\n"
             "    vuln_type: generic_sink\n"
             "- lang: java\n  rules:\n  - operation: call_stmt\n    name: sink\n    target: ['\\%arg0']\n"
             "    vuln_type: generic_sink\n"),
    "propagation": "[]\n",
}


class Program:
    def __init__(self, family, n, variant, lang, files, note=""):
        self.family, self.n, self.variant, self.lang, self.files, self.note = family, n, variant, lang, files, note

    @property
    def size(self):
        return sum(len(t) for t in self.files.values())

    @property
    def lines(self):
        return sum(t.count("\n") + 1 for t in self.files.values())


class Family:
    def __init__(self, name, gen, lang="python", quick=None, thorough=None, hostile=False, doc="",
                 growth=True, big=(), mechanism="constant_folding"):
        self.name, self.gen, self.lang, self.hostile, self.doc = name, gen, lang, hostile, doc
        self.mechanism = mechanism     # what a hostile family exercises (first part of its signatures)
        self.big = tuple(big)          # extra large sizes, run without --enable-p2 only
        self.quick = quick if quick is not None else QUICK_NS
        self.thorough = thorough if thorough is not None else THOROUGH_NS
        self.growth = growth           # n is a size parameter along which growth ratios are meaningful

    def make(self, n, variant=0):
        rng = random.Random(f"{self.name}/{variant}")
        files = self.gen(n, rng, variant)
        if isinstance(files, str):
            ext = {"python": "py", "javascript": "js", "java": "java"}[self.lang]
            files = {("Main.java" if self.lang == "java" else f"main.{ext}"): files}
        return Program(self.name, n, variant, self.lang, files, self.doc)


QUICK_NS = (3, 8, 9, 10, 11)
THOROUGH_NS = tuple(range(1, 17))
FAMILIES = {}


def family(name, **kw):
    def deco(fn):
        FAMILIES[name] = Family(name, fn, doc=(fn.__doc__ or "").strip().split("\n")[0], **kw)
        return fn
    return deco


def _shuffled_defs(defs, rng, variant):
    """Function/class definitions in an order chosen by the variant (0 = as written, 1 = reversed, else shuffled)."""
    defs = list(defs)
    if variant % 3 == 1:
        defs.reverse()
    elif variant % 3 == 2:
        rng.shuffle(defs)
    return defs


def _salt(variant):
    return "" if variant == 0 else "_v%d" % variant


PY_TAIL = "\nentry(1)\n"


# =========================================================================================================
# recursion
@family("self_recursion")
def self_recursion(n, rng, variant):
    """one function with n self-recursive call sites (n-ary recursion)"""
    s = _salt(variant)
    calls = " + ".join(f"f{s}(x + {i}, k - 1)" for i in range(1, n + 1))
    defs = [f"def f{s}(x, k):\n    if k > 0:\n        return {calls}\n    return x\n",
            f"def entry(req):\n    r = f{s}(req, 3)\n    sink(r)\n    return r\n"]
    return "\n".join(_shuffled_defs(defs, rng, variant)) + PY_TAIL


@family("mutual_ring")
def mutual_ring(n, rng, variant):
    """ring of n mutually recursive functions f0 -> f1 -> ... -> f(n-1) -> f0"""
    s = _salt(variant)
    defs = []
    for i in range(n):
        j = (i + 1) % n
        defs.append(f"def f{i}{s}(x, k):\n    if k > 0:\n        y = f{j}{s}(x, k - 1)\n        return y\n    return x\n")
    defs.append(f"def entry(req):\n    r = f0{s}(req, {n + 2})\n    sink(r)\n    return r\n")
    return "\n".join(_shuffled_defs(defs, rng, variant)) + PY_TAIL


@family("self_application")
def self_application(n, rng, variant):
    """higher-order self-application: n combinators `def a_i(f, x): return f(f, x)` applied to each other in a ring"""
    s = _salt(variant)
    defs = [f"def a{i}{s}(f, x):\n    return f(f, x)\n" for i in range(n)]
    body = ["def entry(req):", "    r = req"]
    for i in range(n):
        body.append(f"    r = a{i}{s}(a{(i + 1) % n}{s}, r)")
    body += ["    sink(r)", "    return r", ""]
    defs.append("\n".join(body))
    return "\n".join(_shuffled_defs(defs, rng, variant)) + PY_TAIL


@family("cyclic_imports")
def cyclic_imports(n, rng, variant):
    """ring of n modules, module i imports module i+1 (the last imports the first) and calls into it"""
    files = {}
    for i in range(n):
        j = (i + 1) % n
        imp = f"from m{j} import g{j}\n" if variant % 2 == 0 else f"import m{j}\n"
        callee = f"g{j}" if variant % 2 == 0 else f"m{j}.g{j}"
        files[f"m{i}.py"] = (f"{imp}\nV{i} = {i}\n\ndef g{i}(x, k):\n    if k > 0:\n        return {callee}(x, k - 1)\n"
                             f"    return x\n")
    files["main.py"] = ("from m0 import g0\n\ndef entry(req):\n    r = g0(req, %d)\n    sink(r)\n    return r\n" % (n + 1)
                        + PY_TAIL)
    return files


@family("cyclic_objects")
def cyclic_objects(n, rng, variant):
    """n objects linked into a ring through a field, walked in a loop"""
    s = _salt(variant)
    lines = [f"class Node{s}:", "    def __init__(self, v):", "        self.val = v", "        self.next = None", "",
             "def entry(req):"]
    for i in range(n):
        lines.append(f"    o{i} = Node{s}({'req' if i == 0 else i})")
    for i in range(n):
        lines.append(f"    o{i}.next = o{(i + 1) % n}")
    lines += ["    p = o0", "    k = 0", f"    while k < {2 * n + 1}:", "        p = p.next", "        k = k + 1",
              "    sink(p.val)", "    return p", ""]
    return "\n".join(lines) + PY_TAIL


# =========================================================================================================
# control flow
@family("nested_loops")
def nested_loops(n, rng, variant):
    """loops nested n deep, every level updates an accumulator that reaches the sink"""
    lines = ["def entry(req):", "    acc = req", "    t = 0"]
    ind = "    "
    for i in range(n):
        if (i + variant) % 2 == 0:
            lines.append(f"{ind}i{i} = 0")
            lines.append(f"{ind}while i{i} < 3:")
            ind += "    "
            lines.append(f"{ind}i{i} = i{i} + 1")
        else:
            lines.append(f"{ind}for i{i} in range(3):")
            ind += "    "
        lines.append(f"{ind}acc = acc + i{i}")
    lines.append(f"{ind}t = t + acc")
    lines += ["    sink(t)", "    return t", ""]
    return "\n".join(lines) + PY_TAIL


@family("branch_n")
def branch_n(n, rng, variant):
    """n-way branching on one variable (n + 1 reaching definitions / abstract values) followed by uses"""
    lines = ["def entry(req):", "    c = req", "    x = 0"]
    for i in range(n):
        kw = "if" if i == 0 else "elif"
        val = f"{i + 1}" if variant % 2 == 0 else f"'s{i}'"
        lines.append(f"    {kw} c == {i}:")
        lines.append(f"        x = {val}")
    lines += ["    else:", "        x = req", "    y = x", "    z = y", "    w = [z, x]", "    sink(z)", "    return w", ""]
    return "\n".join(lines) + PY_TAIL


@family("branch_fold")
def branch_fold(n, rng, variant):
    """a variable with n + 1 constant values (n-way branch) is combined with itself by a binary operator: the fold
    enumerates the pairs of abstract values"""
    lines = ["def entry(req):", "    x = 1"]
    for i in range(n):
        kw = "if" if i == 0 else "elif"
        lines.append(f"    {kw} req == {i}:")
        lines.append(f"        x = {i + 2}")
    lines += ["    sink(req)", "    y = x + x", "    w = y * 2", "    return w", ""]
    return "\n".join(lines) + PY_TAIL


@family("fold_depth")
def fold_depth(n, rng, variant):
    """a two-valued variable is combined with itself n times in a row (x = x + x): the number of abstract values
    must not square at every step"""
    lines = ["def entry(req):", "    sink(req)", "    x = 1", "    if req:", "        x = 2"]
    for i in range(n):
        lines.append("    x = x + x" if variant % 2 == 0 else f"    x{i + 1} = x{i if i else ''} + x{i if i else ''}")
    last = "x" if variant % 2 == 0 else f"x{n}"
    lines += [f"    return {last}", ""]
    return "\n".join(lines) + PY_TAIL


@family("fold_asym")
def fold_asym(n, rng, variant):
    """a three-valued variable is folded into an accumulator n times in a row (b = a + b): the number of abstract
    values of the accumulator must not triple at every step (the asymmetric sibling of fold_depth)"""
    lines = ["def entry(req):", "    sink(req)", "    a = 2", "    if req:", "        a = 3", "    else:", "        if req:", "            a = 5", "    b = 1"]
    for i in range(n):
        lines.append("    b = a + b" if variant % 2 == 0 else f"    b{i + 1} = a + b{i if i else ''}")
    last = "b" if variant % 2 == 0 else f"b{n}"
    lines += [f"    return {last}", ""]
    return "\n".join(lines) + PY_TAIL


@family("fold_double", hostile=True)
def fold_double(n, rng, variant):
    """a 128-character string constant is concatenated with itself n times (s = s + s): the folded value doubles
    per line (10^6 bits at n = 10)"""
    lines = ["def entry(req):", "    sink(req)", "    s = '%s'" % ("ab" * 64)]
    lines += ["    s = s + s"] * n
    lines += ["    return s", ""]
    return "\n".join(lines) + PY_TAIL


@family("fold_square", hostile=True)
def fold_square(n, rng, variant):
    """a 1024-bit integer constant is multiplied with itself n times (x = x * x): the folded value squares per line"""
    lines = ["def entry(req):", "    sink(req)", "    x = %d" % (3 ** 646)]
    lines += ["    x = x * x"] * n
    lines += ["    return x", ""]
    return "\n".join(lines) + PY_TAIL


# =========================================================================================================
# call graphs
def _chain(n, k, s, rng, variant):
    defs = []
    for i in range(n):
        callee = f"f{i + 1}{s}"
        if variant % 2 == 0:
            body = [f"    a0 = {callee}(x)"] + [f"    a{j} = {callee}(a{j - 1})" for j in range(1, k)] + [f"    return a{k - 1}"]
        else:
            body = ["    return " + " + ".join(f"{callee}(x)" for _ in range(k))]
        defs.append(f"def f{i}{s}(x):\n" + "\n".join(body) + "\n")
    defs.append(f"def f{n}{s}(x):\n    return x\n")
    defs.append(f"def entry(req):\n    r = f0{s}(req)\n    sink(r)\n    return r\n")
    return "\n".join(_shuffled_defs(defs, rng, variant)) + PY_TAIL


@family("chain_k2")
def chain_k2(n, rng, variant):
    """call chain of length n with 2 call sites per function (2^n call paths)"""
    return _chain(n, 2, _salt(variant), rng, variant)


@family("chain_k3")
def chain_k3(n, rng, variant):
    """call chain of length n with 3 call sites per function (3^n call paths)"""
    return _chain(n, 3, _salt(variant), rng, variant)


@family("diamond")
def diamond(n, rng, variant):
    """n layers, each layer has two functions and each of them calls both functions of the next layer"""
    s = _salt(variant)
    defs = []
    for i in range(n):
        for side in "lr":
            defs.append(f"def {side}{i}{s}(x):\n    u = l{i + 1}{s}(x)\n    v = r{i + 1}{s}(u)\n    return v\n")
    defs.append(f"def l{n}{s}(x):\n    return x\n")
    defs.append(f"def r{n}{s}(x):\n    return x\n")
    defs.append(f"def entry(req):\n    r = l0{s}(req)\n    sink(r)\n    return r\n")
    return "\n".join(_shuffled_defs(defs, rng, variant)) + PY_TAIL


@family("params_n")
def params_n(n, rng, variant):
    """a function with n parameters called with n arguments (positional, or keyword in variant 1)"""
    s = _salt(variant)
    ps = ", ".join(f"p{i}" for i in range(n))
    if variant % 2 == 0:
        args = ", ".join(["req"] + [str(i) for i in range(1, n)])
    else:
        args = ", ".join([f"p0=req"] + [f"p{i}={i}" for i in range(1, n)])
    body = "    t = p0\n" + "".join(f"    t = t + p{i}\n" for i in range(1, n)) + "    return t\n"
    defs = [f"def g{s}({ps}):\n{body}", f"def entry(req):\n    r = g{s}({args})\n    sink(r)\n    return r\n"]
    return "\n".join(_shuffled_defs(defs, rng, variant)) + PY_TAIL


@family("inherit_chain")
def inherit_chain(n, rng, variant):
    """n classes in an inheritance chain, every class overrides m; m is called through a variable that may hold any of them"""
    s = _salt(variant)
    lines = [f"class C0{s}:", "    def m(self, x):", "        return x", "    def keep(self, x):", "        return self.m(x)", ""]
    for i in range(1, n):
        lines += [f"class C{i}{s}(C{i - 1}{s}):", "    def m(self, x):", f"        y = x + {i}", "        return y", ""]
    lines += [f"def use(o: C0{s}, v):", "    return o.m(v)", "", "def entry(req):", f"    o = C0{s}()"]
    for i in range(1, n):
        lines += [f"    if req == {i}:", f"        o = C{i}{s}()"]
    lines += ["    r = use(o, req)", "    q = o.keep(r)", "    sink(q)", "    return q", ""]
    return "\n".join(lines) + PY_TAIL


# =========================================================================================================
# data
@family("fields_n")
def fields_n(n, rng, variant):
    """an object with n fields, written then read back"""
    s = _salt(variant)
    lines = [f"class Box{s}:", "    def __init__(self):"] + [f"        self.f{i} = {i}" for i in range(n)] + [
        "", "def entry(req):", f"    b = Box{s}()"]
    lines += [f"    b.f{i} = req" if i == 0 else f"    b.f{i} = b.f{i - 1}" for i in range(n)]
    lines += [f"    r = b.f{n - 1}", "    sink(r)", "    return b", ""]
    return "\n".join(lines) + PY_TAIL


@family("array_n")
def array_n(n, rng, variant):
    """a list with n elements, written by index, by append and in a loop, then read (MAX_ARRAY_ELEMENT_STATES)"""
    elems = ", ".join(["req"] + [str(i) for i in range(1, n)])
    lines = ["def entry(req):", f"    a = [{elems}]"]
    for i in range(n):
        lines.append(f"    a[{i}] = a[{(i + 1) % n}]")
    lines += ["    k = 0", f"    while k < {n}:", "        a[k] = a[0]", "        a.append(k)", "        k = k + 1"]
    lines += [f"    r = a[{n - 1}]", "    sink(r)", "    return a", ""]
    return "\n".join(lines) + PY_TAIL


@family("aliases_n")
def aliases_n(n, rng, variant):
    """n aliases of one object; a field written through the last alias is read through the first"""
    s = _salt(variant)
    lines = [f"class Obj{s}:", "    def __init__(self):", "        self.f = 0", "", "def entry(req):", f"    a0 = Obj{s}()"]
    lines += [f"    a{i} = a{i - 1}" for i in range(1, n + 1)]
    lines += [f"    a{n}.f = req", "    r = a0.f", "    sink(r)"]
    lines += [f"    a{i}.f = a{n - i}.f" for i in range(0, n + 1, 2)]
    lines += ["    return r", ""]
    return "\n".join(lines) + PY_TAIL


@family("binop_chain", big=(64,))
def binop_chain(n, rng, variant):
    """one expression that is a chain of 8n binary operations on constants (int or str in variant 1)"""
    m = 8 * n
    if variant % 2 == 0:
        expr = " + ".join(str(i + 1) for i in range(m + 1))
    else:
        expr = " + ".join(f"'s{i}'" for i in range(m + 1))
    return f"def entry(req):\n    x = {expr}\n    y = x + req\n    sink(y)\n    return x\n" + PY_TAIL


@family("long_flow", big=(64,), thorough=tuple(range(1, 17)) + (32,))
def long_flow(n, rng, variant):
    """a straight data-flow chain of 8n assignments from the source to the sink"""
    m = 8 * n
    lines = ["def entry(req):", "    v0 = req"]
    for i in range(1, m + 1):
        lines.append(f"    v{i} = v{i - 1}" if (i + variant) % 3 else f"    v{i} = v{i - 1} + {i}")
    lines += [f"    sink(v{m})", f"    return v{m}", ""]
    return "\n".join(lines) + PY_TAIL


@family("deep_expr", big=(64,), thorough=tuple(range(1, 17)) + (24,))
def deep_expr(n, rng, variant):
    """one expression nested 4n deep (parentheses around binary operations, call arguments, list literals)"""
    d = 4 * n
    if variant % 3 == 0:
        e = "req"
        for i in range(d):
            e = f"({e} + {i})"
    elif variant % 3 == 1:
        e = "req"
        for i in range(d // 2):            # every level is a call that is analysed: half the depth keeps it affordable
            e = f"idf({e})"
    else:
        e = "req"
        for i in range(d):
            e = f"[{e}, {i}]"
    return f"def idf(x):\n    return x\n\ndef entry(req):\n    x = {e}\n    sink(x)\n    return x\n" + PY_TAIL


# =========================================================================================================
# hostile constants.  n is the *scale* of the constant: the program text grows by one digit per step while the
# value of the constant grows by a factor of ten.
HOSTILE_QUICK = (2, 4, 5, 6)
HOSTILE_THOROUGH = (1, 2, 3, 4, 5, 6, 7)


def _hostile(expr):
    return f"def entry(req):\n    k = {expr}\n    y = [k, req]\n    sink(req)\n    return y\n" + PY_TAIL


@family("hostile_shift", quick=HOSTILE_QUICK, thorough=HOSTILE_THOROUGH, hostile=True)
def hostile_shift(n, rng, variant):
    """k = 1 << 10**n  (written with a literal exponent)"""
    return _hostile(f"1 << {10 ** n}")


@family("hostile_str_repeat", quick=HOSTILE_QUICK, thorough=HOSTILE_THOROUGH, hostile=True)
def hostile_str_repeat(n, rng, variant):
    """k = "ab" * 10**n"""
    return _hostile(f'"ab" * {10 ** n}')


@family("hostile_pow", quick=HOSTILE_QUICK, thorough=HOSTILE_THOROUGH, hostile=True)
def hostile_pow(n, rng, variant):
    """k = 7 ** 10**n"""
    return _hostile(f"7 ** {10 ** n}")


ORDERS_QUICK = (1, 3, 5, 7, 9)
ORDERS_THOROUGH = (1, 2, 3, 4, 5, 6, 7, 8, 9, 10, 12)


@family("hostile_orders", quick=ORDERS_QUICK, thorough=ORDERS_THOROUGH, hostile=True)
def hostile_orders(n, rng, variant):
    """BOTH operand orders of every operator whose size bound is asymmetric (N * "s" / "s" * N, N * [..] / [..] * N,
    b ** N / N ** b, 1 << N / N << 1, augmented forms, through literals and through single-valued variables) over the
    geometric ladder N = 10**n, plus a few small folds that must still be computed"""
    N = 10 ** n
    lines = ["def entry(req):", "    sink(req)", f"    n = {N}", '    s = "ab"',
             f'    k1 = {N} * "ab"', f'    k2 = "ab" * {N}', "    k3 = n * s", "    k4 = s * n",
             f"    k5 = {N} * [1, 2]", f"    k6 = [1, 2] * {N}",
             f"    k7 = 3 ** {N}", f"    k8 = {N} ** 3", "    k9 = 3 ** n", "    k10 = n ** 3",
             f"    k11 = 1 << {N}", f"    k12 = {N} << 1", "    k13 = 1 << n", "    k14 = n << 1",
             f"    k15 = {N} * {N}", f'    k16 = -{N} * "ab"', f'    k17 = "ab" * -{N}',
             '    t = "ab"', f"    t *= {N}", f"    u = {N}", '    u *= "ab"', "    v = 3", f"    v **= {N}",
             "    w = 1", f"    w <<= {N}",
             '    m1 = 3 * "ab"', '    m2 = "ab" * 3', "    m3 = 2 ** 5", "    m4 = 1 << 4", "    m5 = 6 * 7",
             "    y = [k1, k2, k3, k4, k5, k6, k7, k8, k9, k10, k11, k12, k13, k14, k15, k16, k17, t, u, v, w, m1, m2, m3, "
             "m4, m5, req]",
             "    return y", ""]
    return "\n".join(lines) + PY_TAIL


@family("js_hostile_orders", lang="javascript", quick=ORDERS_QUICK, thorough=ORDERS_THOROUGH, hostile=True)
def js_hostile_orders(n, rng, variant):
    """JavaScript: both operand orders of *, **, <<, + with numeric strings and numbers over the ladder N = 10**n
    (lian coerces loosely typed operands before folding)"""
    N = 10 ** n
    lines = ["function entry(req) {", "  sink(req);", f"  var n = {N};", '  var s = "5";',
             f'  var k1 = {N} * "5";', f'  var k2 = "5" * {N};', "  var k3 = n * s;", "  var k4 = s * n;",
             f"  var k5 = 3 ** {N};", f"  var k6 = {N} ** 3;", "  var k7 = 3 ** n;", "  var k8 = n ** 3;",
             f"  var k9 = 1 << {N};", f"  var k10 = {N} << 1;", "  var k11 = 1 << n;",
             f'  var k12 = "ab" + {N};', f'  var k13 = {N} + "ab";', f'  var k14 = "ab" * {N};', f'  var k15 = {N} * "ab";',
             "  var m1 = 2 ** 5;", "  var m2 = 6 * 7;", '  var m3 = "a" + "b";',
             "  var y = [k1, k2, k3, k4, k5, k6, k7, k8, k9, k10, k11, k12, k13, k14, k15, m1, m2, m3, req];",
             "  return y;", "}", "", "entry(1);", ""]
    return "\n".join(lines)


@family("hostile_pow_tower", quick=(1, 2), thorough=(1, 2, 3), hostile=True, growth=False)
def hostile_pow_tower(n, rng, variant):
    """k = 9 ** 9 ** ... (tower of height n + 1; height 3 is the classic 9**9**9)"""
    return _hostile(" ** ".join(["9"] * (n + 1)))


@family("hostile_literal", quick=(2, 5), thorough=(1, 2, 3, 4, 5, 6), hostile=True, growth=False)
def hostile_literal(n, rng, variant):
    """a single-line literal of 2 * 10**n characters (n = 5: 200 KB) that is concatenated with another one"""
    body = "ab" * (10 ** n)
    return f"def entry(req):\n    k = \"{body}\" + \"tail\"\n    y = k + req\n    sink(y)\n    return y\n" + PY_TAIL


@family("hostile_concat", big=(32,), hostile=True)
def hostile_concat(n, rng, variant):
    """a chain of 4n string concatenations, every operand 64 characters (the folded value grows linearly, the
    total text evaluated quadratically)"""
    m = 4 * n
    expr = " + ".join('"%s"' % (("%02d" % (i % 100)) * 32) for i in range(m + 1))
    return f"def entry(req):\n    k = {expr}\n    y = k + req\n    sink(y)\n    return y\n" + PY_TAIL


# =========================================================================================================
# hostile index constants: the index ladder N = 10**n is written into lists built in several ways
INDEX_QUICK = (1, 2, 3, 4, 5, 6)
INDEX_THOROUGH = (1, 2, 3, 4, 5, 6, 7)


@family("hostile_index", quick=INDEX_QUICK, thorough=INDEX_THOROUGH, hostile=True, mechanism="array_index")
def hostile_index(n, rng, variant):
    """element writes / reads at index N = 10**n on lists built by spread, concatenation, append, literal and
    comprehension; a dict key N and negative indexes as controls (one digit more text per step)"""
    N = 10 ** n
    lines = ["def entry(req):", "    sink(req)", "    a = [1, 2, req]",
             "    b = [*a, 3]", f"    b[{N}] = 5",
             "    c = a + [3]", f"    c[{N}] = req",
             "    e = []", "    e.append(req)", f"    e[{N}] = 5",
             "    f = [x for x in a]", f"    f[{N}] = 5",
             f"    a[{N}] = 6", f"    r1 = a[{N}]", f"    r2 = b[{N}]", f"    r3 = b[-{N}]",
             f"    i = {N}", "    g = [*a, 4]", "    g[i] = req", "    r4 = g[i]",
             "    d = {}", f"    d[{N}] = req", f"    r5 = d[{N}]",
             f"    h = [*a, 5]", f"    h[-{N}] = 1",
             "    return [b, c, e, f, g, h, r1, r2, r3, r4, r5]", ""]
    return "\n".join(lines) + PY_TAIL


@family("js_hostile_index", lang="javascript", quick=INDEX_QUICK, thorough=INDEX_THOROUGH, hostile=True,
        mechanism="array_index")
def js_hostile_index(n, rng, variant):
    """JavaScript: element writes / reads at index N = 10**n on arrays built by spread and literal, an object key as
    control"""
    N = 10 ** n
    lines = ["function entry(req) {", "  sink(req);", "  var a = [1, 2, req];", "  var b = [...a, 3];",
             f"  b[{N}] = 5;", "  var c = [1, 2, 3];", f"  c[{N}] = req;", f"  var r1 = b[{N}];", f"  var r2 = c[{N}];",
             f"  var i = {N};", "  var g = [...a, 4];", "  g[i] = req;", "  var r3 = g[i];",
             "  var d = {};", f"  d[{N}] = req;", "  return [b, c, g, r1, r2, r3, d];", "}", "", "entry(1);", ""]
    return "\n".join(lines)


@family("java_hostile_index", lang="java", quick=INDEX_QUICK, thorough=INDEX_THOROUGH, hostile=True,
        mechanism="array_index")
def java_hostile_index(n, rng, variant):
    """Java: element writes / reads at index N = 10**n on arrays from an initialiser and from new int[3]"""
    N = 10 ** n
    return ("public class Main {\n  static int entry(int req) {\n    sink(req);\n    int[] b = {1, 2, req};\n"
            f"    b[{N}] = 5;\n    int[] c = new int[3];\n    c[{N}] = req;\n    int r = b[{N}] + c[{N}];\n"
            "    return r;\n  }\n  public static void main(String[] args) {\n    entry(1);\n  }\n}\n")


# =========================================================================================================
# empty callees: functions / methods whose body is empty (pass, docstring only, {}) have an empty Phase I state space
@family("empty_callees")
def empty_callees(n, rng, variant):
    """n body-less helpers (pass-only, docstring-only, pass-only methods) called once, in loops, from several sites,
    through a chain, recursively and through a variable"""
    s = _salt(variant)
    defs = []
    for i in range(n):
        body = "    pass\n" if (i + variant) % 3 != 1 else '    """nothing to do"""\n'
        defs.append(f"def noop{i}{s}():\n{body}" if i % 2 == 0 else f"def noop{i}{s}(x, y=1):\n{body}")
    defs.append(f"class Stub{s}:\n    def m(self):\n        pass\n    def k(self, x):\n        \"\"\"doc\"\"\"\n"
                f"    def use(self, x):\n        self.m()\n        self.k(x)\n        return x\n")
    defs.append(f"def mid{s}(x):\n    noop0{s}()\n    return x\n")
    body = ["def entry(req):", "    sink(req)", f"    o = Stub{s}()", "    o.m()", "    r = o.use(req)"]
    for i in range(n):
        call = f"noop{i}{s}()" if i % 2 == 0 else f"noop{i}{s}(req, {i})"
        body.append(f"    {call}")
        if i % 3 == 0:
            body += ["    k = 0", "    while k < 3:", f"        {call}", "        k = k + 1"]
        if i % 3 == 1:
            body += [f"    u{i} = {call}", f"    {call}"]
        if i % 3 == 2:
            body += ["    for j in range(2):", f"        {call}", "        o.m()"]
    body += [f"    f = noop0{s}", "    f()", f"    r = mid{s}(r)", f"    r = mid{s}(r)", "    o.k(r)", "    return r", ""]
    defs.append("\n".join(body))
    return "\n".join(_shuffled_defs(defs, rng, variant)) + PY_TAIL


@family("js_empty_callees", lang="javascript")
def js_empty_callees(n, rng, variant):
    """JavaScript: n empty functions `function f() {}` and an empty method, called once, in a loop and from two sites"""
    s = _salt(variant)
    defs = [f"function noop{i}{s}({'x' if i % 2 else ''}) {{\n}}\n" for i in range(n)]
    defs.append(f"class Stub{s} {{\n  m() {{\n  }}\n  use(x) {{\n    this.m();\n    return x;\n  }}\n}}\n")
    body = ["function entry(req) {", "  sink(req);", f"  var o = new Stub{s}();", "  o.m();", "  var r = o.use(req);"]
    for i in range(n):
        call = f"noop{i}{s}({'req' if i % 2 else ''});"
        body.append(f"  {call}")
        if i % 2 == 0:
            body += ["  for (var k = 0; k < 3; k++) {", f"    {call}", "  }"]
        else:
            body += [f"  var u{i} = {call}"]
    body += ["  return r;", "}", ""]
    defs.append("\n".join(body))
    return "\n".join(_shuffled_defs(defs, rng, variant)) + "\nentry(1);\n"


@family("java_empty_callees", lang="java")
def java_empty_callees(n, rng, variant):
    """Java: n empty static methods `static void f() {}` and an empty instance method, called once, in a loop and twice"""
    ms = [f"  static void noop{i}({'int x' if i % 2 else ''}) {{\n  }}\n" for i in range(n)]
    ms.append("  void m() {\n  }\n")
    body = ["  static int entry(int req) {", "    sink(req);", "    Main o = new Main();", "    o.m();"]
    for i in range(n):
        call = f"noop{i}({'req' if i % 2 else ''});"
        body.append(f"    {call}")
        if i % 2 == 0:
            body += ["    for (int k = 0; k < 3; k++) {", f"      {call}", "    }"]
        else:
            body.append(f"    {call}")
    body += ["    return req;", "  }", ""]
    ms.append("\n".join(body))
    ms = _shuffled_defs(ms, rng, variant)
    return "public class Main {\n" + "\n".join(ms) + "\n  public static void main(String[] args) {\n    entry(1);\n  }\n}\n"


# =========================================================================================================
# other frontends
@family("js_chain_k2", lang="javascript")
def js_chain_k2(n, rng, variant):
    """JavaScript: call chain of length n with 2 call sites per function"""
    s = _salt(variant)
    defs = []
    for i in range(n):
        defs.append(f"function f{i}{s}(x) {{\n  var a = f{i + 1}{s}(x);\n  var b = f{i + 1}{s}(a);\n  return b;\n}}\n")
    defs.append(f"function f{n}{s}(x) {{\n  return x;\n}}\n")
    defs.append(f"function entry(req) {{\n  var r = f0{s}(req);\n  sink(r);\n  return r;\n}}\n")
    return "\n".join(_shuffled_defs(defs, rng, variant)) + "\nentry(1);\n"


@family("js_mutual_ring", lang="javascript")
def js_mutual_ring(n, rng, variant):
    """JavaScript: ring of n mutually recursive functions"""
    s = _salt(variant)
    defs = []
    for i in range(n):
        defs.append(f"function f{i}{s}(x, k) {{\n  if (k > 0) {{\n    return f{(i + 1) % n}{s}(x, k - 1);\n  }}\n  return x;\n}}\n")
    defs.append(f"function entry(req) {{\n  var r = f0{s}(req, {n + 2});\n  sink(r);\n  return r;\n}}\n")
    return "\n".join(_shuffled_defs(defs, rng, variant)) + "\nentry(1);\n"


@family("js_hostile_pow", lang="javascript", quick=HOSTILE_QUICK, thorough=HOSTILE_THOROUGH, hostile=True)
def js_hostile_pow(n, rng, variant):
    """JavaScript: var k = 7 ** 10**n (lian folds with Python semantics)"""
    return (f"function entry(req) {{\n  var k = 7 ** {10 ** n};\n  var y = [k, req];\n  sink(req);\n  return y;\n}}\n"
            "\nentry(1);\n")


@family("java_chain_k2", lang="java")
def java_chain_k2(n, rng, variant):
    """Java: static call chain of length n with 2 call sites per method"""
    ms = []
    for i in range(n):
        ms.append(f"  static int f{i}(int x) {{\n    int a = f{i + 1}(x);\n    int b = f{i + 1}(a);\n    return b;\n  }}\n")
    ms.append(f"  static int f{n}(int x) {{\n    return x;\n  }}\n")
    ms.append("  static int entry(int req) {\n    int r = f0(req);\n    sink(r);\n    return r;\n  }\n")
    ms = _shuffled_defs(ms, rng, variant)
    return "public class Main {\n" + "\n".join(ms) + "\n  public static void main(String[] args) {\n    entry(1);\n  }\n}\n"


@family("java_nested_loops", lang="java")
def java_nested_loops(n, rng, variant):
    """Java: for loops nested n deep"""
    lines = ["public class Main {", "  static int entry(int req) {", "    int acc = req;", "    int t = 0;"]
    ind = "    "
    for i in range(n):
        lines.append(f"{ind}for (int i{i} = 0; i{i} < 3; i{i}++) {{")
        ind += "  "
        lines.append(f"{ind}acc = acc + i{i};")
    lines.append(f"{ind}t = t + acc;")
    for i in range(n):
        ind = ind[:-2]
        lines.append(f"{ind}}}")
    lines += ["    sink(t);", "    return t;", "  }", "  public static void main(String[] args) {", "    entry(1);", "  }", "}", ""]
    return "\n".join(lines)


@family("java_hostile_shift", lang="java", quick=HOSTILE_QUICK, thorough=HOSTILE_THOROUGH, hostile=True)
def java_hostile_shift(n, rng, variant):
    """Java: long k = 1L << 10**n (in Java the shift count is taken mod 64; lian folds with Python semantics)"""
    return ("public class Main {\n  static int entry(int req) {\n" + f"    int k = 1 << {10 ** n};\n"
            "    int y = k + req;\n    sink(y);\n    return y;\n  }\n  public static void main(String[] args) {\n"
            "    entry(1);\n  }\n}\n")


def names():
    return list(FAMILIES)
