"""Hand-written valid programs per language for the C03 workload (inputs only; no expected output is attached).
Each program is meant to touch many constructs of its language's frontend: declarations, every kind of compound
statement, nested functions/classes, expressions that need temporaries, top-level code interleaved with
declarations (so that %unit_init gathering and its ordering are exercised)."""

PROGRAMS = {}

PROGRAMS["python"] = [
    ("hw_basic.py", '''import os
import os.path, sys
from collections import OrderedDict as OD, deque
from . import sibling

LIMIT = 10
total = 0

def add(a, b=2, *rest, key=None, **kw):
    """doc"""
    global total
    total += a + b
    for r in rest:
        total += r
    return total

print(add(1))
values = [add(i, i * 2) for i in range(LIMIT) if i % 2 == 0]
table = {k: v for k, v in zip("abc", values)}
pairs = {(x, y) for x in range(2) for y in range(2)}

class Shape(object):
    sides = 0
    names = []

    def __init__(self, w, h=1):
        self.w = w
        self.h = h
        self.tags = {"w": w, "h": h}

    @property
    def area(self):
        return self.w * self.h

    @staticmethod
    def unit():
        return Shape(1, 1)

    @classmethod
    def make(cls, n):
        return cls(n, n)

    def grow(self, k):
        while k > 0:
            self.w += 1
            k -= 1
            if self.w > 100:
                break
            elif self.w == 50:
                continue
        else:
            self.h += 1
        return self

s = Shape(2, 3)
print(s.area, Shape.unit().grow(3).w)

def outer(n):
    acc = []
    def inner(m):
        nonlocal acc
        acc.append(m * n)
        return lambda q: q + m + n
    for i in range(n):
        f = inner(i)
        acc.append(f(i))
    return acc

res = outer(3)
x, (y, z) = 1, (2, 3)
x, y = y, x
first, *others = res
a = b = c = 0
a += 1 if b else 2
flag = not a and (b or c) and a < b <= c != 4
text = "n=%d" % a + f"{a!r:>4}" + "s".join(["p", "q"])
sub = res[1:3], res[::2], res[-1]
del res[0]
assert x, "msg"
'''),
    ("hw_control.py", '''import sys

def classify(v):
    try:
        n = int(v)
    except (ValueError, TypeError) as e:
        print("bad", e)
        return None
    except Exception:
        raise
    else:
        n += 1
    finally:
        print("done")
    if n < 0:
        return "neg"
    elif n == 0:
        return "zero"
    else:
        pass
    match n:
        case 1:
            return "one"
        case 2 | 3:
            return "few"
        case [a, b]:
            return a
        case _:
            return "many"

with open("f") as fh, open("g") as gh:
    for line in fh:
        if not line:
            continue
        gh.write(line)

i = 0
while True:
    i += 1
    if i > 3:
        break

def gen(n):
    for k in range(n):
        yield k
    yield from gen(n - 1)

async def fetch(u):
    async with u as c:
        r = await c.get()
    async for part in r:
        print(part)
    return r

def deco(f):
    def w(*a, **k):
        return f(*a, **k)
    return w

@deco
def decorated(p: int = 3, *, q: str = "x") -> str:
    return q * p

class E(Exception):
    pass

class D(E, object):
    class Inner:
        v = 1
        def m(self):
            return self.v
    def __repr__(self):
        return "D"

try:
    raise D("x") from None
except D as d:
    print(d)

if __name__ == "__main__":
    print(classify(sys.argv[1]), decorated(), list(gen(2)))
    data = {"a": [1, 2, {"b": (3, 4)}]}
    data["a"][2]["b"][0]
    data["c"] = data.get("a")[0] + len(data)
    print(*[1, 2], **{"sep": ""})
    lam = lambda *a, **k: (a, k)
    w = (yield_ := 3) + 1
'''),
    ("hw_small.py", '''x = 1
def f():
    return x
y = f()
class C:
    pass
z = C()
print(x, y, z)
'''),
]

PROGRAMS["javascript"] = [
    ("hw_basic.js", '''import def, { a as b, c } from "./m.js";
import * as ns from "ns";
const fs = require("fs");
var total = 0;
let limit = 10, unset;
const obj = { k: 1, "s": [1, 2, 3], nested: { f() { return this.k; } }, [limit]: 2, ...ns };

function add(a, b = 2, ...rest) {
  total += a + b;
  for (const r of rest) { total += r; }
  return total;
}

console.log(add(1, 2, 3));

class Shape extends Base {
  static count = 0;
  #priv = 1;
  w = 2;
  constructor(w, h) {
    super(w);
    this.w = w;
    this.h = h;
    Shape.count++;
  }
  get area() { return this.w * this.h; }
  set area(v) { this.w = v; }
  static unit() { return new Shape(1, 1); }
  grow(k) {
    while (k > 0) {
      this.w += 1;
      k--;
      if (this.w > 100) break;
      else if (this.w === 50) continue;
    }
    do { k++; } while (k < 3);
    return this;
  }
}

const s = new Shape(2, 3);
for (let i = 0, j = 10; i < j; i++, j--) {
  if (i % 2) continue;
  total += i;
}
for (var key in obj) { console.log(key, obj[key]); }
label: for (const v of [1, 2]) { if (v) break label; }
switch (total) {
  case 0:
  case 1:
    total = 5;
    break;
  case 2: {
    total = 6;
  }
  default:
    total = 7;
}
try {
  JSON.parse("{");
} catch (e) {
  console.error(e);
} finally {
  total = 0;
}
const arrow = (x, y) => x + y;
const arrow2 = async x => { await x; return x ? 1 : 2; };
const fe = function named(q) { return q * 2; };
function* gen(n) { yield n; yield* gen(n - 1); }
var [p, q = 3, ...r] = [1, 2, 3, 4];
var { k, s: [s0], ...others } = obj;
total = typeof p === "number" && !(q instanceof Shape) || void 0;
total ??= obj?.nested?.f?.() ?? `t${total}x${p + q}`;
delete obj.k;
throw new Error("x");
export default add;
export { Shape, arrow as arr };
'''),
    ("hw_proto.js", '''function Animal(name) {
  this.name = name;
  var self = this;
  this.speak = function () { return self.name; };
}
Animal.prototype.walk = function (n) {
  var steps = [];
  for (var i = 0; i < n; i++) steps.push(i);
  return steps.map(function (s) { return s * 2; }).filter(s => s > 1);
};
var a = new Animal("x");
a.walk(3);
(function () { var hidden = 1; a.h = hidden; })();
var o = { get v() { return 1; }, set v(x) {}, m: function () {}, async am() {}, *g() {} };
if (a) a.x = 1; else a.y = 2;
var t = a ? a.x : (a.y, 3);
var re = /ab+c/gi, n = 0x1f + 1e3 + .5, big = 10n;
a.x += 1; a["y"] -= 2; n **= 2; n >>>= 1;
with (o) { v; }
debugger;
var cls = class { static m() {} };
new.target;
'''),
    ("hw_small.js", '''var x = 1;
function f() { return x; }
var y = f();
class C {}
var z = new C();
console.log(x, y, z);
'''),
]

PROGRAMS["typescript"] = [
    ("hw_basic.ts", '''import { A, B as C } from "./m";
import type { T } from "./t";
import * as ns from "ns";

type Id = string | number;
interface Point { x: number; y?: number; readonly z: number; move(dx: number): Point; }
enum Color { Red, Green = 2, Blue }
declare const ext: number;

let total: number = 0;
const names: string[] = ["a", "b"];
var tuple: [number, string] = [1, "x"];

function add(a: number, b: number = 2, ...rest: number[]): number {
  let acc = a + b;
  for (const r of rest) { acc += r; }
  return acc;
}

function ident<T>(v: T): T { return v; }

class Base<T> {
  protected items: T[] = [];
  constructor(public name: string, private n: number = 0) {}
  size(): number { return this.items.length; }
  static make(): void {}
}

class Box extends Base<number> implements Point {
  x = 0; z = 1;
  size(): number { return 3; }
  move(dx: number): Point { return this; }
  get first(): number { return 1; }
}

namespace NS { export const v = 1; export function f() { return v; } }

const arrow = (x: number, y?: number): number => x + (y ?? 0);
const casted = <number>(total as any) + (names.length!);
for (let i = 0; i < 3; i++) { if (i % 2) continue; total += i; }
for (const k in names) { console.log(k); }
while (total < 10) { total++; }
do { total--; } while (total > 5);
switch (total) { case 1: total = 2; break; default: total = 3; }
try { add(1); } catch (e: unknown) { console.log(e); } finally { total = 0; }
if (total > 1) { total = 1; } else if (total < 0) { total = 0; } else { total = 2; }
const o = { a: 1, b: [1, 2], c: { d: () => 1 } };
const { a, ...rest2 } = o;
let u: Id = ident<string>("s");
console.log(add(1, 2, 3), Color.Red, arrow(1), casted, u, a, rest2);
export { add, Box };
export default arrow;
'''),
    ("hw_small.ts", '''let x: number = 1;
function f(): number { return x; }
let y = f();
class C { v: number = 1; m(): number { return 2; } }
let z = new C();
console.log(x, y, z);
'''),
    ("hw_comp.tsx", '''import * as React from "react";
interface P { name: string }
function Hello(p: P) { return <div className="x">{p.name}<b>!</b></div>; }
const el = <Hello name="n" />;
export default Hello;
'''),
]

PROGRAMS["java"] = [
    ("HwBasic.java", '''package demo.pkg;

import java.util.List;
import java.util.*;
import static java.lang.Math.max;

public class HwBasic<T extends Comparable<T>> extends Base implements Runnable, java.io.Serializable {
    private static final int LIMIT = 10;
    protected int w, h = 1;
    private List<String> names = new ArrayList<>();
    static int counter;
    static { counter = 5; }
    { h = 2; }

    public HwBasic(int w, int h) {
        super(w);
        this.w = w;
        this.h = h;
    }

    public HwBasic() { this(1, 1); }

    public int area() { return w * h; }

    @Override
    public void run() {
        int k = 0;
        while (k < LIMIT) {
            k++;
            if (k == 3) continue;
            else if (k > 7) break;
        }
        do { k--; } while (k > 0);
        for (int i = 0, j = 5; i < j; i++, j--) { counter += i; }
        for (String n : names) { System.out.println(n); }
        outer:
        for (;;) { break outer; }
        switch (k) {
            case 0:
            case 1:
                k = 5;
                break;
            default:
                k = 7;
        }
        String s = switch (k) { case 5 -> "five"; default -> { yield "other"; } };
        try (java.io.Reader r = open(); java.io.Reader q = open()) {
            r.read();
        } catch (java.io.IOException | RuntimeException e) {
            throw new IllegalStateException(e);
        } finally {
            counter = 0;
        }
        synchronized (this) { counter++; }
        assert k > 0 : "msg";
        int[] arr = new int[3];
        int[][] grid = {{1, 2}, {3, 4}};
        arr[0] = grid[1][0] + (int) 2.5 + (k > 1 ? 1 : 2);
        Object o = names;
        if (o instanceof List<?> l && !l.isEmpty()) { counter = l.size(); }
        Runnable rr = () -> System.out.println("x");
        java.util.function.Function<Integer, Integer> f = x -> x + 1;
        java.util.function.Supplier<HwBasic> sup = HwBasic::new;
        Object anon = new Object() { int v = 1; public String toString() { return "a" + v; } };
        var local = new StringBuilder().append(1).append("s").toString();
    }

    static <U> U ident(U u) { return u; }

    interface Visitor { void visit(int n); default int d() { return 1; } }
    enum Color { RED(1), GREEN(2) { int v() { return 9; } }; final int c; Color(int c) { this.c = c; } int v() { return c; } }
    record Pair(int a, String b) { Pair { if (a < 0) throw new IllegalArgumentException(); } static int z = 0; }
    static class Nested { class Inner { int q; } }
    @interface Marker { int value() default 1; String[] tags() default {}; }

    public static void main(String[] args) throws Exception {
        HwBasic<String> b = new HwBasic<>(2, 3);
        b.run();
        System.out.println(b.area() + max(1, 2) + ident("s"));
    }
}
'''),
    ("HwSmall.java", '''public class HwSmall {
    int x = 1;
    int f() { return x; }
    public static void main(String[] a) { HwSmall s = new HwSmall(); System.out.println(s.f()); }
}
'''),
]

PROGRAMS["go"] = [
    ("hw_basic.go", '''package main

import (
	"fmt"
	str "strings"
	_ "embed"
)

import "os"

const Limit = 10

const (
	A = iota
	B
	C = "c"
)

var total int
var (
	x, y = 1, 2
	name string = "n"
)

type Shape struct {
	W, H int
	Tags map[string]int
	*Base
}

type Base struct{ ID int }

type Namer interface {
	Name() string
	fmt.Stringer
}

type Celsius float64
type Pair[T any] struct{ a, b T }

func (s *Shape) Area() int { return s.W * s.H }

func (s Shape) Name() string { return "shape" }

func add(a int, b int, rest ...int) (sum int, err error) {
	sum = a + b
	for _, r := range rest {
		sum += r
	}
	return sum, nil
}

func Map[T, U any](xs []T, f func(T) U) []U {
	out := make([]U, 0, len(xs))
	for _, v := range xs {
		out = append(out, f(v))
	}
	return out
}

func main() {
	s := &Shape{W: 2, H: 3, Tags: map[string]int{"a": 1}}
	arr := [3]int{1, 2, 3}
	sl := arr[1:2]
	var p *int = &arr[0]
	*p = 5
	for i := 0; i < Limit; i++ {
		if i%2 == 0 {
			continue
		} else if i > 7 {
			break
		}
		total += i
	}
	for total < 100 {
		total *= 2
	}
	for {
		break
	}
outer:
	for k, v := range s.Tags {
		fmt.Println(k, v)
		goto done
		break outer
	}
done:
	switch x {
	case 1, 2:
		y = 3
		fallthrough
	case 3:
		y = 4
	default:
		y = 5
	}
	switch v := interface{}(s).(type) {
	case Namer:
		fmt.Println(v.Name())
	case nil:
	}
	ch := make(chan int, 1)
	go func(n int) { ch <- n }(1)
	select {
	case v := <-ch:
		fmt.Println(v)
	default:
	}
	defer func() {
		if r := recover(); r != nil {
			os.Exit(1)
		}
	}()
	f := func(a, b int) int { return a + b }
	sum, err := add(1, 2, sl...)
	if err != nil {
		panic(err)
	}
	fmt.Println(str.ToUpper(name), f(1, 2), sum, s.Area(), Celsius(1.5), Map(sl, func(i int) string { return "x" }))
	x++
	y--
	x, y = y, x
	x <<= 1
	_ = Pair[int]{1, 2}
}
'''),
    ("hw_small.go", '''package main

import "fmt"

var x = 1

func f() int { return x }

func main() {
	y := f()
	fmt.Println(x, y)
}
'''),
]

PROGRAMS["c"] = [
    ("hw_basic.c", '''#include <stdio.h>
#include "local.h"
#define LIMIT 10
#define SQR(x) ((x) * (x))

typedef unsigned long ulong_t;
typedef struct point { int x, y; struct point *next; } point_t;
union u { int i; float f; char c[4]; };
enum color { RED, GREEN = 2, BLUE };
static int total = 0;
extern int ext;
int arr[3] = {1, 2, 3};
const char *msg = "hi";
int (*fp)(int, int);
struct bits { unsigned a : 1, b : 3; };

int add(int a, int b);
static inline int sq(int v) { return v * v; }

int add(int a, int b) {
    total += a + b;
    return total;
}

void walk(point_t *p, int n, ...) {
    int i, j = 0;
    for (i = 0; i < n; i++) {
        if (i % 2) continue;
        else if (i > 7) break;
        j += i;
    }
    while (p != NULL && p->next) { p = p->next; }
    do { j--; } while (j > 0);
    switch (n) {
        case 0:
        case 1:
            j = 5;
            break;
        case 2: { j = 6; }
        default:
            j = 7;
    }
    goto end;
end:
    p->x = j ? (int) sizeof(point_t) : SQR(2);
    (*p).y = *(&arr[0] + 1) + arr[2];
    return;
}

int main(int argc, char **argv) {
    point_t a = { .x = 1, .y = 2, .next = 0 }, b = {3, 4, &a};
    union u uu; uu.i = 1;
    enum color c = RED;
    ulong_t big = 10UL << 2;
    char buf[LIMIT] = "x", ch = 'c';
    float f = 1.5f; double d = -2e3;
    int *q = &a.x, **qq = &q;
    fp = add;
    walk(&b, argc, 1, 2);
    printf("%d %s %c %f\\n", fp(1, 2) + sq(3), msg, ch, f + d);
    total = (a.x > b.y) && !(c == BLUE) || (big & 1) ^ ~argc;
    total += **qq, total -= 1;
    return total % 2;
}
'''),
    ("hw_small.c", '''int x = 1;
int f(void) { return x; }
int main(void) { int y = f(); return x + y; }
'''),
    ("hw_header.h", '''#ifndef HW_H
#define HW_H
struct s { int a; };
int add(int a, int b);
extern int ext;
#endif
'''),
]

PROGRAMS["php"] = [
    ("hw_basic.php", '''<?php
namespace App\\Demo;

use Foo\\Bar as Baz;
use function Foo\\helper;
require_once "lib.php";
include "inc.php";

const LIMIT = 10;
define("OTHER", 5);
$total = 0;
$arr = [1, 2, "k" => [3, 4], 'n' => null];
$list = array(1, 2, 3);

function add(int $a, $b = 2, ...$rest): int {
    global $total;
    static $calls = 0;
    $calls++;
    $total += $a + $b;
    foreach ($rest as $r) { $total += $r; }
    return $total;
}

echo add(1), "\\n";
print("x");

interface Namer { public function name(): string; }
trait Loud { public function shout() { return strtoupper($this->name()); } }
abstract class Base { abstract protected function id(); public static $count = 0; const K = 1; }

final class Shape extends Base implements Namer {
    use Loud;
    public $w = 1;
    private ?int $h = null;
    protected static $made = [];
    public function __construct($w, $h = 1) {
        $this->w = $w;
        $this->h = $h;
        self::$count++;
        static::$made[] = $this;
        parent::K;
    }
    public function name(): string { return "shape"; }
    protected function id() { return 1; }
    public static function unit() { return new static(1, 1); }
    public function grow($k) {
        while ($k > 0) {
            $this->w += 1;
            $k--;
            if ($this->w > 100) { break; } elseif ($this->w == 50) { continue; } else { }
        }
        do { $k++; } while ($k < 3);
        return $this;
    }
}

$s = new Shape(2, 3);
for ($i = 0, $j = 10; $i < $j; $i++, $j--) { if ($i % 2) continue; $total += $i; }
foreach ($arr as $k => $v) { echo "$k => {$s->w} ${total}"; }
foreach ($list as &$ref) { $ref *= 2; }
switch ($total) { case 0: case 1: $total = 5; break; default: $total = 7; }
$m = match(true) { $total > 5 => "big", default => "small" };
try { throw new \\Exception("x"); } catch (\\InvalidArgumentException | \\TypeError $e) { echo $e; } catch (\\Exception $e) { } finally { $total = 0; }
$fn = function ($x) use ($total, &$arr) { return $x + $total; };
$arrow = fn($x) => $x * 2;
$t = $total ? 1 : ($total ?: 2) ?? 3;
$total .= "s"; $total ??= 4; $n = -$total ** 2 <=> 1;
list($a, $b) = [1, 2]; [$c, [$d]] = [1, [2]];
$s?->grow(1)->w; Shape::unit(); $s::$count; $cls = "Shape"; $o = new $cls(1); $$cls = 1;
if ($a): echo 1; elseif ($b): echo 2; else: echo 3; endif;
while ($a--): endwhile;
unset($arr["k"]); isset($a) && empty($b); exit(0);
?>
<p>html <?= $total ?></p>
'''),
    ("hw_small.php", '''<?php
$x = 1;
function f() { global $x; return $x; }
$y = f();
class C { public $v = 1; function m() { return $this->v; } }
$z = new C();
echo $x, $y, $z->m();
'''),
]

PROGRAMS["ruby"] = [
    ("hw_basic.rb", '''require "json"
require_relative "lib/util"

LIMIT = 10
$total = 0
total = 0

def add(a, b = 2, *rest, key: nil, **kw, &blk)
  sum = a + b
  rest.each { |r| sum += r }
  sum += yield(sum) if block_given?
  return sum
end

puts add(1) { |s| s * 2 }

module Loud
  def shout
    name.upcase
  end
end

class Shape < Base
  include Loud
  attr_accessor :w, :h
  SIDES = 4
  @@count = 0

  def initialize(w, h = 1)
    super(w)
    @w = w
    @h = h
    @@count += 1
  end

  def self.unit
    new(1, 1)
  end

  def area
    @w * @h
  end

  def grow(k)
    while k > 0
      @w += 1
      k -= 1
      break if @w > 100
      next if @w == 50
    end
    until k >= 3 do k += 1 end
    begin
      k += 1
    end while k < 5
    self
  end

  private

  def secret; 42; end
end

s = Shape.new(2, 3)
for i in 0..3 do
  next if i.odd?
  total += i
end
(1...4).each do |i|
  total -= i
end
arr = [1, 2, 3].map { |v| v * 2 }.select(&:even?)
h = { "a" => 1, b: 2, **{ c: 3 } }
a, (b, c), *d = 1, [2, 3], 4, 5
if total > 5 then total = 1 elsif total < 0 then total = 0 else total = 2 end
unless s then puts "no" else puts "yes" end
total = s ? 1 : 2
case total
when 0, 1 then total = 5
when 2..4
  total = 6
else
  total = 7
end
begin
  raise ArgumentError, "x"
rescue ArgumentError, TypeError => e
  puts e.message
  retry if false
rescue => e2
  puts e2
else
  puts "ok"
ensure
  total = 0
end
lam = ->(x, y = 1) { x + y }
pr = proc { |x| x }
str = "t=#{total} #{lam.call(1)}" + 'raw' + :sym.to_s + %w[a b].join + <<~EOS
  heredoc #{total}
EOS
total += 1; total ||= 2; total &&= 3
puts str =~ /t=(\\d+)/ ? $1 : nil
puts s&.area, Shape::SIDES, defined?(foo), __FILE__
alias_method :sq, :area rescue nil
'''),
    ("hw_small.rb", '''x = 1
def f(v)
  v + 1
end
y = f(x)
class C
  def m
    2
  end
end
z = C.new
puts x, y, z.m
'''),
]

PROGRAMS["smali"] = [
    ("HwBasic.smali", '''.class public LHwBasic;
.super Ljava/lang/Object;
.implements Ljava/lang/Runnable;
.source "HwBasic.java"

.field private static final LIMIT:I = 0xa
.field public name:Ljava/lang/String;
.field protected values:[I

.method public constructor <init>()V
    .registers 2
    invoke-direct {p0}, Ljava/lang/Object;-><init>()V
    const-string v0, "n"
    iput-object v0, p0, LHwBasic;->name:Ljava/lang/String;
    return-void
.end method

.method public static add(II)I
    .registers 3
    .param p0, "a"    # I
    .param p1, "b"    # I
    add-int v0, p0, p1
    return v0
.end method

.method public run()V
    .registers 6
    const/4 v0, 0x0
    const/16 v1, 0xa
    :loop
    if-ge v0, v1, :done
    add-int/lit8 v0, v0, 0x1
    rem-int/lit8 v2, v0, 0x2
    if-eqz v2, :loop
    sget-object v3, Ljava/lang/System;->out:Ljava/io/PrintStream;
    invoke-virtual {v3, v0}, Ljava/io/PrintStream;->println(I)V
    goto :loop
    :done
    new-array v4, v1, [I
    aput v0, v4, v0
    aget v2, v4, v0
    iput-object v4, p0, LHwBasic;->values:[I
    new-instance v3, Ljava/lang/StringBuilder;
    invoke-direct {v3}, Ljava/lang/StringBuilder;-><init>()V
    invoke-static {v0, v1}, LHwBasic;->add(II)I
    move-result v2
    :try_start
    div-int v2, v2, v0
    :try_end
    .catch Ljava/lang/ArithmeticException; {:try_start .. :try_end} :handler
    return-void
    :handler
    move-exception v3
    throw v3
.end method

.method public static pick(I)I
    .registers 2
    packed-switch p0, :pswitch_data
    const/4 v0, -0x1
    return v0
    :pswitch_0
    const/4 v0, 0x1
    return v0
    :pswitch_1
    const/4 v0, 0x2
    return v0
    :pswitch_data
    .packed-switch 0x0
        :pswitch_0
        :pswitch_1
    .end packed-switch
.end method
'''),
    ("HwSmall.smali", '''.class public LHwSmall;
.super Ljava/lang/Object;

.method public static main([Ljava/lang/String;)V
    .registers 2
    const/4 v0, 0x1
    sget-object v1, Ljava/lang/System;->out:Ljava/io/PrintStream;
    invoke-virtual {v1, v0}, Ljava/io/PrintStream;->println(I)V
    return-void
.end method
'''),
]

PROGRAMS["llvm"] = [
    ("hw_basic.ll", '''; ModuleID = 'hw'
source_filename = "hw.c"
target datalayout = "e-m:e-p270:32:32-p271:32:32-p272:64:64-i64:64-f80:128-n8:16:32:64-S128"
target triple = "x86_64-pc-linux-gnu"

%struct.point = type { i32, i32, %struct.point* }

@total = dso_local global i32 0, align 4
@msg = private unnamed_addr constant [3 x i8] c"hi\\00", align 1
@arr = dso_local global [3 x i32] [i32 1, i32 2, i32 3], align 4

declare i32 @printf(i8*, ...)
declare void @llvm.memcpy.p0i8.p0i8.i64(i8* nocapture, i8* nocapture, i64, i1)

define dso_local i32 @add(i32 %a, i32 %b) #0 {
entry:
  %a.addr = alloca i32, align 4
  %b.addr = alloca i32, align 4
  store i32 %a, i32* %a.addr, align 4
  store i32 %b, i32* %b.addr, align 4
  %0 = load i32, i32* %a.addr, align 4
  %1 = load i32, i32* %b.addr, align 4
  %add = add nsw i32 %0, %1
  %2 = load i32, i32* @total, align 4
  %add1 = add nsw i32 %2, %add
  store i32 %add1, i32* @total, align 4
  ret i32 %add1
}

define dso_local i32 @loop(i32 %n) {
entry:
  br label %cond

cond:
  %i = phi i32 [ 0, %entry ], [ %inc, %body ]
  %acc = phi i32 [ 0, %entry ], [ %sum, %body ]
  %cmp = icmp slt i32 %i, %n
  br i1 %cmp, label %body, label %end

body:
  %sum = add i32 %acc, %i
  %inc = add i32 %i, 1
  br label %cond

end:
  switch i32 %acc, label %def [
    i32 0, label %zero
    i32 1, label %one
  ]

zero:
  ret i32 0

one:
  ret i32 1

def:
  %sel = select i1 %cmp, i32 %acc, i32 7
  ret i32 %sel
}

define dso_local i32 @main(i32 %argc, i8** %argv) {
entry:
  %p = alloca %struct.point, align 8
  %x = getelementptr inbounds %struct.point, %struct.point* %p, i32 0, i32 0
  store i32 1, i32* %x, align 8
  %e = getelementptr inbounds [3 x i32], [3 x i32]* @arr, i64 0, i64 1
  %v = load i32, i32* %e, align 4
  %call = call i32 @add(i32 %v, i32 2)
  %call2 = call i32 @loop(i32 %call)
  %conv = sext i32 %call2 to i64
  %tr = trunc i64 %conv to i32
  %f = sitofp i32 %tr to double
  %g = fadd double %f, 1.500000e+00
  %h = fptosi double %g to i32
  %call3 = call i32 (i8*, ...) @printf(i8* getelementptr inbounds ([3 x i8], [3 x i8]* @msg, i64 0, i64 0))
  %r = xor i32 %h, %call3
  ret i32 %r
}

attributes #0 = { noinline nounwind optnone uwtable }
!llvm.module.flags = !{!0}
!0 = !{i32 1, !"wchar_size", i32 4}
'''),
    ("hw_small.ll", '''@x = global i32 1

define i32 @f() {
entry:
  %0 = load i32, i32* @x
  ret i32 %0
}

define i32 @main() {
entry:
  %y = call i32 @f()
  ret i32 %y
}
'''),
]


# ---------------------------------------------------------------------------------------------------
# Feature snippets: small files, one family of constructs each, for syntax the repository corpora lack
# (computed member names, accessors, generators, static blocks, decorators, nested / local / anonymous
# classes, labelled statements, pattern matching, ...).  Small on purpose: a frontend failure on one
# construct must not hide the others (lian skips the whole file then).

FEATURES = {}

FEATURES["javascript"] = [
    ("ft_computed_members.js", '''const KEY = "k";
class Bag {
  static #count = 0;
  #items = [];
  constructor() { this.#items = []; }
  add(x) { this.#items.push(x); return this; }
  *[Symbol.iterator]() { yield* this.#items; }
  async *[Symbol.asyncIterator]() { yield 1; }
  [KEY]() { return 1; }
  static ["make" + "Bag"]() { return new Bag(); }
  get [util.inspect.custom]() { return 1; }
  set [a.b](v) { this.v = v; }
  [f(1)]() { return 2; }
  [`t${KEY}`] = 3;
  static [KEY + "s"] = 4;
  get size() { return this.#items.length; }
}
const o = { [KEY + 1]: 2, [Symbol.iterator]: function* () {}, get [a.b]() { return 1; }, ["x" + "y"]() {} };
for (const v of new Bag().add(1)) console.log(v, o);
'''),
    ("ft_accessors_static.js", '''class Temp {
  static unit = "C";
  static #made = 0;
  #c = 0;
  static { Temp.#made = 1; Temp.table = new Map(); }
  static { if (Temp.unit) { Temp.ok = true; } }
  get c() { return this.#c; }
  set c(v) { if (v < -273) throw new RangeError("low"); this.#c = v; }
  get f() { return this.#c * 9 / 5 + 32; }
  static get made() { return Temp.#made; }
  static async load(u) { const r = await fetch(u); return r.json(); }
  static *range(n) { for (let i = 0; i < n; i++) yield i; }
  async *stream() { for await (const x of src()) yield x; }
  #secret() { return 1; }
  has(o) { return #c in o; }
}
const lit = {
  _v: 1,
  get v() { return this._v; },
  set v(x) { this._v = x; },
  *gen() { yield 1; },
  async am() { await 1; },
  async *ag() { yield 2; },
  "quoted key"() { return 3; },
  42() { return 4; },
};
lit.v = Temp.made + new Temp().f;
'''),
    ("ft_labels_switch.js", '''let n = 0;
outer: for (let i = 0; i < 3; i++) {
  inner: for (let j = 0; j < 3; j++) {
    if (j === 1) continue outer;
    if (i === 2) break outer;
    switch (j) {
      case 0: n++; continue inner;
      case 1: { n--; break; }
      default: break outer;
    }
  }
}
blk: { n++; if (n) break blk; n--; }
loop: while (true) { do { n++; if (n > 5) break loop; } while (n < 10); }
for (;;) { break; }
for (var k in { a: 1 }) if (k) continue; else break;
if (n) ; else n = 1;
'''),
    ("ft_nested_classes.js", '''class Outer {
  static Inner = class Inner2 extends Object { m() { return class Deep { d() { return 1; } }; } };
  make() {
    class Local extends Outer.Inner { m() { return super.m(); } }
    const Anon = class { static s() { return new.target; } };
    return [new Local(), new Anon(), function named() { return this; }, () => new Outer()];
  }
}
function wrap() {
  function inner() { return function () { return () => inner; }; }
  return inner()()();
}
(function iife(g) { "use strict"; g.x = 1; })(globalThis);
(() => { var hidden = 2; return hidden; })();
var mixin = (Base) => class extends Base { mixed() { return true; } };
class M extends mixin(Outer) {}
new M().mixed();
'''),
    ("ft_destructuring_ops.js", '''function f({ a, b: { c = 1, ...rest } = {}, ...others }, [x, , y = 2, ...zs] = [], ...args) {
  return a + c + x + y + zs.length + args.length + Object.keys(rest).length + Object.keys(others).length;
}
let p, q, r;
[p, q = 1] = [1];
({ p, q: r = 2 } = { p: 1 });
[p, q] = [q, p];
const t = tag`a${p}b${q}c`, re = /a[/]b/giu.test("x"), big = 12n ** 2n;
r = p?.a?.[q]?.(1) ?? (p ||= 1, q &&= 2, r ??= 3);
r = typeof p === "undefined" ? void 0 : "a" in o ? p instanceof Object : delete o.a;
r = (1, 2, p) + +"3" - -q + ~r + !r + (p >>> 1) + (p << 2) + (p ** q) % 3;
r = [...[1, 2], ...new Set([3])].map((v, i) => ({ v, i, [v]: i }));
r = `outer ${`inner ${p + `deep ${q}`}`}`;
function tag(s, ...v) { return s.raw.join("") + v.length; }
'''),
    ("ft_async_errors.js", '''async function run(urls) {
  try {
    for await (const u of urls) { await step(u); }
    const [a, b] = await Promise.all([step(1), step(2)]);
    return a + b;
  } catch {
    return -1;
  } finally {
    await cleanup();
  }
}
function step(u) {
  return new Promise((resolve, reject) => {
    try { if (!u) throw new TypeError("u"); resolve(u); }
    catch (e) { if (e instanceof TypeError) reject(e); else throw e; }
    finally { done(); }
  });
}
function* co() { const x = yield 1; try { yield x; } finally { yield 3; } return 4; }
run([]).then(v => v, e => { throw e; }).catch(console.error).finally(() => 0);
'''),
    ("ft_modules.js", '''import def, * as everything from "./a.js";
import { default as d2, b as bee, c } from "./b.js";
import "./side-effect.js";
export * from "./c.js";
export * as ns from "./d.js";
export { x as y, z } from "./e.js";
export const one = 1, two = 2;
export function fn() {}
export async function afn() { const m = await import("./lazy.js"); return m.default + import.meta.url; }
export class K {}
export default class extends K { m() { return def + bee + c + d2 + everything; } }
'''),
]

FEATURES["typescript"] = [
    ("ft_computed_members.ts", '''const KEY = "k";
class Bag<T> implements Iterable<T> {
  static #count = 0;
  #items: T[] = [];
  add(x: T): this { this.#items.push(x); return this; }
  *[Symbol.iterator](): Iterator<T> { yield* this.#items; }
  async *[Symbol.asyncIterator]() { yield 1; }
  [KEY](): number { return 1; }
  static ["make" + "Bag"]() { return new Bag<number>(); }
  get [util.inspect.custom]() { return 1; }
  set [a.b](v: number) { this.v = v; }
  [f(1)]() { return 2; }
  static [KEY + "s"] = 4;
  get size(): number { return this.#items.length; }
  v = 0;
}
const o = { [KEY + 1]: 2, [Symbol.iterator]: function* () {}, get [a.b]() { return 1; }, ["x" + "y"]() {} };
for (const v of new Bag<number>().add(1)) console.log(v, o);
'''),
    ("ft_decorators.ts", '''function log(t: any, k?: string, d?: PropertyDescriptor): any { return d; }
function tagged(name: string) { return (c: Function) => { (c as any).tag = name; }; }
@tagged("svc")
@log
class Service<T extends object = {}> {
  @log static instances = 0;
  @log protected readonly name: string;
  private cache?: Map<string, T>;
  declare ambient: number;
  constructor(name: string, public url: string, private readonly retries = 3, protected opt?: T) {
    this.name = name;
    Service.instances++;
  }
  fetch(id: string): Promise<T> { return Promise.reject(id); }
  protected get kind(): string { return "svc"; }
  @log get label(): string { return `${this.kind}:${this.name}`; }
  set label(v: string) { }
  @log method(@log p: number, q?: string, ...r: boolean[]): void { }
  static create<U extends Service<any>>(this: new (n: string, u: string) => U, n: string): U { return new this(n, ""); }
  overload(a: string): string;
  overload(a: number): number;
  overload(a: any): any { return a; }
}
class Impl extends Service<{ id: string }> {
  protected get kind() { return "impl"; }
  async fetch(id: string) { return { id }; }
  override toString(): string { return super.label; }
}
'''),
    ("ft_types_enums_ns.ts", '''const enum Dir { Up = 1, Down, Left = Down << 1, Right = "R".length }
enum Str { A = "a", B = "b" }
declare enum Amb { X }
type Fn<T> = (x: T) => T extends string ? "s" : never;
type Keys = keyof typeof Str;
type Mapped = { readonly [K in Keys]?: Str };
interface Dict<V> { [key: string]: V; (x: number): string; new (x: string): Dict<V>; readonly size: number; method?(): void; }
interface Dict<V> { extra: V }
namespace Outer.Inner { export namespace Deep { export const v = 1; export function f() { return v; } } export class C {} }
declare module "ext" { export function g(x: number): string; }
declare global { interface Window { mine: number } }
declare function ambient(x: number): void;
function isStr(x: unknown): x is string { return typeof x === "string"; }
function assertNum(x: unknown): asserts x is number { if (typeof x !== "number") throw new Error(); }
let tup: [a: number, b?: string, ...rest: boolean[]] = [1];
let u = <const>["a", "b"], w = { a: 1 } satisfies Record<string, number>, nn = tup[1]!.length;
let g = Outer.Inner.Deep.f() as unknown as string;
export type { Fn, Keys };
export = isStr;
'''),
    ("ft_abstract.ts", '''abstract class Shape<T = number> {
  protected abstract readonly sides: T;
  abstract area(): number;
  abstract get name(): string;
  describe(): string { return `${this.name}:${this.area()}`; }
  static unit(): Shape { return new Sq(1); }
}
class Sq extends Shape { sides = 4; constructor(private s: number) { super(); } area() { return this.s ** 2; } get name() { return "sq"; } }
export default abstract class Base { abstract run(): void; }
'''),
    ("ft_legacy_module.ts", '''module Legacy {
  export const made = create(1);
  console.log(made);
  export function create(n: number) { return n; }
}
declare module "ambient-only" { export function g(x: number): string; }
'''),
    ("ft_optional_catch.ts", '''let n = 0;
try { throw new Error("x"); } catch { n = 0; } finally { n = 1; }
try { n++; } catch (e: unknown) { if (e instanceof Error) n--; }
try { n++; } finally { n--; }
'''),
    ("ft_labels_switch.ts", '''let n: number = 0;
outer: for (let i = 0; i < 3; i++) {
  inner: for (const j of [0, 1, 2]) {
    if (j === 1) continue outer;
    if (i === 2) break outer;
    switch (j) {
      case 0: n++; continue inner;
      case 1: { n--; break; }
      default: break outer;
    }
  }
}
blk: { n++; if (n) break blk; n--; }
loop: while (true) { do { n++; if (n > 5) break loop; } while (n < 10); }
for (const k in { a: 1 }) { if (k) continue; else break; }
'''),
    ("ft_nested_classes.ts", '''class Outer {
  static Inner = class Inner2 { m() { return class Deep { d(): number { return 1; } }; } };
  make() {
    class Local extends Outer.Inner { m() { return super.m(); } }
    const Anon = class { static s() { return 1; } };
    return [new Local(), new Anon(), function named(this: any) { return this; }, () => new Outer()];
  }
}
function wrap() { function inner() { return function () { return () => inner; }; } return inner()()(); }
(function iife(g: any) { g.x = 1; })(globalThis);
const mixin = <B extends new (...a: any[]) => {}>(Base: B) => class extends Base { mixed() { return true; } };
class M extends mixin(Outer) {}
new M().mixed();
'''),
    ("ft_component.tsx", '''import * as React from "react";
type P = { items: string[]; onPick?: (s: string) => void };
export class List extends React.Component<P, { sel: number }> {
  state = { sel: 0 };
  render() {
    const { items, onPick } = this.props;
    return (
      <ul className="l" {...{ id: "x" }}>
        {items.map((it, i) => <li key={i} onClick={() => onPick?.(it)}>{i === this.state.sel ? <b>{it}</b> : it}</li>)}
        <></>
      </ul>
    );
  }
}
'''),
]

FEATURES["python"] = [
    ("ft_decorators_nested.py", '''import functools

def deco(arg=None, *, flag=False):
    def outer(fn):
        @functools.wraps(fn)
        def inner(*a, **k):
            return fn(*a, **k)
        return inner
    return outer

class Meta(type):
    def __new__(mcls, name, bases, ns, **kw):
        return super().__new__(mcls, name, bases, ns)

@deco("c")
class Outer(metaclass=Meta, flag=True):
    """doc"""
    limit: int = 3
    names = [n for n in ("a", "b")]
    if limit > 2:
        big = True
    else:
        big = False
    for _i in range(2):
        total = _i

    class Inner:
        class Deep(dict):
            depth = 2
            def m(self):
                return Outer.Inner.Deep.depth
        def make(self):
            class Local(Outer.Inner.Deep):
                pass
            return Local()

    @property
    def value(self):
        return self._v

    @value.setter
    def value(self, v):
        self._v = v

    @value.deleter
    def value(self):
        del self._v

    @staticmethod
    @deco(flag=True)
    def s(x, /, y, *, z=1):
        return x + y + z

    @classmethod
    def c(cls, *a: int, **k: str) -> "Outer":
        return cls()

    def __getitem__(self, i): return self.names[i]
    def __setitem__(self, i, v): self.names[i] = v
    async def am(self): return [x async for x in self.gen() if x]
    async def gen(self):
        yield 1

o = Outer()
o.value = o[0]; o[1] = Outer.s(1, 2, z=3)
'''),
    ("ft_match_walrus.py", '''from dataclasses import dataclass

@dataclass(frozen=True)
class Point:
    x: int
    y: int = 0

def where(p, data):
    match p:
        case Point(x=0, y=0):
            return "origin"
        case Point(x=0, y=yy) | Point(x=yy, y=0) if yy > 0:
            return f"axis {yy}"
        case [Point(x=a), *rest] if (n := len(rest)) > 1:
            return a + n
        case {"k": v, **others}:
            return v
        case str() | bytes() as s:
            return s
        case (1 | 2) as small, _:
            return small
        case _:
            pass
    while (chunk := data.read(4)):
        if any((hit := c) == 0 for c in chunk):
            return hit
    return [y for x in range(3) if (y := x * 2) > 1]

try:
    where(Point(1), None)
except* (ValueError, TypeError) as eg:
    print(eg.exceptions)
except* OSError:
    raise
'''),
    ("ft_scopes_lambdas.py", '''counter = 0
registry = {}

def make(n):
    total = 0
    def add(k=n, *more, sep=", ", **kw):
        nonlocal total
        global counter
        total += k + sum(more)
        counter += 1
        return (lambda a, b=total, *c, d=1, **e: a + b + d)(k)
    registry[n] = add
    return add, (lambda: total), [lambda i=i: i * n for i in range(3)]

gen = (x * y for x in range(3) for y in range(x) if y % 2 if x)
nested = {k: {v for v in range(k)} for k in range(3)}
matrix = [[r * c for c in range(3)] for r in range(3)]
a, *b, c = *range(3), *"xy"
first = matrix[0][1:][::-1][0] if matrix else None
chain = 0 < a <= c != 5 is not None not in ()
s = f"{a!r:>{c}} {nested[2]!s} {'q' if a else "dq"} {{literal}} {a + (lambda: 1)():03d}"
print(*b, sep="", **{"end": ""}); del a, registry[1] if 1 in registry else counter
assert chain, s
exec("x = 1"); eval("x")
if __name__ == "__main__":
    import sys as _sys, os.path as _p
    from . import sibling, other as o2
    from ..pkg.mod import (name1, name2 as n2,)
    _sys.exit(make(1)[0]())
'''),
    ("ft_docstring_only.py", '''"""Only a module docstring and comments.

Nothing executable apart from the string expression itself.
"""
# trailing comment
'''),
]

FEATURES["java"] = [
    ("FtNested.java", '''package ft;

import java.util.*;
import java.util.function.*;

public class FtNested {
    static int counter;
    static final List<String> NAMES = new ArrayList<>();
    static { counter = 1; NAMES.add("a"); for (int i = 0; i < 2; i++) { counter += i; } }
    int inst = 1;
    { inst = counter + 1; if (inst > 1) { inst--; } }
    static { try { counter = Integer.parseInt("2"); } catch (NumberFormatException e) { counter = 0; } }

    static class StaticNested { int v = counter; static class Deeper { int w = 2; } }
    class Inner { int q = inst; class InnerInner { int r = q + inst; } }
    interface Visitor<R> { R visit(FtNested n); default R twice(FtNested n) { visit(n); return visit(n); } static <R> Visitor<R> of(R r) { return n -> r; } private void hidden() {} }

    Object anon() {
        class Local implements Runnable { int k = inst; public void run() { k++; } }
        new Local().run();
        Inner in = this.new Inner();
        Inner.InnerInner ii = in.new InnerInner();
        return new Visitor<Integer>() {
            int seen = ii.r;
            { seen++; }
            @Override public Integer visit(FtNested n) { return seen + new Object() { int z = 3; }.z; }
        };
    }

    enum Op implements IntBinaryOperator {
        ADD("+") { public int applyAsInt(int a, int b) { return a + b; } },
        MUL("*") { public int applyAsInt(int a, int b) { return a * b; } };
        private final String sym;
        static final Map<String, Op> BY = new HashMap<>();
        static { for (Op o : values()) BY.put(o.sym, o); }
        Op(String s) { sym = s; }
    }
}
'''),
    ("FtControl.java", '''import java.util.*;

sealed interface Shape permits Circle, Square {}
record Circle(double r) implements Shape { Circle { if (r < 0) throw new IllegalArgumentException(); } static Circle unit() { return new Circle(1); } double area() { return Math.PI * r * r; } }
record Square(double s) implements Shape {}

public class FtControl {
    @SafeVarargs
    static <T extends Comparable<? super T>> T max(T first, T... rest) {
        T best = first;
        outer:
        for (T t : rest) {
            inner:
            for (int i = 0; ; i++) {
                if (i > 2) continue outer;
                if (t == null) break outer;
                if (t.compareTo(best) > 0) { best = t; break inner; }
            }
        }
        return best;
    }

    static String describe(Object o) {
        String s = switch (o) {
            case Circle c when c.r() > 1 -> "big circle";
            case Circle c -> "circle " + c.area();
            case Square(double side) -> "square " + side;
            case Integer i -> { int d = i * 2; yield "int " + d; }
            case null, default -> "other";
        };
        int k = 3;
        switch (k) { case 1: case 2: k++; default: k--; break; case 3: { k = 0; } }
        do { k++; } while (k < 2);
        int[][] grid = new int[2][3]; int[] flat = {1, 2, 3}; char ch = (char) ('a' + 1); long big = 1L << 40;
        grid[1][2] = flat[flat.length - 1] + (k > 0 ? k > 1 ? 2 : 1 : 0) + ch + (int) big;
        String text = """
            block "text"
            """ + s;
        var list = new ArrayList<Map.Entry<String, int[]>>();
        list.forEach(e -> System.out.println(e.getKey()));
        Runnable r = FtControl::new, q = () -> { synchronized (list) { list.clear(); } };
        if (o instanceof String str && !str.isEmpty()) return str; else if (!(o instanceof Shape)) return text;
        try (Scanner sc = new Scanner(System.in)) { return sc.next(); } catch (IllegalStateException | NoSuchElementException e) { throw new RuntimeException(e); } finally { r.run(); q.run(); }
    }
}
'''),
    ("FtAnnotations.java", '''import java.lang.annotation.*;

@Retention(RetentionPolicy.RUNTIME)
@Target({ElementType.TYPE, ElementType.METHOD})
@interface Route { String value() default "/"; String[] methods() default {"GET"}; int order() default 1 + 2; Class<?> type() default Object.class; }

@Route(value = "/x", methods = {"GET", "POST"})
abstract class FtAnnotations<T> implements Comparable<FtAnnotations<T>> {
    @Deprecated(since = "1") protected transient volatile int state;
    @SuppressWarnings({"unchecked", "rawtypes"}) abstract T get() throws Exception;
    native int fast(int x);
    strictfp double calc(final double @Route [] xs, int... more) { return xs[0] + more.length; }
    public int compareTo(FtAnnotations<T> o) { return Integer.compare(state, o.state); }
}
'''),
]

FEATURES["go"] = [
    ("ft_methods_generics.go", '''package ft

import (
	"errors"
	"fmt"
	"sort"
)

type Number interface{ ~int | ~float64 }
type Stack[T any] struct {
	items []T
	meta  struct{ name string; tags map[string][]int }
}
type Pair[K comparable, V any] struct { Key K; Val V }
type Handler func(int) (string, error)
type Alias = Stack[int]
type Animal interface { Name() string; Speak() (string, error) }
type Base struct{ ID int `json:"id,omitempty"` }
type Dog struct { Base; *Stack[string]; name string }

func (s *Stack[T]) Push(v T) *Stack[T] { s.items = append(s.items, v); return s }
func (s Stack[T]) Len() int            { return len(s.items) }
func (d Dog) Name() string             { return d.name }
func (d *Dog) Speak() (out string, err error) {
	defer func() {
		if r := recover(); r != nil { err = fmt.Errorf("recovered: %v", r) }
	}()
	if d == nil { panic("nil dog") }
	return "woof", nil
}
func Sum[T Number](xs ...T) (total T) { for _, x := range xs { total += x }; return }
func Map[T, U any](xs []T, f func(T) U) []U { out := make([]U, 0, len(xs)); for _, x := range xs { out = append(out, f(x)) }; return out }

var ErrNone = errors.New("none")
var handlers = map[string]Handler{"a": func(i int) (string, error) { return fmt.Sprint(i), nil }}

func init() { sort.Ints([]int{2, 1}); handlers["b"] = handlers["a"] }

func use() {
	d := &Dog{Base: Base{ID: 1}, name: "d"}
	var a Animal = d
	speak := d.Speak
	name := Dog.Name
	if s, ok := a.(fmt.Stringer); ok { _ = s } else if _, err := speak(); errors.Is(err, ErrNone) { return }
	anon := struct{ X, Y int }{1, 2}
	pt := &[]Pair[string, int]{{"a", 1}, {Key: "b"}}
	_, _, _ = name(*d), anon.X, (*pt)[0].Val
	_ = Sum(1, 2) + Sum[int]() + Map([]int{1}, func(i int) int { return i })[0]
}
'''),
    ("ft_control.go", '''package ft

import "time"

const (
	_  = iota
	KB = 1 << (10 * iota)
	MB
)

func control(ch chan int, done <-chan struct{}, out chan<- string) (n int) {
outer:
	for i := 0; i < 3; i++ {
	inner:
		for j := range [3]int{} {
			switch {
			case j == 1:
				continue outer
			case i == 2:
				break outer
			case j > 5:
				goto end
			default:
				continue inner
			}
		}
	}
	for n < 10 { n++ }
	for { break }
	for range ch { n++ }
	switch x := n % 3; x {
	case 0:
		fallthrough
	case 1, 2:
		n--
	}
	select {
	case v, ok := <-ch:
		if !ok { return }
		n += v
	case out <- "s":
	case <-done:
		return -1
	case <-time.After(time.Second):
	default:
	}
	var iface interface{} = n
	switch t := iface.(type) {
	case int, int64:
		_ = t
	case func() int:
		n = t()
	case nil:
	}
	go func() { defer close(out); ch <- 1 }()
	defer func(k int) { n += k }(n)
	arr := [...]int{2: 1, 4: 2}
	sl := arr[1:3:4]
	m := map[[2]int]*[]string{}
	p := &n
	*p += len(sl) + len(m) + cap(sl) + KB&^MB
	func() { n ^= 1 }()
end:
	return n
}
'''),
]

FEATURES["c"] = [
    ("ft_pointers_types.c", '''#include <stddef.h>
#define COUNT(a) (sizeof(a) / sizeof((a)[0]))
#define LOG(fmt, ...) printf(fmt, ##__VA_ARGS__)
#if defined(__GNUC__) && !defined(NDEBUG)
#  define LIKELY(x) __builtin_expect(!!(x), 1)
#else
#  define LIKELY(x) (x)
#endif

typedef int (*binop_t)(int, int);
typedef struct node { struct node *next, **prev; union { int i; float f; struct { short lo, hi; }; } u; unsigned flag : 1, kind : 3; char name[8]; } node_t;
typedef enum { LOW = -1, MID, HIGH = MID + 2 } level_t;
struct pt { int x, y; };
static const struct pt origin = { .x = 0, .y = 0 }, table[] = { [0] = {1, 2}, [2] = { .y = 3 } };
static int add(int a, int b) { return a + b; }
static binop_t ops[2] = { add, [1] = add };
int (*pick(int i))(int, int) { return ops[i & 1]; }
extern int printf(const char *, ...);
_Static_assert(sizeof(int) >= 2, "int");

int walk(node_t *restrict head, const char *const *argv, int argc) {
    register int n = 0;
    volatile long total = 0L;
    node_t local = { .next = head, .u.i = 3, .name = "ab" }, *p = &local;
    for (p = head; p && p->next; p = p->next) { total += p->u.i + (*p).flag; n++; }
    int (*arr)[3] = (int (*)[3]) 0, *q = (int[]){1, 2, 3}, m[2][3] = {{1}, {0, 2}};
    struct pt c = (struct pt){ .x = n, .y = q[1] };
    total += pick(n)(c.x, c.y) + (*ops[0])(1, 2) + m[1][1] + *(q + 2) + q[n % 3] + COUNT(table);
    total = LIKELY(total) ? (long) sizeof(node_t) + offsetof(node_t, u) : sizeof *p;
    char *s = "ab" "cd", ch = '\\n', w = s[1];
    LOG("%s %c %ld\\n", argv[argc - 1], ch + w, total);
    return (int) total, n;
}
'''),
    ("ft_control.c", '''int collatz(int n, int *steps) {
    int k = 0;
again:
    if (n <= 1) goto done;
    switch (n & 3) {
        case 0: n >>= 1; /* fall through */
        case 2: n >>= 1; break;
        case 1: case 3: { n = 3 * n + 1; break; }
        default: ;
    }
    k++;
    do { if (k > 1000) goto done; } while (0);
    for (int i = 0, j = 10; i < j; i++, j--) { if (i == 3) continue; else if (j == 4) break; }
    for (;;) { break; }
    while (k < 0) k++;
    goto again;
done:
    if (steps) *steps = k; else return -1;
    return n == 1 ? k > 10 ? 2 : 1 : 0;
}
#ifdef FEATURE
int feature(void) { return 1; }
#elif defined(OTHER)
int feature(void) { return 2; }
#else
int feature(void) { return 0; }
#endif
int old_style(a, b) int a; char b; { return a + b; }
'''),
    ("ft_prototypes.h", '''#ifndef FT_PROTOTYPES_H
#define FT_PROTOTYPES_H
#define FT_VERSION 3
#define FT_MAX(a, b) ((a) > (b) ? (a) : (b))
#ifdef __cplusplus
extern "C" {
#endif
int ft_open(const char *path, int flags);
void ft_close(int fd);
long ft_read(int fd, void *buf, unsigned long n);
#ifdef __cplusplus
}
#endif
#endif /* FT_PROTOTYPES_H */
'''),
]

FEATURES["php"] = [
    ("ft_oop.php", '''<?php
declare(strict_types=1);

namespace Ft\\Oop {

use Countable, ArrayAccess as AA;
use function strlen, array_map as amap;
use const PHP_EOL;

#[\\Attribute(\\Attribute::TARGET_CLASS)]
final class Route { public function __construct(public string $path = "/", public array $methods = ["GET"]) {} }

enum Suit: string implements \\JsonSerializable {
    case Hearts = "H"; case Spades = "S";
    const Wild = self::Spades;
    public function color(): string { return match($this) { self::Hearts => "red", self::Spades => "black" }; }
    public static function fromChar(string $c): self { return self::from($c); }
    public function jsonSerialize(): mixed { return $this->value; }
}

interface HasArea { const UNITS = "cm"; public function area(): float; }
trait Counts { private static int $n = 0; public static function made(): int { return self::$n; } protected function bump(): void { static::$n++; } abstract public function id(): int; }
trait Names { public function name(): string { return static::class; } }

#[Route("/shape", methods: ["GET", "POST"])]
abstract class Shape implements HasArea, Countable {
    use Counts, Names { Names::name as protected baseName; Counts::made insteadof Names; }
    public function __construct(protected readonly float $w = 1.0, private ?Shape $parent = null, int|string ...$tags) { $this->bump(); }
    abstract public function area(): float;
    public function count(): int { return 1; }
    public function id(): int { return spl_object_id($this); }
    public function __get($n) { return $this->$n ?? null; }
    public static function __callStatic($n, $a) { return new static(...$a); }
    public function __toString(): string { return $this->baseName() . PHP_EOL; }
}

$anon = new class(2.0) extends Shape { public function area(): float { return $this->w ** 2; } };
$f = strlen(...);
$g = $anon->area(...);
$h = static fn(int $x): int => $x + 1;
echo $anon?->parent?->area() ?? Suit::fromChar("H")->color(), amap($h, [1, 2])[0], $f("ab"), $g();
}

namespace Ft\\Other {
    function helper(): iterable { yield 1; yield "k" => 2; $x = yield; yield from [3, 4]; return $x; }
    foreach (helper() as $k => $v) { echo $k, $v; }
}
'''),
    ("ft_control.php", '''<?php
$n = 0; $data = ["a" => [1, 2], "b" => ["x" => ["y" => 3]]];
for ($i = 0; $i < 3; $i++) {
    foreach ($data as $k => [$first, $second]) {
        switch ($k) {
            case "a": $n += $first; continue 2;
            case "b": break 2;
            default: continue 3;
        }
    }
    while (true) { do { $n++; if ($n > 5) break 2; } while ($n < 10); }
}
["b" => ["x" => ["y" => $deep]]] = $data;
[, $two] = $data["a"]; [$n, $two] = [$two, $n];
foreach ($data as &$ref): $ref[] = 0; endforeach; unset($ref);
for ($i = 0; $i < 2; $i++): if ($i): continue; endif; endfor;
switch ($n): case 1: echo 1; break; default: echo 2; endswitch;
$s = <<<EOT
heredoc {$data["a"][0]} $n {$deep}
EOT;
$t = <<<'RAW'
nowdoc $n
RAW;
goto end; $n = -1;
end:
$v = "n"; $$v = 1; $obj = new stdClass; $obj->{"dyn" . $v} = 2; $m = "strlen"; $m($s); [$obj, "m"];
$r = $n <=> 1 ?: ($n ?? 0) . "s" . PHP_EOL; $n **= 2; $n ??= 1; $n .= (string)(int)"3" . @$undefined;
try { throw new DomainException("x", 1, null); } catch (DomainException | LengthException $e) { echo $e; } finally { echo `ls`; }
function &refgen(array &$a, callable|null $cb = null, int ...$rest): ?int { static $c = 0; global $n; $c++; return $a[0]; }
'''),
    ("ft_template.php", '''<!DOCTYPE html>
<html>
<head><title>static page</title></head>
<body>
<p>No PHP tag anywhere in this template.</p>
</body>
</html>
'''),
    ("ft_mixed_template.php", '''<html><body>
<?php if ($user): ?>
  <p>Hello <?= htmlspecialchars($user->name) ?></p>
  <?php foreach ($items as $i => $item): ?>
    <li class="<?= $i % 2 ? 'odd' : 'even' ?>"><?php echo $item; ?></li>
  <?php endforeach; ?>
<?php else: ?>
  <p>Nobody</p>
<?php endif ?>
</body></html>
'''),
]

FEATURES["ruby"] = [
    ("ft_classes.rb", '''# frozen_string_literal: true
module Ft
  VERSION = "1"
  module Util
    def self.helper(x) = x * 2
    def util_m; :u; end
  end

  class Base
    include Comparable
    extend Util
    attr_reader :id
    attr_writer :name
    @@count = 0
    @registry = {}
    LIMIT = 3

    class << self
      attr_accessor :registry
      def create(*args, **kw, &blk) = new(*args, **kw).tap { |o| blk&.call(o) }
      private def secret = 42
    end

    def initialize(id, name: "n", **rest)
      @id, @name = id, name
      @@count += 1
      self.class.registry[id] = self
    end

    def <=>(other) = id <=> other.id
    def +(other) = self.class.new(id + other.id)
    def [](k) = instance_variable_get("@#{k}")
    def []=(k, v)
      instance_variable_set("@#{k}", v)
    end
    def -@ = self.class.new(-id)
    def call(*) = id
    def to_s = "#<#{self.class.name} #{@id}>"
    def method_missing(name, *args, &blk)
      name.to_s.start_with?("get_") ? self[name.to_s.sub("get_", "")] : super
    end
    def respond_to_missing?(n, p = false) = n.to_s.start_with?("get_") || super

    protected
    def prot; end
    private
    def priv; end
    public
    alias_method :ident, :id
    alias old_to_s to_s
    undef_method :prot rescue nil
  end

  class Child < Base
    class Nested < StandardError; def message = "nested"; end
    Inner = Struct.new(:a, :b) do
      def sum = a + b
    end
    def initialize(id, extra = nil, *rest, key:, opt: 1, **kw, &blk)
      super(id, **kw)
      @extra = extra || yield(self) if block_given?
    end
  end
end
c = Ft::Child.create(1, key: 2) { |o| o.name = "x" }
puts c.get_id, (c + c).to_s, -c, c.(1), Ft::Base::LIMIT, Ft::Util.helper(2)
'''),
    ("ft_control.rb", '''n = 0
data = { a: [1, 2], "b" => { x: { y: 3 } } }
for i in 0...3 do
  [0, 1, 2].each_with_index do |j, idx|
    next if j == 1
    break if i == 2
    redo if false
    n += j + idx
  end
end
n += 1 while n < 5
n -= 1 until n < 3
begin n += 1 end while n < 4
loop do n += 1; break if n > 6 end
1.upto(3) { |k| n += k }
3.times.map { _1 * 2 }.each_slice(2).to_a
case data
in { a: [Integer => first, *rest], "b" => { x: { y: } } } if first > 0
  n += first + y + rest.size
in [] | nil
  n = 0
else
  n = -1
end
case n when 0..3 then n = 1 when Integer, Float then n = 2 else n = 3 end
result = if n > 1 then :big elsif n == 1 then :one else :small end
value = begin Integer("x") rescue 0 end
def risky(x)
  raise ArgumentError, "neg" if x < 0
  yield x
rescue ArgumentError, TypeError => e
  retry if (x += 1) < 0
  e.message
rescue StandardError
  raise
else
  :ok
ensure
  puts "done"
end
risky(1) { |v| v } => outcome
sq = ->(x, y = 1, *z, k: 2, &b) { x * y + k }
pr = proc { |a, (b, c), *d| [a, b, c, d] }
m = 5.method(:+).to_proc >> sq.curry[1]
a, (b, *c), d = 1, [2, 3, 4], 5
a, b = b, a
h = { a:, "s": 1, **data, sq => pr }
s = format("%05.1f|%-3s", 1.5, :x) + "a#{"b#{n}"}" + 'c' "d" + ?e + :"q s".to_s + %w[x y].join + %i[p q].inspect + <<~ONE + <<-'TWO'
  one #{n}
ONE
  two #{n}
  TWO
n = n.zero? ? 1 : n&.succ || 0; n ||= 1; n &&= n + 1
puts s =~ /(?<num>\\d+)/ ? $~[:num] : $1, __method__.inspect, defined?(zzz), __FILE__, __LINE__
BEGIN { $start = 1 }
END { puts $start }
__END__
data section
'''),
]

FEATURES["smali"] = [
    ("FtFields.smali", '''.class public final Lft/FtFields;
.super Ljava/lang/Object;
.source "FtFields.java"

# interfaces
.implements Ljava/lang/Runnable;
.implements Ljava/lang/Comparable;

# annotations
.annotation system Ldalvik/annotation/Signature;
    value = {
        "Ljava/lang/Object;",
        "Ljava/lang/Comparable<",
        "Lft/FtFields;",
        ">;"
    }
.end annotation

.annotation system Ldalvik/annotation/MemberClasses;
    value = {
        Lft/FtFields$Inner;
    }
.end annotation

# static fields
.field public static final TAG:Ljava/lang/String; = "ft"
.field private static final LIMIT:J = 0x7fffffffffffffffL
.field static final PI:F = 3.14f
.field static final FLAG:Z = true
.field static final CH:C = 'c'
.field private static volatile instance:Lft/FtFields;

# instance fields
.field private final values:[I
.field protected names:[[Ljava/lang/String;
.field public transient count:I

.field private listener:Ljava/lang/Runnable;
    .annotation runtime Ljavax/inject/Inject;
    .end annotation
    .annotation build Landroidx/annotation/Nullable;
        value = "x"
        sub = .subannotation Lft/Sub; name = "n" .end subannotation
    .end annotation
.end field

.method static constructor <clinit>()V
    .registers 1
    const/4 v0, 0x0
    sput-object v0, Lft/FtFields;->instance:Lft/FtFields;
    return-void
.end method

.method public constructor <init>([I)V
    .registers 3
    .param p1, "values"    # [I
    .prologue
    .line 10
    invoke-direct {p0}, Ljava/lang/Object;-><init>()V
    .line 11
    iput-object p1, p0, Lft/FtFields;->values:[I
    const/4 v0, 0x0
    iput v0, p0, Lft/FtFields;->count:I
    return-void
.end method

.method public abstract native fast(I)I
.end method

.method public bridge synthetic compareTo(Ljava/lang/Object;)I
    .registers 3
    check-cast p1, Lft/FtFields;
    invoke-virtual {p0, p1}, Lft/FtFields;->compareTo(Lft/FtFields;)I
    move-result v0
    return v0
.end method

.method public run()V
    .registers 1
    return-void
.end method
'''),
    ("FtCode.smali", '''.class public Lft/FtCode;
.super Ljava/lang/Object;

.method public static varargs work(I[Ljava/lang/Object;)J
    .locals 8
    .param p0, "n"    # I
    .annotation system Ldalvik/annotation/Throws;
        value = {
            Ljava/io/IOException;
        }
    .end annotation
    .prologue
    const-wide/16 v0, 0x0
    const-wide v2, 0x3ff8000000000000L    # 1.5
    const/high16 v4, 0x3f800000    # 1.0f
    const-class v5, Ljava/lang/String;
    const-string/jumbo v6, "big"
    new-array v7, p0, [I
    array-length v4, v7
    :try_start_0
    monitor-enter p1
    :try_start_1
    aget v5, v7, v4
    instance-of v6, v5, Ljava/lang/Number;
    if-eqz v6, :cond_0
    check-cast v5, Ljava/lang/Number;
    invoke-virtual {v5}, Ljava/lang/Number;->longValue()J
    move-result-wide v0
    :cond_0
    monitor-exit p1
    :try_end_1
    int-to-long v2, p0
    add-long/2addr v0, v2
    :goto_0
    invoke-static/range {v0 .. v1}, Ljava/lang/Long;->valueOf(J)Ljava/lang/Long;
    move-result-object v5
    invoke-interface {v5}, Ljava/lang/Comparable;->hashCode()I
    cmp-long v4, v0, v2
    if-lez v4, :cond_1
    neg-long v0, v0
    :cond_1
    return-wide v0
    :sswitch_0
    const-wide/16 v0, 0x1
    goto :goto_0
    :sswitch_1
    shl-long/2addr v0, p0
    goto :goto_0
    :try_end_0
    :catchall_0
    move-exception v4
    monitor-exit p1
    throw v4
    :catch_0
    move-exception v4
    const-wide/16 v0, -0x1
    return-wide v0
    :catch_1
    move-exception v4
    new-instance v5, Ljava/io/IOException;
    invoke-direct {v5, v4}, Ljava/io/IOException;-><init>(Ljava/lang/Throwable;)V
    throw v5
    nop
.end method
'''),
    ("FtArrayData.smali", '''.class public Lft/FtArrayData;
.super Ljava/lang/Object;

.method public static table()[I
    .registers 2
    const/4 v0, 0x3
    new-array v1, v0, [I
    fill-array-data v1, :array_0
    return-object v1
    :array_0
    .array-data 4
        0x1
        0x2
        -0x3
    .end array-data
.end method
'''),
    ("FtSwitch.smali", '''.class public Lft/FtSwitch;
.super Ljava/lang/Object;

.method public static pick(I)I
    .registers 2
    sparse-switch p0, :sswitch_data_0
    const/4 v0, -0x1
    :goto_0
    return v0
    :sswitch_0
    const/4 v0, 0x1
    goto :goto_0
    :sswitch_1
    const/16 v0, 0x64
    goto :goto_0
    :sswitch_data_0
    .sparse-switch
        0x1 -> :sswitch_0
        0x64 -> :sswitch_1
    .end sparse-switch
.end method
'''),
    ("FtObjects.smali", '''.class public Lft/FtObjects;
.super Ljava/lang/Object;

.method public static first([Ljava/lang/Object;I)Ljava/lang/Object;
    .registers 4
    :try_start_0
    aget-object v0, p0, p1
    aput-object v0, p0, p1
    :try_end_0
    .catchall {:try_start_0 .. :try_end_0} :handler
    .catch Ljava/lang/RuntimeException; {:try_start_0 .. :try_end_0} :handler
    return-object v0
    :handler
    move-exception v1
    const/4 v0, 0x0
    return-object v0
.end method
'''),
    ("FtEnum.smali", '''.class public final enum Lft/FtEnum;
.super Ljava/lang/Enum;

.field public static final enum A:Lft/FtEnum;
.field public static final enum B:Lft/FtEnum;
.field private static final synthetic $VALUES:[Lft/FtEnum;

.method static constructor <clinit>()V
    .registers 4
    new-instance v0, Lft/FtEnum;
    const-string v1, "A"
    const/4 v2, 0x0
    invoke-direct {v0, v1, v2}, Lft/FtEnum;-><init>(Ljava/lang/String;I)V
    sput-object v0, Lft/FtEnum;->A:Lft/FtEnum;
    const/4 v0, 0x2
    new-array v0, v0, [Lft/FtEnum;
    sget-object v1, Lft/FtEnum;->A:Lft/FtEnum;
    aput-object v1, v0, v2
    sput-object v0, Lft/FtEnum;->$VALUES:[Lft/FtEnum;
    return-void
.end method

.method private constructor <init>(Ljava/lang/String;I)V
    .registers 3
    invoke-direct {p0, p1, p2}, Ljava/lang/Enum;-><init>(Ljava/lang/String;I)V
    return-void
.end method
'''),
]

FEATURES["llvm"] = [
    ("ft_types_memory.ll", '''; ModuleID = 'ft'
source_filename = "ft.c"
target triple = "x86_64-pc-linux-gnu"

%struct.node = type { i32, %struct.node*, [4 x i8], { i16, i16 } }
%union.u = type { double }
%opaque = type opaque

@.str = private unnamed_addr constant [6 x i8] c"hi %d\\00", align 1
@counter = internal global i32 0, align 4
@table = dso_local constant [3 x i32] [i32 1, i32 2, i32 3], align 4
@head = common global %struct.node* null, align 8
@fp = global i32 (i32, i32)* @add, align 8
@pi = constant double 0x400921FB54442D18
@tiny = constant float 0x3FB99999A0000000
@alias_add = alias i32 (i32, i32), i32 (i32, i32)* @add
@llvm.global_ctors = appending global [1 x { i32, void ()*, i8* }] [{ i32, void ()*, i8* } { i32 65535, void ()* @ctor, i8* null }]

declare i32 @printf(i8* nocapture readonly, ...) #1
declare noalias i8* @malloc(i64) #1
declare void @llvm.memset.p0i8.i64(i8* nocapture writeonly, i8, i64, i1 immarg)
declare void @llvm.va_start(i8*)

define internal void @ctor() { ret void }

define dso_local i32 @add(i32 %a, i32 %b) local_unnamed_addr #0 {
  %r = add nsw i32 %a, %b
  ret i32 %r
}

define %struct.node* @make(i32 %v) {
entry:
  %raw = call noalias i8* @malloc(i64 24)
  %n = bitcast i8* %raw to %struct.node*
  %isnull = icmp eq %struct.node* %n, null
  br i1 %isnull, label %fail, label %ok
ok:
  call void @llvm.memset.p0i8.i64(i8* %raw, i8 0, i64 24, i1 false)
  %vp = getelementptr inbounds %struct.node, %struct.node* %n, i32 0, i32 0
  store volatile i32 %v, i32* %vp, align 8
  %np = getelementptr inbounds %struct.node, %struct.node* %n, i64 0, i32 1
  %old = load %struct.node*, %struct.node** @head, align 8
  store %struct.node* %old, %struct.node** %np
  store %struct.node* %n, %struct.node** @head
  %lo = getelementptr %struct.node, %struct.node* %n, i32 0, i32 3, i32 0
  store i16 7, i16* %lo
  %agg = insertvalue { i16, i16 } undef, i16 1, 0
  %agg2 = insertvalue { i16, i16 } %agg, i16 2, 1
  %hi = extractvalue { i16, i16 } %agg2, 1
  %addr = ptrtoint %struct.node* %n to i64
  %back = inttoptr i64 %addr to %struct.node*
  %cnt = atomicrmw add i32* @counter, i32 1 seq_cst
  %cx = cmpxchg i32* @counter, i32 %cnt, i32 0 acq_rel monotonic
  fence seq_cst
  ret %struct.node* %back
fail:
  unreachable
}

define i32 @indirect(i32 %x) {
  %f = load i32 (i32, i32)*, i32 (i32, i32)** @fp
  %r = tail call i32 %f(i32 %x, i32 1)
  %p = call i32 (i8*, ...) @printf(i8* getelementptr inbounds ([6 x i8], [6 x i8]* @.str, i64 0, i64 0), i32 %r)
  ret i32 %p
}

attributes #0 = { nounwind readnone }
attributes #1 = { nounwind }
!llvm.module.flags = !{!0}
!llvm.ident = !{!1}
!0 = !{i32 1, !"wchar_size", i32 4}
!1 = !{!"clang version 10.0.0"}
'''),
    ("ft_control_vectors.ll", '''@__gxx_personality_v0 = external global i8
declare void @may_throw(i32)
declare i8* @__cxa_begin_catch(i8*)
declare void @__cxa_end_catch()

define i32 @dispatch(i32 %k, <4 x float> %vec, double %d) personality i8* @__gxx_personality_v0 {
entry:
  %small = icmp ult i32 %k, 8
  %sel = select i1 %small, i32 %k, i32 7
  switch i32 %sel, label %default [
    i32 0, label %zero
    i32 1, label %one
    i32 2, label %one
  ]
zero:
  invoke void @may_throw(i32 %k) to label %cont unwind label %lpad
one:
  %e0 = extractelement <4 x float> %vec, i32 0
  %v1 = insertelement <4 x float> %vec, float 1.0, i32 1
  %sh = shufflevector <4 x float> %v1, <4 x float> undef, <4 x i32> <i32 3, i32 2, i32 1, i32 0>
  %sum = fadd fast <4 x float> %sh, %vec
  %e1 = extractelement <4 x float> %sum, i32 2
  %cmp = fcmp olt float %e0, %e1
  %ext = fpext float %e1 to double
  %mul = fmul double %ext, %d
  %neg = fneg double %mul
  %asint = fptoui double %neg to i32
  %z = zext i1 %cmp to i32
  %or = or i32 %asint, %z
  br label %cont
default:
  %rem = urem i32 %k, 3
  %sh2 = lshr i32 %rem, 1
  %ash = ashr i32 %k, 2
  %x = xor i32 %sh2, %ash
  br label %cont
cont:
  %r = phi i32 [ 0, %zero ], [ %or, %one ], [ %x, %default ]
  ret i32 %r
lpad:
  %lp = landingpad { i8*, i32 } catch i8* null
  %exn = extractvalue { i8*, i32 } %lp, 0
  %c = call i8* @__cxa_begin_catch(i8* %exn)
  call void @__cxa_end_catch()
  resume { i8*, i32 } %lp
}

define void @loops(i32* %a, i32 %n) {
entry:
  %buf = alloca [16 x i32], align 16
  %dyn = alloca i32, i32 %n
  br label %head
head:
  %i = phi i32 [ 0, %entry ], [ %next, %body ]
  %done = icmp sge i32 %i, %n
  br i1 %done, label %exit, label %body
body:
  %idx = sext i32 %i to i64
  %src = getelementptr inbounds i32, i32* %a, i64 %idx
  %val = load i32, i32* %src, align 4, !tbaa !0
  %dst = getelementptr inbounds [16 x i32], [16 x i32]* %buf, i64 0, i64 %idx
  store i32 %val, i32* %dst
  %next = add nuw nsw i32 %i, 1
  br label %head, !llvm.loop !1
exit:
  call void asm sideeffect "nop", "~{memory}"()
  ret void
}
!0 = !{!"int"}
!1 = distinct !{!1}
'''),
]

# ---------------------------------------------------------------------------------------------------
# "Empty-lowering" files: they parse fine but lower to ZERO GIR statements (comment / licence only, a header with
# only prototypes and macros, a template without code, a source cut inside its leading comment).  A few of them go
# into every project next to ordinary files: a file without statements must yield no GIR and must not disturb the
# rest of the project.

_LICENCE = ("Copyright (c) 2024 Example Authors\n"
            "Licensed under the Apache License, Version 2.0 (the \"License\");\n"
            "you may not use this file except in compliance with the License.")


def _line_comment(prefix, text=_LICENCE):
    return "".join(f"{prefix} {l}\n" for l in text.split("\n"))


def _block_comment(text=_LICENCE):
    return "/*\n" + "".join(f" * {l}\n" for l in text.split("\n")) + " */\n"


EMPTY_LOWERING = {
    "python": [("empty_licence.py", _line_comment("#")), ("empty_comment.py", "# only a comment\n"),
               ("empty_coding.py", "#!/usr/bin/env python3\n# -*- coding: utf-8 -*-\n\n# nothing else\n")],
    "javascript": [("empty_licence.js", _block_comment()), ("empty_comment.js", "// only a comment\n"),
                   ("empty_truncated.js", "/**\n * @file starts a header comment that is never clos")],
    "typescript": [("empty_licence.ts", _block_comment()), ("empty_comment.ts", "// only a comment\n"),
                   ("empty_triple.ts", "/// <reference types=\"node\" />\n// nothing else\n")],
    "java": [("EmptyLicence.java", _block_comment()), ("EmptyComment.java", "// only a comment\n"),
             ("package-info.java", "/** Package documentation only. */\n")],
    "go": [("empty_licence.go", _line_comment("//")), ("empty_comment.go", "/* only a comment */\n")],
    "c": [("empty_licence.c", _block_comment()), ("empty_comment.c", "// only a comment\n"),
          ("empty_protos.h", "#ifndef E_H\n#define E_H\n#define E_MAX 4\nint e_open(const char *p);\n"
                             "void e_close(int fd);\n#endif\n"),
          ("empty_truncated.c", "/* This file starts with a comment that is cut off before it en")],
    "php": [("empty_template.php", "<html>\n<body><p>static template, no php tag</p></body>\n</html>\n"),
            ("empty_comment.php", "<?php\n// only a comment\n/* and a block comment */\n"),
            ("empty_licence.php", "<?php\n" + _block_comment())],
    "ruby": [("empty_licence.rb", _line_comment("#")), ("empty_comment.rb", "# only a comment\n"),
             ("empty_block.rb", "=begin\nblock comment only\n=end\n")],
    "smali": [("EmptyComment.smali", "# only a comment\n"), ("EmptyLicence.smali", _line_comment("#"))],
    "llvm": [("empty_comment.ll", "; only a comment\n"), ("empty_licence.ll", _line_comment(";"))],
}
