"""Hand-written valid programs per language for the C03 workload (inputs only; no expected output is attached).
Each program is meant to touch many constructs of its language's frontend: declarations, every kind of compound
statement, nested functions/classes, expressions that need temporaries, top-level code interleaved with
declarations (so that %unit_init gathering and its ordering are exercised)."""

PROGRAMS = {}

PROGRAMS["python"] = [
    ("hw_basic.py", '''import os
import os.path, sys
from collections import OrderedDict as OD, deque
from . import sibling

LIMIT = 10
total = 0

def add(a, b=2, *rest, key=None, **kw):
    """doc"""
    global total
    total += a + b
    for r in rest:
        total += r
    return total

print(add(1))
values = [add(i, i * 2) for i in range(LIMIT) if i % 2 == 0]
table = {k: v for k, v in zip("abc", values)}
pairs = {(x, y) for x in range(2) for y in range(2)}

class Shape(object):
    sides = 0
    names = []

    def __init__(self, w, h=1):
        self.w = w
        self.h = h
        self.tags = {"w": w, "h": h}

    @property
    def area(self):
        return self.w * self.h

    @staticmethod
    def unit():
        return Shape(1, 1)

    @classmethod
    def make(cls, n):
        return cls(n, n)

    def grow(self, k):
        while k > 0:
            self.w += 1
            k -= 1
            if self.w > 100:
                break
            elif self.w == 50:
                continue
        else:
            self.h += 1
        return self

s = Shape(2, 3)
print(s.area, Shape.unit().grow(3).w)

def outer(n):
    acc = []
    def inner(m):
        nonlocal acc
        acc.append(m * n)
        return lambda q: q + m + n
    for i in range(n):
        f = inner(i)
        acc.append(f(i))
    return acc

res = outer(3)
x, (y, z) = 1, (2, 3)
x, y = y, x
first, *others = res
a = b = c = 0
a += 1 if b else 2
flag = not a and (b or c) and a < b <= c != 4
text = "n=%d" % a + f"{a!r:>4}" + "s".join(["p", "q"])
sub = res[1:3], res[::2], res[-1]
del res[0]
assert x, "msg"
'''),
    ("hw_control.py", '''import sys

def classify(v):
    try:
        n = int(v)
    except (ValueError, TypeError) as e:
        print("bad", e)
        return None
    except Exception:
        raise
    else:
        n += 1
    finally:
        print("done")
    if n < 0:
        return "neg"
    elif n == 0:
        return "zero"
    else:
        pass
    match n:
        case 1:
            return "one"
        case 2 | 3:
            return "few"
        case [a, b]:
            return a
        case _:
            return "many"

with open("f") as fh, open("g") as gh:
    for line in fh:
        if not line:
            continue
        gh.write(line)

i = 0
while True:
    i += 1
    if i > 3:
        break

def gen(n):
    for k in range(n):
        yield k
    yield from gen(n - 1)

async def fetch(u):
    async with u as c:
        r = await c.get()
    async for part in r:
        print(part)
    return r

def deco(f):
    def w(*a, **k):
        return f(*a, **k)
    return w

@deco
def decorated(p: int = 3, *, q: str = "x") -> str:
    return q * p

class E(Exception):
    pass

class D(E, object):
    class Inner:
        v = 1
        def m(self):
            return self.v
    def __repr__(self):
        return "D"

try:
    raise D("x") from None
except D as d:
    print(d)

if __name__ == "__main__":
    print(classify(sys.argv[1]), decorated(), list(gen(2)))
    data = {"a": [1, 2, {"b": (3, 4)}]}
    data["a"][2]["b"][0]
    data["c"] = data.get("a")[0] + len(data)
    print(*[1, 2], **{"sep": ""})
    lam = lambda *a, **k: (a, k)
    w = (yield_ := 3) + 1
'''),
    ("hw_small.py", '''x = 1
def f():
    return x
y = f()
class C:
    pass
z = C()
print(x, y, z)
'''),
]

PROGRAMS["javascript"] = [
    ("hw_basic.js", '''import def, { a as b, c } from "./m.js";
import * as ns from "ns";
const fs = require("fs");
var total = 0;
let limit = 10, unset;
const obj = { k: 1, "s": [1, 2, 3], nested: { f() { return this.k; } }, [limit]: 2, ...ns };

function add(a, b = 2, ...rest) {
  total += a + b;
  for (const r of rest) { total += r; }
  return total;
}

console.log(add(1, 2, 3));

class Shape extends Base {
  static count = 0;
  #priv = 1;
  w = 2;
  constructor(w, h) {
    super(w);
    this.w = w;
    this.h = h;
    Shape.count++;
  }
  get area() { return this.w * this.h; }
  set area(v) { this.w = v; }
  static unit() { return new Shape(1, 1); }
  grow(k) {
    while (k > 0) {
      this.w += 1;
      k--;
      if (this.w > 100) break;
      else if (this.w === 50) continue;
    }
    do { k++; } while (k < 3);
    return this;
  }
}

const s = new Shape(2, 3);
for (let i = 0, j = 10; i < j; i++, j--) {
  if (i % 2) continue;
  total += i;
}
for (var key in obj) { console.log(key, obj[key]); }
label: for (const v of [1, 2]) { if (v) break label; }
switch (total) {
  case 0:
  case 1:
    total = 5;
    break;
  case 2: {
    total = 6;
  }
  default:
    total = 7;
}
try {
  JSON.parse("{");
} catch (e) {
  console.error(e);
} finally {
  total = 0;
}
const arrow = (x, y) => x + y;
const arrow2 = async x => { await x; return x ? 1 : 2; };
const fe = function named(q) { return q * 2; };
function* gen(n) { yield n; yield* gen(n - 1); }
var [p, q = 3, ...r] = [1, 2, 3, 4];
var { k, s: [s0], ...others } = obj;
total = typeof p === "number" && !(q instanceof Shape) || void 0;
total ??= obj?.nested?.f?.() ?? `t${total}x${p + q}`;
delete obj.k;
throw new Error("x");
export default add;
export { Shape, arrow as arr };
'''),
    ("hw_proto.js", '''function Animal(name) {
  this.name = name;
  var self = this;
  this.speak = function () { return self.name; };
}
Animal.prototype.walk = function (n) {
  var steps = [];
  for (var i = 0; i < n; i++) steps.push(i);
  return steps.map(function (s) { return s * 2; }).filter(s => s > 1);
};
var a = new Animal("x");
a.walk(3);
(function () { var hidden = 1; a.h = hidden; })();
var o = { get v() { return 1; }, set v(x) {}, m: function () {}, async am() {}, *g() {} };
if (a) a.x = 1; else a.y = 2;
var t = a ? a.x : (a.y, 3);
var re = /ab+c/gi, n = 0x1f + 1e3 + .5, big = 10n;
a.x += 1; a["y"] -= 2; n **= 2; n >>>= 1;
with (o) { v; }
debugger;
var cls = class { static m() {} };
new.target;
'''),
    ("hw_small.js", '''var x = 1;
function f() { return x; }
var y = f();
class C {}
var z = new C();
console.log(x, y, z);
'''),
]

PROGRAMS["typescript"] = [
    ("hw_basic.ts", '''import { A, B as C } from "./m";
import type { T } from "./t";
import * as ns from "ns";

type Id = string | number;
interface Point { x: number; y?: number; readonly z: number; move(dx: number): Point; }
enum Color { Red, Green = 2, Blue }
declare const ext: number;

let total: number = 0;
const names: string[] = ["a", "b"];
var tuple: [number, string] = [1, "x"];

function add(a: number, b: number = 2, ...rest: number[]): number {
  let acc = a + b;
  for (const r of rest) { acc += r; }
  return acc;
}

function ident<T>(v: T): T { return v; }

abstract class Base<T> {
  protected items: T[] = [];
  constructor(public name: string, private n: number = 0) {}
  abstract size(): number;
  static make(): void {}
}

class Box extends Base<number> implements Point {
  x = 0; z = 1;
  size(): number { return 3; }
  move(dx: number): Point { return this; }
  get first(): number { return 1; }
}

namespace NS { export const v = 1; export function f() { return v; } }

const arrow = (x: number, y?: number): number => x + (y ?? 0);
const casted = <number>(total as any) + (names.length!);
for (let i = 0; i < 3; i++) { if (i % 2) continue; total += i; }
for (const k in names) { console.log(k); }
while (total < 10) { total++; }
do { total--; } while (total > 5);
switch (total) { case 1: total = 2; break; default: total = 3; }
try { add(1); } catch (e: unknown) { console.log(e); } finally { total = 0; }
if (total > 1) { total = 1; } else if (total < 0) { total = 0; } else { total = 2; }
const o = { a: 1, b: [1, 2], c: { d: () => 1 } };
const { a, ...rest2 } = o;
let u: Id = ident<string>("s");
console.log(add(1, 2, 3), Color.Red, arrow(1), casted, u, a, rest2);
export { add, Box };
export default arrow;
'''),
    ("hw_small.ts", '''let x: number = 1;
function f(): number { return x; }
let y = f();
class C { v: number = 1; m(): number { return 2; } }
let z = new C();
console.log(x, y, z);
'''),
    ("hw_comp.tsx", '''import * as React from "react";
interface P { name: string }
function Hello(p: P) { return <div className="x">{p.name}<b>!</b></div>; }
const el = <Hello name="n" />;
export default Hello;
'''),
]

PROGRAMS["java"] = [
    ("HwBasic.java", '''package demo.pkg;

import java.util.List;
import java.util.*;
import static java.lang.Math.max;

public class HwBasic<T extends Comparable<T>> extends Base implements Runnable, java.io.Serializable {
    private static final int LIMIT = 10;
    protected int w, h = 1;
    private List<String> names = new ArrayList<>();
    static int counter;
    static { counter = 5; }
    { h = 2; }

    public HwBasic(int w, int h) {
        super(w);
        this.w = w;
        this.h = h;
    }

    public HwBasic() { this(1, 1); }

    public int area() { return w * h; }

    @Override
    public void run() {
        int k = 0;
        while (k < LIMIT) {
            k++;
            if (k == 3) continue;
            else if (k > 7) break;
        }
        do { k--; } while (k > 0);
        for (int i = 0, j = 5; i < j; i++, j--) { counter += i; }
        for (String n : names) { System.out.println(n); }
        outer:
        for (;;) { break outer; }
        switch (k) {
            case 0:
            case 1:
                k = 5;
                break;
            default:
                k = 7;
        }
        String s = switch (k) { case 5 -> "five"; default -> { yield "other"; } };
        try (java.io.Reader r = open(); java.io.Reader q = open()) {
            r.read();
        } catch (java.io.IOException | RuntimeException e) {
            throw new IllegalStateException(e);
        } finally {
            counter = 0;
        }
        synchronized (this) { counter++; }
        assert k > 0 : "msg";
        int[] arr = new int[3];
        int[][] grid = {{1, 2}, {3, 4}};
        arr[0] = grid[1][0] + (int) 2.5 + (k > 1 ? 1 : 2);
        Object o = names;
        if (o instanceof List<?> l && !l.isEmpty()) { counter = l.size(); }
        Runnable rr = () -> System.out.println("x");
        java.util.function.Function<Integer, Integer> f = x -> x + 1;
        java.util.function.Supplier<HwBasic> sup = HwBasic::new;
        Object anon = new Object() { int v = 1; public String toString() { return "a" + v; } };
        var local = new StringBuilder().append(1).append("s").toString();
    }

    static <U> U ident(U u) { return u; }

    interface Visitor { void visit(int n); default int d() { return 1; } }
    enum Color { RED(1), GREEN(2) { int v() { return 9; } }; final int c; Color(int c) { this.c = c; } int v() { return c; } }
    record Pair(int a, String b) { Pair { if (a < 0) throw new IllegalArgumentException(); } static int z = 0; }
    static class Nested { class Inner { int q; } }
    @interface Marker { int value() default 1; String[] tags() default {}; }

    public static void main(String[] args) throws Exception {
        HwBasic<String> b = new HwBasic<>(2, 3);
        b.run();
        System.out.println(b.area() + max(1, 2) + ident("s"));
    }
}
'''),
    ("HwSmall.java", '''public class HwSmall {
    int x = 1;
    int f() { return x; }
    public static void main(String[] a) { HwSmall s = new HwSmall(); System.out.println(s.f()); }
}
'''),
]

PROGRAMS["go"] = [
    ("hw_basic.go", '''package main

import (
	"fmt"
	str "strings"
	_ "embed"
)

import "os"

const Limit = 10

const (
	A = iota
	B
	C = "c"
)

var total int
var (
	x, y = 1, 2
	name string = "n"
)

type Shape struct {
	W, H int
	Tags map[string]int
	*Base
}

type Base struct{ ID int }

type Namer interface {
	Name() string
	fmt.Stringer
}

type Celsius float64
type Pair[T any] struct{ a, b T }

func (s *Shape) Area() int { return s.W * s.H }

func (s Shape) Name() string { return "shape" }

func add(a int, b int, rest ...int) (sum int, err error) {
	sum = a + b
	for _, r := range rest {
		sum += r
	}
	return sum, nil
}

func Map[T, U any](xs []T, f func(T) U) []U {
	out := make([]U, 0, len(xs))
	for _, v := range xs {
		out = append(out, f(v))
	}
	return out
}

func main() {
	s := &Shape{W: 2, H: 3, Tags: map[string]int{"a": 1}}
	arr := [3]int{1, 2, 3}
	sl := arr[1:2]
	var p *int = &arr[0]
	*p = 5
	for i := 0; i < Limit; i++ {
		if i%2 == 0 {
			continue
		} else if i > 7 {
			break
		}
		total += i
	}
	for total < 100 {
		total *= 2
	}
	for {
		break
	}
outer:
	for k, v := range s.Tags {
		fmt.Println(k, v)
		goto done
		break outer
	}
done:
	switch x {
	case 1, 2:
		y = 3
		fallthrough
	case 3:
		y = 4
	default:
		y = 5
	}
	switch v := interface{}(s).(type) {
	case Namer:
		fmt.Println(v.Name())
	case nil:
	}
	ch := make(chan int, 1)
	go func(n int) { ch <- n }(1)
	select {
	case v := <-ch:
		fmt.Println(v)
	default:
	}
	defer func() {
		if r := recover(); r != nil {
			os.Exit(1)
		}
	}()
	f := func(a, b int) int { return a + b }
	sum, err := add(1, 2, sl...)
	if err != nil {
		panic(err)
	}
	fmt.Println(str.ToUpper(name), f(1, 2), sum, s.Area(), Celsius(1.5), Map(sl, func(i int) string { return "x" }))
	x++
	y--
	x, y = y, x
	x <<= 1
	_ = Pair[int]{1, 2}
}
'''),
    ("hw_small.go", '''package main

import "fmt"

var x = 1

func f() int { return x }

func main() {
	y := f()
	fmt.Println(x, y)
}
'''),
]

PROGRAMS["c"] = [
    ("hw_basic.c", '''#include <stdio.h>
#include "local.h"
#define LIMIT 10
#define SQR(x) ((x) * (x))

typedef unsigned long ulong_t;
typedef struct point { int x, y; struct point *next; } point_t;
union u { int i; float f; char c[4]; };
enum color { RED, GREEN = 2, BLUE };
static int total = 0;
extern int ext;
int arr[3] = {1, 2, 3};
const char *msg = "hi";
int (*fp)(int, int);
struct bits { unsigned a : 1, b : 3; };

int add(int a, int b);
static inline int sq(int v) { return v * v; }

int add(int a, int b) {
    total += a + b;
    return total;
}

void walk(point_t *p, int n, ...) {
    int i, j = 0;
    for (i = 0; i < n; i++) {
        if (i % 2) continue;
        else if (i > 7) break;
        j += i;
    }
    while (p != NULL && p->next) { p = p->next; }
    do { j--; } while (j > 0);
    switch (n) {
        case 0:
        case 1:
            j = 5;
            break;
        case 2: { j = 6; }
        default:
            j = 7;
    }
    goto end;
end:
    p->x = j ? (int) sizeof(point_t) : SQR(2);
    (*p).y = *(&arr[0] + 1) + arr[2];
    return;
}

int main(int argc, char **argv) {
    point_t a = { .x = 1, .y = 2, .next = 0 }, b = {3, 4, &a};
    union u uu; uu.i = 1;
    enum color c = RED;
    ulong_t big = 10UL << 2;
    char buf[LIMIT] = "x", ch = 'c';
    float f = 1.5f; double d = -2e3;
    int *q = &a.x, **qq = &q;
    fp = add;
    walk(&b, argc, 1, 2);
    printf("%d %s %c %f\\n", fp(1, 2) + sq(3), msg, ch, f + d);
    total = (a.x > b.y) && !(c == BLUE) || (big & 1) ^ ~argc;
    total += **qq, total -= 1;
    return total % 2;
}
'''),
    ("hw_small.c", '''int x = 1;
int f(void) { return x; }
int main(void) { int y = f(); return x + y; }
'''),
    ("hw_header.h", '''#ifndef HW_H
#define HW_H
struct s { int a; };
int add(int a, int b);
extern int ext;
#endif
'''),
]

PROGRAMS["php"] = [
    ("hw_basic.php", '''<?php
namespace App\\Demo;

use Foo\\Bar as Baz;
use function Foo\\helper;
require_once "lib.php";
include "inc.php";

const LIMIT = 10;
define("OTHER", 5);
$total = 0;
$arr = [1, 2, "k" => [3, 4], 'n' => null];
$list = array(1, 2, 3);

function add(int $a, $b = 2, ...$rest): int {
    global $total;
    static $calls = 0;
    $calls++;
    $total += $a + $b;
    foreach ($rest as $r) { $total += $r; }
    return $total;
}

echo add(1), "\\n";
print("x");

interface Namer { public function name(): string; }
trait Loud { public function shout() { return strtoupper($this->name()); } }
abstract class Base { abstract protected function id(); public static $count = 0; const K = 1; }

final class Shape extends Base implements Namer {
    use Loud;
    public $w = 1;
    private ?int $h = null;
    protected static $made = [];
    public function __construct($w, $h = 1) {
        $this->w = $w;
        $this->h = $h;
        self::$count++;
        static::$made[] = $this;
        parent::K;
    }
    public function name(): string { return "shape"; }
    protected function id() { return 1; }
    public static function unit() { return new static(1, 1); }
    public function grow($k) {
        while ($k > 0) {
            $this->w += 1;
            $k--;
            if ($this->w > 100) { break; } elseif ($this->w == 50) { continue; } else { }
        }
        do { $k++; } while ($k < 3);
        return $this;
    }
}

$s = new Shape(2, 3);
for ($i = 0, $j = 10; $i < $j; $i++, $j--) { if ($i % 2) continue; $total += $i; }
foreach ($arr as $k => $v) { echo "$k => {$s->w} ${total}"; }
foreach ($list as &$ref) { $ref *= 2; }
switch ($total) { case 0: case 1: $total = 5; break; default: $total = 7; }
$m = match(true) { $total > 5 => "big", default => "small" };
try { throw new \\Exception("x"); } catch (\\InvalidArgumentException | \\TypeError $e) { echo $e; } catch (\\Exception $e) { } finally { $total = 0; }
$fn = function ($x) use ($total, &$arr) { return $x + $total; };
$arrow = fn($x) => $x * 2;
$t = $total ? 1 : ($total ?: 2) ?? 3;
$total .= "s"; $total ??= 4; $n = -$total ** 2 <=> 1;
list($a, $b) = [1, 2]; [$c, [$d]] = [1, [2]];
$s?->grow(1)->w; Shape::unit(); $s::$count; $cls = "Shape"; $o = new $cls(1); $$cls = 1;
if ($a): echo 1; elseif ($b): echo 2; else: echo 3; endif;
while ($a--): endwhile;
unset($arr["k"]); isset($a) && empty($b); exit(0);
?>
<p>html <?= $total ?></p>
'''),
    ("hw_small.php", '''<?php
$x = 1;
function f() { global $x; return $x; }
$y = f();
class C { public $v = 1; function m() { return $this->v; } }
$z = new C();
echo $x, $y, $z->m();
'''),
]

PROGRAMS["ruby"] = [
    ("hw_basic.rb", '''require "json"
require_relative "lib/util"

LIMIT = 10
$total = 0
total = 0

def add(a, b = 2, *rest, key: nil, **kw, &blk)
  sum = a + b
  rest.each { |r| sum += r }
  sum += yield(sum) if block_given?
  return sum
end

puts add(1) { |s| s * 2 }

module Loud
  def shout
    name.upcase
  end
end

class Shape < Base
  include Loud
  attr_accessor :w, :h
  SIDES = 4
  @@count = 0

  def initialize(w, h = 1)
    super(w)
    @w = w
    @h = h
    @@count += 1
  end

  def self.unit
    new(1, 1)
  end

  def area
    @w * @h
  end

  def grow(k)
    while k > 0
      @w += 1
      k -= 1
      break if @w > 100
      next if @w == 50
    end
    until k >= 3 do k += 1 end
    begin
      k += 1
    end while k < 5
    self
  end

  private

  def secret; 42; end
end

s = Shape.new(2, 3)
for i in 0..3 do
  next if i.odd?
  total += i
end
(1...4).each do |i|
  total -= i
end
arr = [1, 2, 3].map { |v| v * 2 }.select(&:even?)
h = { "a" => 1, b: 2, **{ c: 3 } }
a, (b, c), *d = 1, [2, 3], 4, 5
if total > 5 then total = 1 elsif total < 0 then total = 0 else total = 2 end
unless s then puts "no" else puts "yes" end
total = s ? 1 : 2
case total
when 0, 1 then total = 5
when 2..4
  total = 6
else
  total = 7
end
begin
  raise ArgumentError, "x"
rescue ArgumentError, TypeError => e
  puts e.message
  retry if false
rescue => e2
  puts e2
else
  puts "ok"
ensure
  total = 0
end
lam = ->(x, y = 1) { x + y }
pr = proc { |x| x }
str = "t=#{total} #{lam.call(1)}" + 'raw' + :sym.to_s + %w[a b].join + <<~EOS
  heredoc #{total}
EOS
total += 1; total ||= 2; total &&= 3
puts str =~ /t=(\\d+)/ ? $1 : nil
puts s&.area, Shape::SIDES, defined?(foo), __FILE__
alias_method :sq, :area rescue nil
'''),
    ("hw_small.rb", '''x = 1
def f(v)
  v + 1
end
y = f(x)
class C
  def m
    2
  end
end
z = C.new
puts x, y, z.m
'''),
]

PROGRAMS["smali"] = [
    ("HwBasic.smali", '''.class public LHwBasic;
.super Ljava/lang/Object;
.implements Ljava/lang/Runnable;
.source "HwBasic.java"

.field private static final LIMIT:I = 0xa
.field public name:Ljava/lang/String;
.field protected values:[I

.method public constructor <init>()V
    .registers 2
    invoke-direct {p0}, Ljava/lang/Object;-><init>()V
    const-string v0, "n"
    iput-object v0, p0, LHwBasic;->name:Ljava/lang/String;
    return-void
.end method

.method public static add(II)I
    .registers 3
    .param p0, "a"    # I
    .param p1, "b"    # I
    add-int v0, p0, p1
    return v0
.end method

.method public run()V
    .registers 6
    const/4 v0, 0x0
    const/16 v1, 0xa
    :loop
    if-ge v0, v1, :done
    add-int/lit8 v0, v0, 0x1
    rem-int/lit8 v2, v0, 0x2
    if-eqz v2, :loop
    sget-object v3, Ljava/lang/System;->out:Ljava/io/PrintStream;
    invoke-virtual {v3, v0}, Ljava/io/PrintStream;->println(I)V
    goto :loop
    :done
    new-array v4, v1, [I
    aput v0, v4, v0
    aget v2, v4, v0
    iput-object v4, p0, LHwBasic;->values:[I
    new-instance v3, Ljava/lang/StringBuilder;
    invoke-direct {v3}, Ljava/lang/StringBuilder;-><init>()V
    invoke-static {v0, v1}, LHwBasic;->add(II)I
    move-result v2
    :try_start
    div-int v2, v2, v0
    :try_end
    .catch Ljava/lang/ArithmeticException; {:try_start .. :try_end} :handler
    return-void
    :handler
    move-exception v3
    throw v3
.end method

.method public static pick(I)I
    .registers 2
    packed-switch p0, :pswitch_data
    const/4 v0, -0x1
    return v0
    :pswitch_0
    const/4 v0, 0x1
    return v0
    :pswitch_1
    const/4 v0, 0x2
    return v0
    :pswitch_data
    .packed-switch 0x0
        :pswitch_0
        :pswitch_1
    .end packed-switch
.end method
'''),
    ("HwSmall.smali", '''.class public LHwSmall;
.super Ljava/lang/Object;

.method public static main([Ljava/lang/String;)V
    .registers 2
    const/4 v0, 0x1
    sget-object v1, Ljava/lang/System;->out:Ljava/io/PrintStream;
    invoke-virtual {v1, v0}, Ljava/io/PrintStream;->println(I)V
    return-void
.end method
'''),
]

PROGRAMS["llvm"] = [
    ("hw_basic.ll", '''; ModuleID = 'hw'
source_filename = "hw.c"
target datalayout = "e-m:e-p270:32:32-p271:32:32-p272:64:64-i64:64-f80:128-n8:16:32:64-S128"
target triple = "x86_64-pc-linux-gnu"

%struct.point = type { i32, i32, %struct.point* }

@total = dso_local global i32 0, align 4
@msg = private unnamed_addr constant [3 x i8] c"hi\\00", align 1
@arr = dso_local global [3 x i32] [i32 1, i32 2, i32 3], align 4

declare i32 @printf(i8*, ...)
declare void @llvm.memcpy.p0i8.p0i8.i64(i8* nocapture, i8* nocapture, i64, i1)

define dso_local i32 @add(i32 %a, i32 %b) #0 {
entry:
  %a.addr = alloca i32, align 4
  %b.addr = alloca i32, align 4
  store i32 %a, i32* %a.addr, align 4
  store i32 %b, i32* %b.addr, align 4
  %0 = load i32, i32* %a.addr, align 4
  %1 = load i32, i32* %b.addr, align 4
  %add = add nsw i32 %0, %1
  %2 = load i32, i32* @total, align 4
  %add1 = add nsw i32 %2, %add
  store i32 %add1, i32* @total, align 4
  ret i32 %add1
}

define dso_local i32 @loop(i32 %n) {
entry:
  br label %cond

cond:
  %i = phi i32 [ 0, %entry ], [ %inc, %body ]
  %acc = phi i32 [ 0, %entry ], [ %sum, %body ]
  %cmp = icmp slt i32 %i, %n
  br i1 %cmp, label %body, label %end

body:
  %sum = add i32 %acc, %i
  %inc = add i32 %i, 1
  br label %cond

end:
  switch i32 %acc, label %def [
    i32 0, label %zero
    i32 1, label %one
  ]

zero:
  ret i32 0

one:
  ret i32 1

def:
  %sel = select i1 %cmp, i32 %acc, i32 7
  ret i32 %sel
}

define dso_local i32 @main(i32 %argc, i8** %argv) {
entry:
  %p = alloca %struct.point, align 8
  %x = getelementptr inbounds %struct.point, %struct.point* %p, i32 0, i32 0
  store i32 1, i32* %x, align 8
  %e = getelementptr inbounds [3 x i32], [3 x i32]* @arr, i64 0, i64 1
  %v = load i32, i32* %e, align 4
  %call = call i32 @add(i32 %v, i32 2)
  %call2 = call i32 @loop(i32 %call)
  %conv = sext i32 %call2 to i64
  %tr = trunc i64 %conv to i32
  %f = sitofp i32 %tr to double
  %g = fadd double %f, 1.500000e+00
  %h = fptosi double %g to i32
  %call3 = call i32 (i8*, ...) @printf(i8* getelementptr inbounds ([3 x i8], [3 x i8]* @msg, i64 0, i64 0))
  %r = xor i32 %h, %call3
  ret i32 %r
}

attributes #0 = { noinline nounwind optnone uwtable }
!llvm.module.flags = !{!0}
!0 = !{i32 1, !"wchar_size", i32 4}
'''),
    ("hw_small.ll", '''@x = global i32 1

define i32 @f() {
entry:
  %0 = load i32, i32* @x
  ret i32 %0
}

define i32 @main() {
entry:
  %y = call i32 @f()
  ret i32 %y
}
'''),
]
