"""Base programs for C12 and the runtime oracles (CPython / node) that establish that an edited program still behaves
like the original.

A base program is a dict
  {name, lang, files {rel: text}, main (rel of the file that is edited), origin, runnable (bool: executed under
   CPython/node to confirm each edit), renamable {edit kind: [identifiers]} and def_groups [[(first, last)]] for the
   non-Python languages (declared by the generator / template author for the unedited text), features [..]}

All generated programs have `main(tainted, b, c)` (gen_py ones: `main(a, b, c)`), call an undefined `sink(...)` at
most once per function (lian recognises only the first call of an unresolved sink per method) and print through an
undefined `out(...)`; the harness injects both when it runs them."""
import json
import os
import random
import re
import subprocess
import sys

from . import gen_py

ENTRY_NAMES = ("%unit_init", "main", "handler", "handle", "process", "serve")
SOURCE_PARAMS = ("tainted", "req", "payload", "$tainted", "$req", "a", "b", "c")
SINK_NAMES = ("sink", "emit", "exec_query")
PROTECTED = set(ENTRY_NAMES) | {p.lstrip("$") for p in SOURCE_PARAMS} | set(SINK_NAMES) | {"out", "self", "this"}


def settings(lang):
    """Entry methods by name; parameters called tainted/req/payload (gen_py mains: a/b/c) are sources; the first
    argument of sink()/emit()/exec_query() is a sink. No rule mentions a file or a line."""
    entry = "- method_list: [" + ", ".join(f"'{e}'" for e in ENTRY_NAMES) + "]\n"
    src_rules = "".join(f"    - operation: parameter_decl\n      name: {n}\n" for n in SOURCE_PARAMS)
    source = f"- lang: {lang}\n  rules:\n{src_rules}"
    sink_rules = "".join(
        f"    - operation: call_stmt\n      name: {n}\n      target: [\\%arg0]\n      vuln_type: generic_sink\n" for n in SINK_NAMES)
    sink = f"- lang: {lang}\n  rules:\n{sink_rules}"
    prop = ("- lang: " + lang + "\n  rules:\n  - operation: assign_stmt\n    src: operand1\n    dst:\n      - [\\%target]\n"
            "  - operation: field_read\n    src: receiver\n    dst: [\\%target]\n")
    return {"entry": entry, "source": source, "sink": sink, "propagation": prop}


IMPORT_LISTS = ["import os.path, sys", "import json, re", "import os.path, json, re", "import math, sys"]


# ---------------------------------------------------------------------------------------------------
# generated: gen_py programs with taint sinks added

def from_gen_py(seed, import_list=False):
    src, feats = gen_py.generate(seed, max_stmts=14)
    rng = random.Random(seed * 7919 + 13)
    lines = src.split("\n")
    out = []
    in_main = False
    done_main = False
    helper_sinks = 0
    i = 0
    while i < len(lines):
        l = lines[i]
        if l.startswith("def main("):
            in_main = True
        elif in_main and not done_main and l.startswith("    out(") and not l.startswith("        "):
            # the scalar dump of main: sink the most derived scalar right before it
            args = [a.strip() for a in l.strip()[4:-1].split(",")]
            derived = [a for a in args if a not in ("a", "b", "c") and a.isidentifier()]
            tgt = rng.choice(derived) if derived else "a"
            out.append(f"    sink({tgt})" if rng.random() < 0.5 else f"    sink((a + {tgt}))")
            done_main = True
        elif (not in_main and l.startswith("def fn") and helper_sinks < 2 and rng.random() < 0.6 and "(p0" in l):
            out.append(l)
            out.append("    sink(p0)")
            helper_sinks += 1
            i += 1
            continue
        out.append(l)
        i += 1
    text = "\n".join(out)
    if "out(main(" not in text:
        text = text.rstrip("\n") + "\n\nout(main(1, 2, 3))\n"
    feats = list(feats)
    if import_list:
        text = rng.choice(IMPORT_LISTS) + "\n" + text
        feats.append("import-list")
    return {"name": f"genpy{seed}" + ("_il" if import_list else ""), "lang": "python", "files": {"prog.py": text}, "main": "prog.py",
            "origin": "gen_py", "runnable": True, "features": feats, "entry": "main", "argvecs": [(1, 2, 3), (0, 0, 0), (-3, 5, 2)]}


# ---------------------------------------------------------------------------------------------------
# generated: call/closure/class/taint skeletons rendered as Python and JavaScript

class FlowGen:
    """Functions, classes, closures, shadowing and taint chains over small ints; every declaration has its own
    identifier (except deliberate shadows, which are never offered for renaming outside Python)."""

    def __init__(self, rng, lang, import_list=False):
        self.rng, self.lang = rng, lang
        self.k = 0
        self.lines = []
        self.funcs = []          # (name, nparams)
        self.classes = []        # (name, nctor, [(method, nparams)])
        self.globals = []
        self.renamable = {"rename-local": [], "rename-param": [], "rename-function": [], "rename-class": [], "rename-method": []}
        self.def_blocks = []
        self.features = set()
        self.import_list = import_list
        self.shadows = set()
        self._blocked = set()
        self._fn_start = 0

    def fresh(self, stem, kind=None):
        self.k += 1
        n = f"{stem}{self.k}"
        if kind:
            self.renamable[kind].append(n)
        return n

    # -- rendering helpers
    @property
    def py(self):
        return self.lang == "python"

    def emit(self, ind, text):
        self.lines.append("    " * ind + text)

    def semi(self):
        return "" if self.py else ";"

    def open_fn(self, ind, name, params, method=False):
        if self.py:
            ps = (["self"] if method else []) + params
            self.emit(ind, f"def {name}({', '.join(ps)}):")
        elif method:
            self.emit(ind, f"{name}({', '.join(params)}) {{")
        else:
            self.emit(ind, f"function {name}({', '.join(params)}) {{")

    def close(self, ind):
        if not self.py:
            self.emit(ind, "}")

    def assign(self, ind, declared, var, expr):
        if self.py or var in declared:
            self.emit(ind, f"{var} = {expr}{self.semi()}")
        else:
            self.emit(ind, f"var {var} = {expr};")
        declared.add(var)

    def this(self):
        return "self" if self.py else "this"

    # -- expressions
    def atom(self, env):
        r = self.rng.random()
        if env and r < 0.75:
            return self.rng.choice(env)
        if self.globals and r < 0.85:
            return self.rng.choice(self.globals)
        return str(self.rng.choice([1, 2, 3, 5, 7]))

    def expr(self, env, calls=True, depth=0):
        r = self.rng.random()
        avail = [f for f in self.funcs if f[0] not in self._blocked]
        if calls and avail and r < 0.35 and depth < 2:
            f, n = self.rng.choice(avail)
            return f"{f}({', '.join(self.expr(env, calls, depth + 1) if self.rng.random() < 0.3 else self.atom(env) for _ in range(n))})"
        if r < 0.7 and depth < 2:
            op = self.rng.choice(["+", "-", "+"])
            return f"({self.atom(env)} {op} {self.expr(env, calls, depth + 1)})"
        if r < 0.8:
            return f"({self.atom(env)} * {self.rng.choice([2, 3])})"
        return self.atom(env)

    # -- statements of a function body
    def body(self, ind, params, is_main=False, want_sink=False):
        env = list(params)
        declared = set(params)
        self._blocked = set()
        n = self.rng.randint(2, 4) + (2 if is_main else 0)
        sunk = False
        for i in range(n):
            r = self.rng.random()
            if r < 0.35:
                v = self.fresh("v", "rename-local")
                self.assign(ind, declared, v, self.expr(env))
                env.append(v)
            elif r < 0.5 and self.classes:
                cname, nctor, methods = self.rng.choice(self.classes)
                o = self.fresh("o", "rename-local")
                new = "" if self.py else "new "
                self.assign(ind, declared, o, f"{new}{cname}({', '.join(self.atom(env) for _ in range(nctor))})")
                m, np_ = self.rng.choice(methods)
                v = self.fresh("v", "rename-local")
                self.assign(ind, declared, v, f"{o}.{m}({', '.join(self.atom(env) for _ in range(np_))})")
                env.append(v)
                self.features.add("method-call")
            elif r < 0.65:
                v = self.fresh("v", "rename-local")
                self.assign(ind, declared, v, self.atom(env))
                c = f"{self.atom(env)} > {self.rng.choice([0, 2, 5])}"
                self.emit(ind, f"if {c}:" if self.py else f"if ({c}) {{")
                self.assign(ind + 1, declared, v, self.expr(env))
                if self.rng.random() < 0.5:
                    self.emit(ind, "else:" if self.py else "} else {")
                    self.assign(ind + 1, declared, v, self.expr(env, calls=False))
                self.close(ind)
                env.append(v)
                self.features.add("if")
            elif r < 0.78:
                # closure reading a variable of the enclosing function
                inner = self.fresh("inner", "rename-function")
                q = self.fresh("q", "rename-param")
                cap = self.rng.choice(env) if env else "1"
                self.open_fn(ind, inner, [q])
                self.emit(ind + 1, f"return ({q} + {cap}){self.semi()}")
                self.close(ind)
                v = self.fresh("v", "rename-local")
                self.assign(ind, declared, v, f"{inner}({self.atom(env)})")
                env.append(v)
                self.features.add("closure")
            elif r < 0.88:
                acc = self.fresh("v", "rename-local")
                it = self.fresh("i", "rename-local")
                self.assign(ind, declared, acc, self.atom(env))
                if self.py:
                    self.emit(ind, f"for {it} in range({self.rng.choice([2, 3])}):")
                else:
                    self.emit(ind, f"for (var {it} = 0; {it} < {self.rng.choice([2, 3])}; {it}++) {{")
                self.assign(ind + 1, declared, acc, f"({acc} + {self.rng.choice([it] + env)})")
                self.close(ind)
                env.append(acc)
                self.features.add("loop")
            elif r < 0.94 and (self.funcs or self.globals):
                # a local that shadows a module-level name
                tgt = self.rng.choice([f for f, _ in self.funcs] + self.globals)
                if tgt not in declared and not any(tgt in l for l in self.lines[self._fn_start:]):
                    self.shadows.add(tgt)
                    self._blocked.add(tgt)
                    self.assign(ind, declared, tgt, self.atom(env))
                    env.append(tgt)
                    self.features.add("shadow")
            else:
                self.emit(ind, f"out({self.atom(env)}){self.semi()}")
        if want_sink and not sunk:
            cands = [e for e in env if e not in params] or env
            self.emit(ind, f"sink({cands[-1] if self.rng.random() < 0.7 else self.rng.choice(env)}){self.semi()}")
        if is_main:
            self.emit(ind, f"out({', '.join(env[-4:])}){self.semi()}")
        self.emit(ind, f"return {self.expr(env, calls=False)}{self.semi()}")

    def gen_func(self):
        name = self.fresh("fn", "rename-function")
        params = [self.fresh("p", "rename-param") for _ in range(self.rng.randint(1, 3))]
        start = len(self.lines) + 1
        self._fn_start = len(self.lines)
        self.open_fn(0, name, params)
        self.body(1, params, want_sink=self.rng.random() < 0.45)
        self.close(0)
        self.def_blocks.append((start, len(self.lines)))
        self.emit(0, "")
        self.funcs.append((name, len(params)))

    def gen_class(self):
        name = self.fresh("Cls", "rename-class")
        nctor = self.rng.randint(1, 2)
        cps = [self.fresh("p", "rename-param") for _ in range(nctor)]
        flds = [self.fresh("fld") for _ in range(nctor)]
        start = len(self.lines) + 1
        self._fn_start = len(self.lines)
        self.emit(0, f"class {name}:" if self.py else f"class {name} {{")
        if self.py:
            self.emit(1, f"def __init__(self, {', '.join(cps)}):")
        else:
            self.emit(1, f"constructor({', '.join(cps)}) {{")
        for f, p in zip(flds, cps):
            self.emit(2, f"{self.this()}.{f} = {p}{self.semi()}")
        self.close(1)
        methods = []
        for _ in range(self.rng.randint(1, 2)):
            m = self.fresh("m", "rename-method")
            mp = [self.fresh("p", "rename-param") for _ in range(self.rng.randint(0, 1))]
            self.open_fn(1, m, mp, method=True)
            terms = [f"{self.this()}.{f}" for f in flds] + mp
            self._blocked = set()
            if self.funcs and self.rng.random() < 0.5:
                f, n = self.rng.choice(self.funcs)
                self.emit(2, f"return {f}({', '.join(self.rng.choice(terms) for _ in range(n))}){self.semi()}")
            else:
                self.emit(2, f"return ({' + '.join(terms)}){self.semi()}")
            self.close(1)
            methods.append((m, len(mp)))
        self.close(0)
        self.def_blocks.append((start, len(self.lines)))
        self.emit(0, "")
        self.classes.append((name, nctor, methods))
        self.features.add("class")

    def generate(self):
        if self.import_list and self.py:
            self.emit(0, self.rng.choice(IMPORT_LISTS))
            self.features.add("import-list")
        for _ in range(self.rng.randint(0, 2)):
            g = self.fresh("G")
            self.emit(0, f"{g} = {self.rng.choice([1, 2, 5])}" if self.py else f"var {g} = {self.rng.choice([1, 2, 5])};")
            self.globals.append(g)
        if self.globals:
            self.emit(0, "")
        nf = self.rng.randint(2, 4)
        nc = self.rng.randint(0, 2)
        order = ["f"] * nf + ["c"] * nc
        self.rng.shuffle(order)
        if order[0] == "c":
            order[0], order[order.index("f")] = "f", "c"
        for o in order:
            if o == "f":
                self.gen_func()
            else:
                self.gen_class()
        start = len(self.lines) + 1
        self._fn_start = len(self.lines)
        self.open_fn(0, "main", ["tainted", "b", "c"])
        self.body(1, ["tainted", "b", "c"], is_main=True, want_sink=True)
        self.close(0)
        self.def_blocks.append((start, len(self.lines)))
        self.emit(0, "")
        self.emit(0, f"out(main(1, 2, 3)){self.semi()}")
        return "\n".join(self.lines) + "\n"


def gen_flow(seed, lang, import_list=False):
    rng = random.Random(seed * 104729 + (1 if lang == "python" else 2))
    g = FlowGen(rng, lang, import_list)
    text = g.generate()
    ext = "py" if lang == "python" else "js"
    ren = {k: [n for n in v if n not in g.shadows] for k, v in g.renamable.items()}
    return {"name": f"flow_{lang[:2]}{seed}" + ("_il" if import_list and lang == "python" else ""), "lang": lang,
            "files": {f"prog.{ext}": text}, "main": f"prog.{ext}", "origin": "gen_flow", "runnable": True,
            "features": sorted(g.features), "renamable": ren, "def_groups": [list(g.def_blocks)], "entry": "main",
            "argvecs": [(1, 2, 3), (0, 0, 0), (-3, 5, 2)]}


# ---------------------------------------------------------------------------------------------------
# generated multi-file projects: library files whose functions OTHER files import (the "move a function into another
# file" edit applied to such a function turns the library file into a re-exporting intermediate module)

def gen_flow_multi(seed, lang, form="from", repo="/repo"):
    """A gen_flow program whose self-contained leaf functions live in library modules liba / libb.
    form 'from'   : `from liba import f` (Python) / `import { f } from "./liba.js"` (JavaScript)
    form 'module' : `import liba` + `liba.f(...)` (Python only)"""
    from . import edits
    for attempt in range(6):
        g = gen_flow(seed * 13 + attempt * 7919 + 5, lang)
        rng = random.Random(seed * 31 + attempt)
        files = dict(g["files"])
        main = g["main"]
        moved = []
        groups = g["def_groups"]
        for libname in ("liba", "libb"):
            if lang == "python":
                st = edits.py_move_to_file(files, rng, main, protected=PROTECTED, helper=libname)
            else:
                st = edits.js_move_to_file(files, rng, main, repo, groups, protected=PROTECTED, helper=libname)
            if st is None:
                break
            fn = st.detail["function"]
            if fn not in g["renamable"]["rename-function"]:      # shadowed somewhere: leave it alone
                continue
            if not re.search(r"(?<![A-Za-z0-9_])" + re.escape(fn) + r"\(", st.files[main]):
                continue                                          # nobody in the importing file calls it
            # author-declared blocks follow the text
            new_groups = []
            for grp in groups:
                ng = []
                for (a, b) in grp:
                    x, y = st.line_map.get((main, a)), st.line_map.get((main, b))
                    if x and y and x[0] == main and y[0] == main:
                        ng.append((x[1], y[1]))
                new_groups.append(ng)
            groups = new_groups
            files = st.files
            moved.append((libname, fn))
            if rng.random() < 0.4:
                break
        if not moved:
            continue
        ren = {k: [n for n in v if n not in [m[1] for m in moved]] for k, v in g["renamable"].items()}
        if form == "module" and lang == "python":
            text = files[main]
            for lib, fn in moved:
                text = text.replace(f"from {lib} import {fn}\n", f"import {lib}\n")
                text = re.sub(r"(?<![A-Za-z0-9_.])" + re.escape(fn) + r"\(", f"{lib}.{fn}(", text)
            files[main] = text
        ext = "py" if lang == "python" else "js"
        libs = [f"{lib}.{ext}" for lib, _ in moved]
        return {"name": f"multi_{form}_{lang[:2]}{seed}", "lang": lang, "files": files, "main": main, "origin": "gen_multi",
                "runnable": True, "features": sorted(set(g["features"]) | {"multi-file", "import-" + form}), "renamable": ren,
                "def_groups": groups, "entry": "main", "argvecs": g["argvecs"], "lib_files": libs,
                "lib_functions": {f"{lib}.{ext}": fn for lib, fn in moved}}
    return None


# ---------------------------------------------------------------------------------------------------
# projects with a BYSTANDER file that imports a module under another name (`import liba as L`, `from liba import other
# as oth`, dotted `import pkg.mod`): the move-to-file edit targets that EXISTING module, so that after the edit the main
# file imports it plainly while another unit knows it under an alias

ALIAS_FORMS = ("as", "from-as", "dotted")


def gen_alias(seed, form, side):
    """side 'before': the aliasing file is named zz_report.py (analysed before prog.py), 'after': aa_report.py."""
    from . import edits
    g, move_fn, fallback = None, None, None
    for attempt in range(25):
        cand = gen_flow(seed * 17 + 3 + attempt * 1009, "python")
        text = cand["files"][cand["main"]]
        body = text[text.index("def main("):]
        # usable if a self-contained function can be moved out of the main file; preferred if main() itself calls it
        # (then the base call graph certainly has an edge into it)
        for fn in cand["renamable"]["rename-function"]:
            if not fn.startswith("fn"):
                continue
            st = edits.py_move_to_file(dict(cand["files"]), random.Random(attempt), cand["main"], protected=PROTECTED, helper="probe_mod_q", only=fn)
            if st is None:
                continue
            if re.search(r"(?<![A-Za-z0-9_])" + re.escape(fn) + r"\(", body):
                g, move_fn = cand, fn
                break
            if fallback is None and re.search(r"(?<![A-Za-z0-9_])" + re.escape(fn) + r"\(", st.files[cand["main"]]):
                fallback = (cand, fn)
        if g is not None:
            break
    if g is None:
        g, move_fn = fallback if fallback else (cand, None)
    rng = random.Random(seed * 53 + len(form))
    files = dict(g["files"])
    other = f"other_k{rng.randrange(10, 99)}"
    lib = f"def {other}(zq):\n    wq = zq + {rng.choice([1, 2, 3])}\n    return wq\n"
    by = ("zz_report" if side == "before" else "aa_report") + ".py"
    if form == "dotted":
        mod_rel, mod = "pkg/mod.py", "pkg.mod"
        files["pkg/__init__.py"] = ""
        files[by] = f"import pkg.mod\n\ndef report(rq):\n    return pkg.mod.{other}(rq)\n"
    else:
        mod_rel, mod = "liba.py", "liba"
        if form == "as":
            files[by] = f"import liba as LQ\n\ndef report(rq):\n    return LQ.{other}(rq)\n"
        else:
            files[by] = f"from liba import {other} as oth_q\n\ndef report(rq):\n    return oth_q(rq)\n"
    files[mod_rel] = lib
    return {"name": f"alias_{form}_{side}_{seed}", "lang": "python", "files": files, "main": g["main"], "origin": "gen_alias",
            "runnable": True, "features": sorted(set(g["features"]) | {"multi-file", "alias-" + form, "aliaser-" + side}),
            "renamable": g["renamable"], "def_groups": g["def_groups"], "entry": "main", "argvecs": g["argvecs"],
            "existing_modules": [mod_rel], "alias_move_fn": move_fn}


# ---------------------------------------------------------------------------------------------------
# classes nested two levels: a method of the INNER class uses bare names that are declared at module level AND as
# members of the outer class (and, as a control, of the inner class itself). In Python/JavaScript/TypeScript a bare
# name in a method never refers to a class member, so all of them are the module-level functions.

def gen_nested(seed, lang):
    rng = random.Random(seed * 71 + len(lang))
    hp = rng.choice(["helper", "fetch", "lookup", "relay"])      # collides with a member of the OUTER class
    pr = rng.choice(["probe", "scale", "adjust"])                # collides with a member of the INNER class (control)
    k1, k2, k3 = rng.choice([1, 2, 3]), rng.choice([2, 3]), rng.choice([0, 5, 7])
    attr = rng.random() < 0.4                                    # the outer member is an attribute instead of a method
    closure = rng.random() < 0.5
    if lang == "python":
        L = [f"def {hp}(p1):", f"    v1 = p1 + {k1}", "    return v1", "",
             f"def {pr}(p2):", f"    return p2 * {k2}", "",
             "class Outer:"]
        L += ([f"    {hp} = {k3}"] if attr else [f"    def {hp}(self, q1):", f"        return {k3}"])
        L += ["    class Inner:", f"        def {pr}(self, q2):", "            return 1",
              "        def handle(self, req):"]
        if closure:
            L += ["            def inner_fn(q3):", f"                return {hp}(q3)", "            y1 = inner_fn(req)"]
        else:
            L += [f"            y1 = {hp}(req)"]
        L += ["            sink(y1)", f"            return {pr}(y1)", "",
              "def main(tainted, b, c):", "    o1 = Outer.Inner()", "    r1 = o1.handle(tainted)", "    out(r1)", "    return r1", "",
              "out(main(1, 2, 3))"]
        rel = "prog.py"
    else:
        ts = lang == "typescript"
        n_ = ": number" if ts else ""
        any_ = ": any" if ts else ""
        L = [f"function {hp}(p1{n_}){n_} {{", f"    var v1 = p1 + {k1};", "    return v1;", "}", "",
             f"function {pr}(p2{n_}){n_} {{", f"    return p2 * {k2};", "}", "",
             "class Outer {"]
        L += ([f"    static {hp}{n_} = {k3};"] if attr else [f"    {hp}(q1{n_}){n_} {{", f"        return {k3};", "    }"])
        L += ["    static Inner = class Inner {", f"        {pr}(q2{n_}){n_} {{", "            return 1;", "        }",
              f"        handle(req{n_}){n_} {{"]
        if closure:
            L += [f"            function inner_fn(q3{n_}){n_} {{", f"                return {hp}(q3);", "            }", "            var y1 = inner_fn(req);"]
        else:
            L += [f"            var y1 = {hp}(req);"]
        L += ["            sink(y1);", f"            return {pr}(y1);", "        }", "    };", "}", "",
              f"function main(tainted{n_}, b{n_}, c{n_}){n_} {{", f"    var o1{any_} = new Outer.Inner();", "    var r1 = o1.handle(tainted);",
              "    out(r1);", "    return r1;", "}", "", "out(main(1, 2, 3));"]
        rel = "prog.ts" if ts else "prog.js"
    return {"name": f"nested_{lang[:2]}{seed}", "lang": lang, "files": {rel: "\n".join(L) + "\n"}, "main": rel, "origin": "gen_nested",
            "runnable": lang in ("python", "javascript"), "features": ["nested-classes", "outer-member-" + ("attribute" if attr else "method")]
            + (["closure"] if closure else []), "renamable": {"rename-local": ["v1", "y1", "o1", "r1"], "rename-param": ["p1", "p2", "q2"],
                                                               "rename-function": [], "rename-class": [], "rename-method": []},
            "def_groups": [], "entry": "main", "argvecs": [(1, 2, 3), (0, 0, 0)],
            "collide_outer": hp, "collide_inner": pr, "outer_member_is_method": not attr}


# ---------------------------------------------------------------------------------------------------
# hand-written templates: segments; a ("defs", [...]) segment is a group of independent, reorderable definitions

def _tpl(name, lang, rel, segments, renamable, runnable=False, hierarchy=(), features=(), java_driver=None):
    """hierarchy: [(index of the subclass block, index of its superclass block)] within the FIRST defs group."""
    lines = []
    groups = []
    for kind, val in segments:
        if kind == "fixed":
            lines += val.strip("\n").split("\n")
        else:
            grp = []
            for d in val:
                ds = d.strip("\n").split("\n")
                grp.append((len(lines) + 1, len(lines) + len(ds)))
                lines += ds
                lines.append("")
            groups.append(grp)
    hier = [(groups[0][c][0], groups[0][p_][0]) for (c, p_) in hierarchy] if groups else []
    return {"name": name, "lang": lang, "files": {rel: "\n".join(lines) + "\n"}, "main": rel, "origin": "template",
            "runnable": runnable or bool(java_driver), "features": ["template"] + list(features), "renamable": renamable,
            "def_groups": groups, "hierarchy": hier, "java_driver": java_driver}


def templates():
    T = []
    T.append(_tpl("java_service", "java", "Service.java", [
        ("fixed", "public class Service {\n    private int base;\n"),
        ("defs", [
            "    public Service(int start) {\n        this.base = start;\n    }",
            "    static int twice(int pa) {\n        int va = pa + pa;\n        return va;\n    }",
            "    int shift(int pb) {\n        int vb = twice(pb) + this.base;\n        return vb;\n    }",
            "    static int pick(int pc, int pd) {\n        int vc = pc;\n        if (pd > 2) {\n            vc = twice(pd);\n        }\n        return vc;\n    }",
            "    public int main(int tainted, int b, int c) {\n        Service svc = new Service(b);\n        int t1 = svc.shift(tainted);\n        int t2 = pick(t1, c);\n        int t3 = t2 + 1;\n        sink(t3);\n        return t3;\n    }",
        ]),
        ("fixed", "}\n"),
    ], {"rename-local": ["va", "vb", "vc", "t1", "t2", "t3", "svc"], "rename-param": ["pa", "pb", "pc", "pd", "start"],
        "rename-function": ["twice", "shift", "pick"], "rename-class": []}))
    T.append(_tpl("java_two_classes", "java", "Two.java", [
        ("defs", [
            "class Store {\n    int held;\n    Store(int hv) {\n        this.held = hv;\n    }\n    int fetch() {\n        return this.held;\n    }\n}",
            "class Mixer {\n    static int blend(int ma, int mb) {\n        int mv = ma + mb;\n        return mv;\n    }\n}",
            "class Two {\n    int main(int tainted, int b, int c) {\n        Store st = new Store(tainted);\n        int got = st.fetch();\n        int mixed = Mixer.blend(got, b);\n        sink(mixed);\n        return mixed;\n    }\n}",
        ]),
    ], {"rename-local": ["mv", "st", "got", "mixed"], "rename-param": ["hv", "ma", "mb"], "rename-function": ["fetch", "blend"],
        "rename-class": ["Store", "Mixer"]}))
    # class hierarchies with calls that dispatch to INHERITED methods; top-level Java classes are order-independent
    # (javac + java confirm every permutation), so the reorder edit may put a subclass before its superclass
    T.append(_tpl("java_hierarchy", "java", "Main.java", [
        ("defs", [
            "class Parent {\n    int run(int px) {\n        sink(px);\n        return px + 1;\n    }\n}",
            "class Child extends Parent {\n    int other(int py) {\n        int vy = py * 2;\n        return vy;\n    }\n}",
            "class GrandChild extends Child {\n    int more(int pz) {\n        int vz = other(pz) - 1;\n        return vz;\n    }\n}",
            "class Main {\n    static int main(int tainted, int b, int c) {\n        Child kid = new Child();\n        int t1 = kid.run(tainted);\n        GrandChild gk = new GrandChild();\n        int t2 = gk.run(t1 + b);\n        int t3 = gk.more(c);\n        return t2 + t3;\n    }\n}",
        ]),
    ], {"rename-local": ["vy", "vz", "kid", "gk", "t1", "t2", "t3"], "rename-param": ["px", "py", "pz"], "rename-function": ["other", "more"],
        "rename-class": ["GrandChild"]}, hierarchy=[(1, 0), (2, 1)], features=["hierarchy"],
        java_driver={"entry_class": "Main", "call": "Main.main(1, 2, 3)"}))
    T.append(_tpl("java_hierarchy_iface", "java", "Shop.java", [
        ("defs", [
            "abstract class Base {\n    int keep;\n    int store(int pv) {\n        this.keep = pv;\n        sink(pv);\n        return pv;\n    }\n    abstract int price(int pq);\n}",
            "class Item extends Base {\n    int price(int pq) {\n        int vq = pq + 3;\n        return vq;\n    }\n}",
            "class Shop {\n    static int main(int tainted, int b, int c) {\n        Item it = new Item();\n        int s1 = it.store(tainted + b);\n        int s2 = it.price(c);\n        return s1 + s2;\n    }\n}",
        ]),
    ], {"rename-local": ["vq", "it", "s1", "s2"], "rename-param": ["pv", "pq"], "rename-function": ["store"], "rename-class": ["Item"]},
        hierarchy=[(1, 0)], features=["hierarchy"], java_driver={"entry_class": "Shop", "call": "Shop.main(1, 2, 3)"}))
    # PHP: a class without parent is hoisted, a class that extends it is declared when execution reaches it, so
    # Child-before-Parent is valid as long as nothing is instantiated at file level (nothing is: no top-level code)
    T.append(_tpl("php_hierarchy", "php", "shop.php", [
        ("fixed", "<?php\n"),
        ("defs", [
            "class BaseK {\n    public $keep;\n    function store($pv) {\n        $this->keep = $pv;\n        sink($pv);\n        return $pv;\n    }\n}",
            "class ItemK extends BaseK {\n    function price($pq) {\n        $vq = $pq + 3;\n        return $vq;\n    }\n}",
            "function main($tainted, $b, $c) {\n    $it = new ItemK();\n    $s1 = $it->store($tainted + $b);\n    $s2 = $it->price($c);\n    return $s1 + $s2;\n}",
        ]),
    ], {"rename-local": ["vq", "it", "s1", "s2"], "rename-param": ["pv", "pq"], "rename-function": [], "rename-class": []},
        hierarchy=[(1, 0)], features=["hierarchy"]))
    # TypeScript/JavaScript class declarations are NOT hoisted (`class Child extends Parent` before Parent is a
    # ReferenceError under node, TS2449 under tsc): the classes stay in a fixed segment, only the functions move
    T.append(_tpl("ts_hierarchy", "typescript", "shop.ts", [
        ("fixed", "class Base {\n    keep: number = 0;\n    store(pv: number): number {\n        this.keep = pv;\n        sink(pv);\n        return pv;\n    }\n}\n\nclass Item extends Base {\n    price(pq: number): number {\n        const vq = pq + 3;\n        return vq;\n    }\n}\n"),
        ("defs", [
            "function relay(pr: number): number {\n    const vr = pr + 1;\n    return vr;\n}",
            "function main(tainted: number, b: number, c: number): number {\n    const it = new Item();\n    const s1 = it.store(relay(tainted) + b);\n    const s2 = it.price(c);\n    return s1 + s2;\n}",
        ]),
    ], {"rename-local": ["vq", "vr", "it", "s1", "s2"], "rename-param": ["pv", "pq", "pr"], "rename-function": ["relay"], "rename-class": []},
        features=["hierarchy-fixed-order"]))
    T.append(_tpl("go_service", "go", "service.go", [
        ("fixed", "package service\n"),
        ("defs", [
            "func twice(pa int) int {\n\tva := pa + pa\n\treturn va\n}",
            "func pick(pc int, pd int) int {\n\tvc := pc\n\tif pd > 2 {\n\t\tvc = twice(pd)\n\t}\n\treturn vc\n}",
            "type Store struct {\n\theld int\n}",
            "func (s *Store) fetch() int {\n\treturn s.held\n}",
            "func main(tainted int, b int, c int) int {\n\tt1 := twice(tainted)\n\tt2 := pick(t1, c)\n\tt3 := t2 + b\n\tsink(t3)\n\treturn t3\n}",
        ]),
    ], {"rename-local": ["va", "vc", "t1", "t2", "t3"], "rename-param": ["pa", "pc", "pd"], "rename-function": ["twice", "pick"],
        "rename-class": []}))
    T.append(_tpl("c_buffers", "c", "buffers.c", [
        ("fixed", "int twice(int pa);\nint pick(int pc, int pd);\nint shift(int pb);\nvoid sink(int x);\n"),
        ("defs", [
            "int twice(int pa) {\n    int va = pa + pa;\n    return va;\n}",
            "int shift(int pb) {\n    int vb = twice(pb) + 3;\n    return vb;\n}",
            "int pick(int pc, int pd) {\n    int vc = pc;\n    if (pd > 2) {\n        vc = twice(pd);\n    }\n    return vc;\n}",
            "int main(int tainted, int b, int c) {\n    int t1 = shift(tainted);\n    int t2 = pick(t1, c);\n    int t3 = t2 + b;\n    sink(t3);\n    return t3;\n}",
        ]),
    ], {"rename-local": ["va", "vb", "vc", "t1", "t2", "t3"], "rename-param": [], "rename-function": [], "rename-class": []}))
    T.append(_tpl("php_service", "php", "service.php", [
        ("fixed", "<?php\n"),
        ("defs", [
            "function twice($pa) {\n    $va = $pa + $pa;\n    return $va;\n}",
            "function pick($pc, $pd) {\n    $vc = $pc;\n    if ($pd > 2) {\n        $vc = twice($pd);\n    }\n    return $vc;\n}",
            "class Store {\n    public $held;\n    function __construct($hv) {\n        $this->held = $hv;\n    }\n    function fetch() {\n        return $this->held;\n    }\n}",
            "function main($tainted, $b, $c) {\n    $st = new Store($tainted);\n    $t1 = $st->fetch();\n    $t2 = pick($t1, $c);\n    $t3 = twice($t2) + $b;\n    sink($t3);\n    return $t3;\n}",
        ]),
    ], {"rename-local": ["va", "vc", "st", "t1", "t2", "t3"], "rename-param": ["pa", "pc", "pd", "hv"], "rename-function": ["twice", "pick"],
        "rename-class": ["Store"]}))
    T.append(_tpl("ts_service", "typescript", "service.ts", [
        ("defs", [
            "function twice(pa: number): number {\n    let va = pa + pa;\n    return va;\n}",
            "function pick(pc: number, pd: number): number {\n    let vc = pc;\n    if (pd > 2) {\n        vc = twice(pd);\n    }\n    return vc;\n}",
            "function shift(pb: number): number {\n    const vb = twice(pb) + 3;\n    return vb;\n}",
            "function main(tainted: number, b: number, c: number): number {\n    const t1 = shift(tainted);\n    const t2 = pick(t1, c);\n    const t3 = t2 + b;\n    sink(t3);\n    return t3;\n}",
        ]),
    ], {"rename-local": ["va", "vb", "vc", "t1", "t2", "t3"], "rename-param": ["pa", "pb", "pc", "pd"], "rename-function": ["twice", "pick", "shift"],
        "rename-class": []}))
    T.append(_tpl("js_closures", "javascript", "closures.js", [
        ("defs", [
            "function makeAdder(pa) {\n    function addTo(qa) {\n        return qa + pa;\n    }\n    return addTo;\n}",
            "function relay(pb) {\n    var adder = makeAdder(pb);\n    var vb = adder(2);\n    return vb;\n}",
            "function Box(pv) {\n    this.held = pv;\n}",
            "function main(tainted, b, c) {\n    var t1 = relay(tainted);\n    var bx = new Box(t1);\n    var t2 = bx.held + b;\n    sink(t2);\n    return t2;\n}",
        ]),
        ("fixed", "main(1, 2, 3);\n"),
    ], {"rename-local": ["adder", "vb", "t1", "t2", "bx"], "rename-param": ["pa", "qa", "pb", "pv"], "rename-function": ["makeAdder", "addTo", "relay"],
        "rename-class": ["Box"]}, runnable=True))
    return T


# ---------------------------------------------------------------------------------------------------
# corpus programs of the repo (inputs only)

CORPUS_DIRS = [
    ("python", "tests/dataflows/python"), ("java", "tests/dataflows/java"), ("python", "tests/control_flows"),
    ("java", "tests/control_flows"), ("python", "tests/import/python"), ("javascript", "tests/import/js"),
    ("php", "tests/import/php"), ("java", "tests/import/java"), ("python", "tests/state_flows"), ("python", "tests/type"),
    ("c", "tests/dataflows/c"), ("go", "tests/dataflows/go"), ("javascript", "tests/dataflows/javascript"),
    ("python", "tests/builtin_apis"), ("python", "tests/motivativing_examples"),
]
EXT = {"python": (".py",), "java": (".java",), "javascript": (".js",), "php": (".php",), "c": (".c",), "go": (".go",),
       "typescript": (".ts",)}


def corpus_files(repo):
    """Single-file corpus programs: [(lang, absolute path)] — sorted, small files only."""
    out = []
    for lang, d in CORPUS_DIRS:
        root = os.path.join(repo, d)
        if not os.path.isdir(root):
            continue
        for r, dn, fn in os.walk(root):
            dn.sort()
            for n in sorted(fn):
                p = os.path.join(r, n)
                if n.endswith(EXT[lang]) and os.path.isfile(p) and not os.path.islink(p) and os.path.getsize(p) < 12000:
                    out.append((lang, p))
    return out


def corpus_program(lang, path, repo):
    try:
        with open(path, "r", encoding="utf-8") as f:
            text = f.read()
    except (OSError, UnicodeDecodeError):
        return None
    if not text.strip() or "\r" in text or "\t" in text and lang == "python":
        return None
    rel = os.path.basename(path)
    return {"name": "corpus:" + os.path.relpath(path, repo), "lang": lang, "files": {rel: text}, "main": rel, "origin": "corpus",
            "runnable": False, "features": ["corpus"], "renamable": {}, "def_groups": []}


def corpus_dir_projects(repo):
    """Multi-file corpus projects (whole directories), edited in one of their files."""
    out = []
    for lang, d in (("python", "tests/import/python/test1"), ("python", "tests/import/python/test2"),
                    ("python", "tests/import/python/tests"), ("javascript", "tests/import/js"), ("php", "tests/import/php"),
                    ("java", "tests/import/java")):
        root = os.path.join(repo, d)
        if not os.path.isdir(root):
            continue
        files = {}
        for r, dn, fn in os.walk(root):
            dn.sort()
            for n in sorted(fn):
                p = os.path.join(r, n)
                if n.endswith(EXT[lang]) and os.path.isfile(p) and not os.path.islink(p):
                    try:
                        with open(p, encoding="utf-8") as f:
                            t = f.read()
                    except (OSError, UnicodeDecodeError):
                        continue
                    if "\r" in t:
                        continue
                    files[os.path.relpath(p, root)] = t
        if len(files) >= 2:
            out.append({"name": "corpusdir:" + d, "lang": lang, "files": files, "main": None, "origin": "corpus-dir",
                        "runnable": False, "features": ["corpus", "multi-file"], "renamable": {}, "def_groups": []})
    return out


# ---------------------------------------------------------------------------------------------------
# runtime oracles

def run_py_project(files, main_rel, entry="main", argvecs=((1, 2, 3),), budget=200000):
    """Executes the project's main module top level and then entry(*args) for every vector, in this process, with the
    other files importable as modules; `out` and `sink` are injected and record their arguments.
    -> [status, records, returns]"""
    import importlib.abc
    import importlib.util
    records = []

    def out(*a):
        records.append(("out",) + tuple(repr(x) for x in a))

    def sink(*a):
        records.append(("sink",) + tuple(repr(x) for x in a))

    mods = {}
    pkgs = set()
    for rel, text in files.items():
        if rel == main_rel or not rel.endswith(".py"):
            continue
        nm = rel[:-3].replace("/", ".")
        if nm.endswith(".__init__"):
            nm = nm[:-9]
            pkgs.add(nm)
        mods[nm] = (rel, text)
    prefix = "<c12:"

    class Finder(importlib.abc.MetaPathFinder, importlib.abc.Loader):
        def find_spec(self, fullname, path, target=None):
            if fullname in mods:
                return importlib.util.spec_from_loader(fullname, self, is_package=fullname in pkgs)
            return None

        def create_module(self, spec):
            return None

        def exec_module(self, module):
            rel, text = mods[module.__name__]
            module.__dict__["out"] = out
            module.__dict__["sink"] = sink
            exec(compile(text, prefix + rel + ">", "exec"), module.__dict__)

    steps = [0]

    class Budget(Exception):
        pass

    def tracer(frame, event, arg):
        if not frame.f_code.co_filename.startswith(prefix):
            return None
        if event == "line":
            steps[0] += 1
            if steps[0] > budget:
                raise Budget()
        return tracer
    finder = Finder()
    saved = {k: sys.modules.get(k) for k in mods}
    for k in mods:
        sys.modules.pop(k, None)
    sys.meta_path.insert(0, finder)
    old = sys.gettrace()
    rets = []
    status = "ok"
    try:
        sys.settrace(tracer)
        try:
            ns = {"out": out, "sink": sink, "__name__": "__c12__"}
            exec(compile(files[main_rel], prefix + main_rel + ">", "exec"), ns)
            if entry and entry in ns:
                for a in argvecs:
                    rets.append(repr(ns[entry](*a)))
        except Budget:
            status = "budget"
        except RecursionError:
            status = "raise:RecursionError"
        except BaseException as e:      # noqa
            status = "raise:" + type(e).__name__
    finally:
        sys.settrace(old)
        sys.meta_path.remove(finder)
        for k, v in saved.items():
            sys.modules.pop(k, None)
            if v is not None:
                sys.modules[k] = v
    return [status, [list(r) for r in records], rets]


JAVA_DRIVER = """
class C12Rt {
    static java.util.List<String> rec = new java.util.ArrayList<>();
    static void sink(Object o) { rec.add("sink " + o); }
    static void out(Object o) { rec.add("out " + o); }
}
class C12Drv {
    public static void main(String[] a) {
        Object r;
        try { r = %s; } catch (Throwable t) { r = "raise:" + t.getClass().getName(); }
        for (String s : C12Rt.rec) System.out.println(s);
        System.out.println("ret " + r);
    }
}
"""


def run_java_project(dirpath, files, driver, timeout=120):
    """Compiles (javac) and runs (java) a copy of the project in which the unqualified calls sink(...) / out(...) go to
    a recording class and a driver calls the entry. The copy is only used to confirm that an edit (a permutation of the
    top-level classes in particular) leaves a valid program with the same behaviour. -> [status, records, []]"""
    os.makedirs(dirpath, exist_ok=True)
    srcs = []
    for rel, text in files.items():
        if not rel.endswith(".java"):
            continue
        t = re.sub(r"(?<![A-Za-z0-9_.])sink\(", "C12Rt.sink(", text)
        t = re.sub(r"(?<![A-Za-z0-9_.])out\(", "C12Rt.out(", t)
        p = os.path.join(dirpath, os.path.basename(rel))
        with open(p, "w", encoding="utf-8") as f:
            f.write(t)
        srcs.append(p)
    dp = os.path.join(dirpath, "C12Drv.java")
    with open(dp, "w") as f:
        f.write(JAVA_DRIVER % driver["call"])
    srcs.append(dp)
    out_dir = os.path.join(dirpath, "cls")
    os.makedirs(out_dir, exist_ok=True)
    try:
        r = subprocess.run(["javac", "-nowarn", "-d", out_dir] + srcs, capture_output=True, text=True, timeout=timeout)
        if r.returncode != 0:
            return ["javac-rejected", [], [r.stderr[-300:]]]
        r = subprocess.run(["java", "-Xshare:auto", "-XX:TieredStopAtLevel=1", "-cp", out_dir, "C12Drv"], capture_output=True, text=True, timeout=timeout)
    except (OSError, subprocess.TimeoutExpired) as e:
        return ["harness:" + type(e).__name__, [], []]
    if r.returncode != 0:
        return ["java-exit:" + str(r.returncode), [], [r.stderr[-300:]]]
    return ["ok", r.stdout.strip().split("\n"), []]


NODE_PRELUDE = ("const __o=[];globalThis.out=(...a)=>{__o.push(['out',...a]);};globalThis.sink=(...a)=>{__o.push(['sink',...a]);};"
                "let __s='ok';try{require(process.argv[1]);}catch(e){__s='raise:'+(e&&e.constructor?e.constructor.name:'?');}"
                "console.log(JSON.stringify([__s,__o]));")


NODE_PRELUDE_ESM = ("const __o=[];globalThis.out=(...a)=>{__o.push(['out',...a]);};globalThis.sink=(...a)=>{__o.push(['sink',...a]);};"
                    "let __s='ok';try{await import(process.argv[1]);}catch(e){__s='raise:'+(e&&e.constructor?e.constructor.name:'?');}"
                    "console.log(JSON.stringify([__s,__o]));")


def run_node_project(dirpath, main_rel, timeout=60):
    """Runs main_rel under node with out/sink injected. A project that uses import/export statements is run as ES modules
    (a package.json with "type": "module" is put next to it — the directory must not be the one lian analyses)."""
    esm = False
    for r, dn, fn in os.walk(dirpath):
        for n in fn:
            if n.endswith(".js"):
                with open(os.path.join(r, n), encoding="utf-8") as f:
                    t = f.read()
                if any(l.startswith(("import ", "export ")) for l in t.split("\n")):
                    esm = True
    try:
        if esm:
            with open(os.path.join(dirpath, "package.json"), "w") as f:
                f.write('{"type": "module"}\n')
            cmd = ["node", "--input-type=module", "-e", NODE_PRELUDE_ESM, os.path.join(dirpath, main_rel)]
        else:
            cmd = ["node", "-e", NODE_PRELUDE, os.path.join(dirpath, main_rel)]
        r = subprocess.run(cmd, capture_output=True, text=True, timeout=timeout, cwd=dirpath)
    except (OSError, subprocess.TimeoutExpired) as e:
        return ["harness:" + type(e).__name__, [], []]
    if r.returncode != 0:
        return ["node-exit:" + str(r.returncode), [], [r.stderr[-300:]]]
    try:
        st, rec = json.loads(r.stdout.strip().splitlines()[-1])
    except (ValueError, IndexError):
        return ["harness:bad-output", [], []]
    return [st, rec, []]
