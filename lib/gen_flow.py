"""G-flow — data-flow / taint skeleton programs for C10 and C11 (Python).

A program is a set of *gadgets*.  A gadget is: one source site (call, method call, entry parameter, field read on a
local object, field read on self) -> a chain of 0..4 carriers drawn from {assign, op, param, ret, field, list, dict,
closure, global, tuple, cond} -> one sink site (call with the value at a rule-designated position, method call,
field write, dict-literal record write).  Gadgets are positive (the value really arrives) or carry exactly one
negative twist: a *broken carrier* that drops the value (unrelated variable / field / object / container, analysed
callee that returns a constant or its other parameter, overwritten variable), a sink-side twist (value at another
argument position, value only in the receiver, value under another key, sink name that merely contains the rule's
name), or a rule-side twist (source / sink name that no rule mentions, that only the extended rule set mentions, or
whose rule is restricted to another line / unit / language).  Gadgets live at module level (%unit_init), in entry
functions, or in entry methods; helper functions / classes can live in one or two further files (from-import or
module import).  All identifiers are unique per gadget except the rule names, which come from small pools so that
the same sink / source name recurs inside one method.

The generator never decides what a flow is: `taint_shim.run_dynamic` does (CPython), and `Closure` below computes
the deliberately loose flow-/context-insensitive dependence closure C11 uses as an upper bound.
"""
import ast
import random

from lib.monitors.taint_shim import Rule, RuleSet, ARG_TARGETS

CARRIERS = ("assign", "op", "param", "ret", "field", "list", "dict", "closure", "global", "tuple", "cond")
VARIANTS = {"assign": 2, "op": 7, "param": 8, "ret": 3, "field": 4, "list": 4, "dict": 3, "closure": 2, "global": 3,
            "tuple": 2, "cond": 3}
SOURCE_KINDS = ("call", "mcall", "param", "fread", "fread_this")
SINK_KINDS = ("call", "mcall", "fwrite", "rwrite")
BROKEN = ("unrelated-var", "unrelated-field", "unrelated-object", "other-container", "callee-drops", "callee-other-param", "killed")
SINK_TWISTS = ("wrong-pos", "tainted-receiver", "other-key", "near-miss-name")
RULE_MODES = ("base", "ext", "never", "multi", "decoy", "away:line", "away:unit", "away:path", "away:line+unit/L", "away:line+unit/U",
              "away:language", "away:operation", "ok:line", "ok:unit", "ok:path", "ok:line+unit")
RESTRICTIONS = ("away:line", "away:unit", "away:line+unit/L", "away:line+unit/U", "ok:line", "ok:unit", "ok:line+unit")
PATH_RESTRICTIONS = ("away:path", "ok:path")
# the matchers that read unit_path (parameter sources and call sinks have that filter commented out)
READS_UNIT_PATH = {("source", "call"), ("source", "mcall"), ("source", "fread"), ("source", "fread_this"),
                   ("sink", "mcall"), ("sink", "fwrite"), ("sink", "rwrite")}
SRCIN = ("r1@1", "r2f@1", "fvAT@1", "r2l@1", "pmAT@1", "r2e@1", "fvBE@1", "r2E@1", "pmBE@1", "r3m@1", "fvAE@1", "r2f@2", "pmAE@1",
         "r2l@2", "fvBT@1", "r1@2", "pmBT@1")
TARGET_LISTS = {"call": [["\\%arg0", "\\%arg2"], ["\\%arg1", "\\%arg2"], ["\\%arg0", "\\%arg1"], ["\\%arg2", "\\%arg0"]],
                "mcall": [["\\%receiver", "\\%arg1"], ["\\%arg0", "\\%arg1"], ["\\%arg1", "\\%receiver"]]}
# a first (or only) target that is no keyword of the format: it designates nothing
BAD_TARGET_LISTS = {"call": [["\\%bogus", "\\%arg1"], ["%arg0"], ["\\%arg0", "\\%bogus"]],
                    "mcall": [["\\%bogus", "\\%arg0"], ["%arg1"]]}


SCHEDULE = {
    "c11": ["pos", "broken:unrelated-var", "twist:wrong-pos", "pos", "broken:unrelated-field", "ext", "twist:tainted-receiver", "pos",
            "broken:unrelated-object", "never", "pos", "broken:other-container", "twist:other-key", "pos", "broken:callee-drops", "ext",
            "twist:near-miss-name", "pos", "broken:callee-other-param", "never", "pos", "broken:killed", "pos"],
    "c10": ["pos", "pos", "broken", "pos", "pos", "twist:wrong-pos", "pos", "pos", "ext", "pos", "pos", "broken", "pos", "pos", "never",
            "pos", "twist:tainted-receiver", "pos", "pos", "broken", "pos", "twist:other-key", "pos"],
}
LAYOUTS = ([0], [1], [0], [0, 1], [0], [1, 1], [0], [1, 2], [0], [0, 1, 2], [0], [1, 1, 2])


def restriction_combos():
    """Every (side, kind, restriction mode) the settings format offers, in a fixed order (cycled systematically)."""
    out = []
    for side, kinds in (("source", SOURCE_KINDS), ("sink", SINK_KINDS)):
        for kd in kinds:
            modes = list(RESTRICTIONS) + ["away:language"]
            if (side, kd) in READS_UNIT_PATH:
                modes += list(PATH_RESTRICTIONS)
            if (side, kd) in (("source", "param"), ("sink", "mcall")):
                modes.append("away:operation")
            for m in modes:
                out.append((side, kd, m))
    return out


COMBOS = restriction_combos()


def mode_active(mode, level):
    """Does a rule of this mode designate the gadget's own site under the given rule-set level?"""
    return mode in ("base", "multi") or mode.startswith("ok:") or (mode == "ext" and level == "extended")


def designated(g):
    """(argument positions, receiver?) the gadget's sink rule designates (call / method-call sinks)."""
    tl = g.get("targets")
    if not tl:
        return {g["pos"]}, False
    pos = {int(t[-1]) for t in tl if t.startswith("\\%arg") and t[-1].isdigit() and len(t) == 6}
    return pos, "\\%receiver" in tl
POS_LETTER = "abc"


class Body:
    """Lines of one block: (indent, text, tag)."""

    def __init__(self, indent=0):
        self.lines = []
        self.ind = indent

    def add(self, text, tag=None):
        self.lines.append((self.ind, text, tag))

    def sub(self):
        b = Body(self.ind + 1)
        b.lines = self.lines          # shares storage: nested block written in place
        return b


class Program:
    def __init__(self, pid):
        self.pid = pid
        self.names = [f"fm{pid}.py", f"fa{pid}.py", f"fb{pid}.py"]
        self.defs = {0: [], 1: [], 2: []}          # file index -> list of Body (helper blocks)
        self.imports = {0: [], 1: [], 2: []}
        self.top = Body(0)                         # %unit_init code of the main file
        self.entries = []                          # (kind, class name or None, function name, Body header lines)
        self.entry_blocks = []
        self.gadgets = []
        self.counter = 0
        self.files = {}
        self.main = self.names[0]

    def fresh(self, stem):
        self.counter += 1
        return f"{stem}{self.pid}x{self.counter}"

    def modname(self, fi):
        return self.names[fi][:-3]

    def ref(self, name, from_file, to_file, style):
        """How code in from_file names a helper defined in to_file."""
        if from_file == to_file:
            return name
        if style == "mod":
            imp = f"import {self.modname(to_file)}"
            if imp not in self.imports[from_file]:
                self.imports[from_file].append(imp)
            return f"{self.modname(to_file)}.{name}"
        imp = f"from {self.modname(to_file)} import {name}"
        if imp not in self.imports[from_file]:
            self.imports[from_file].append(imp)
        return name

    def assemble(self):
        at = {}
        used = [fi for fi in (0, 1, 2) if fi == 0 or self.defs[fi]]
        for fi in used:
            out = []

            def emit(body):
                for ind, text, tag in body.lines:
                    out.append("    " * ind + text)
                    if tag is not None:
                        for t in (tag if isinstance(tag, list) else [tag]):
                            at.setdefault(t, []).append((self.names[fi], len(out)))
            for imp in self.imports[fi]:
                out.append(imp)
            for b in self.defs[fi]:
                emit(b)
            if fi == 0:
                emit(self.top)
                for b in self.entry_blocks:
                    emit(b)
            if not out:
                out.append("pass")
            self.files[self.names[fi]] = "\n".join(out) + "\n"
        for g in self.gadgets:
            s = at.get(("src", g["gid"]))
            k = at.get(("snk", g["gid"]))
            g["src_at"] = list(s[0]) if s else None
            g["snk_at"] = list(k[0]) if k else None
        return self

    def to_case(self):
        return {"pid": self.pid, "files": self.files, "main": self.main,
                "entries": [list(e) for e in self.entries], "gadgets": self.gadgets}


# ---------------------------------------------------------------------------------------------------
# names

def source_name(g):
    """(rule operation, rule name, statement-level pieces) for the gadget's source."""
    m, i, gid = g["src_mode"], g["src_idx"], g.get("name_gid", g["gid"])
    suffix = {"base": str(i), "ext": f"X{i}", "never": f"N{i}"}.get(m, f"R{gid}")
    sk = g["sk"]
    if sk == "call":
        stem = "cleansrc" if m == "never" else "taintsrc"
        return "call_stmt", stem + suffix
    if sk == "mcall":
        return ("object_call", "object_call_stmt")[gid % 2], f"conn{suffix}.recvdata{suffix}"
    if sk == "param":
        if m == "away:operation":
            return "call_stmt", "preq" + suffix          # a call rule; the program has a parameter of that name
        return "parameter_decl", ("parg" if m == "never" else "preq") + suffix
    if sk == "fread":
        return "field_read", f"cfg{suffix}.secretfld{suffix}"
    return "field_read", f"%this.secretfld{suffix}"


def sink_name(g):
    m, i, gid = g["snk_mode"], g["snk_idx"], g.get("name_gid", g["gid"])
    suffix = {"base": str(i), "ext": f"X{i}", "never": f"N{i}", "multi": f"M{gid}"}.get(m, f"R{gid}")
    tk = g["tk"]
    if tk == "call":
        stem = "safesnk" if m == "never" else "dangersnk"
        return "call_stmt", stem + POS_LETTER[g["pos"]] + suffix
    if tk == "mcall":
        if m == "away:operation":
            return "call_stmt", f"dbh{suffix}.execq{POS_LETTER[g['pos']]}{suffix}"   # a call rule with a dotted name
        return ("object_call", "object_call_stmt")[(gid // 2) % 2], f"dbh{suffix}.execq{POS_LETTER[g['pos']]}{suffix}"
    if tk == "fwrite":
        return "field_write", f"outobj{suffix}.dangerfld{suffix}"
    return "record_write", f'"dangerkey{suffix}"'


# ---------------------------------------------------------------------------------------------------
# rendering

class Ctx:
    def __init__(self, prog, g, file, level, in_func, flagvar):
        self.prog, self.g, self.file, self.level, self.in_func, self.flagvar = prog, g, file, level, in_func, flagvar
        self.maybe_str = False

    def helper_file(self):
        lay = self.g["layout"]
        lvl = self.level + 1
        return lay[min(lvl, len(lay)) - 1] if lay else 0

    def child(self, file, in_func=True, keep_flag=False):
        c = Ctx(self.prog, self.g, file, self.level + 1, in_func, self.flagvar if keep_flag else None)
        c.maybe_str = self.maybe_str
        return c


def _const(prog):
    prog.counter += 1
    return f'"c{prog.counter}"'


def emit_source_stmt(g, prog, body, x, name, tag):
    sk = g["sk"]
    if sk == "call":
        body.add(f"{x} = {name}()", tag)
    elif sk == "mcall":
        recv, fld = name.split(".")
        body.add(f"{recv} = mkconn()")
        body.add(f"{x} = {recv}.{fld}()", tag)
    else:
        recv, fld = name.split(".")
        body.add(f"{recv} = mkcfg()")
        body.add(f"{x} = {recv}.{fld}", tag)


def emit_source_in_callee(ctx, body):
    """The source statement lives in a helper that hands the value back through one of 1..3 return statements
    (srcin = r<n><where>@<call levels>: f/l = tainted return first / last, e/E = if-else with the tainted return in the
    if / else arm, m = the middle one of three).  Nothing tainted enters the helper as an argument."""
    g, prog = ctx.g, ctx.prog
    kind, levels = g["srcin"].split("@")
    levels = int(levels)
    if kind[:2] in ("fv", "pm"):
        return emit_source_two_callees(ctx, body, kind)
    lay = g["layout"] or [0]
    f_outer = lay[0]
    f_inner = lay[min(levels, len(lay)) - 1]
    op, name = source_name(g)
    fn, fl, x = prog.fresh("hs"), prog.fresh("fl"), prog.fresh("v")
    b = Body()
    b.add(f"def {fn}({fl}):")
    b.ind = 1
    emit_source_stmt(g, prog, b, x, name, ("src", g["gid"]))
    if kind == "r1":
        b.add(f"return {x}")
    elif kind in ("r2f", "r2l"):
        b.add(f"if {fl}:")
        b.sub().add(f"return {x}" if kind == "r2f" else f"return {_const(prog)}")
        b.add(f"return {_const(prog)}" if kind == "r2f" else f"return {x}")
    elif kind in ("r2e", "r2E"):
        b.add(f"if {fl}:")
        b.sub().add(f"return {x}" if kind == "r2e" else f"return {_const(prog)}")
        b.add("else:")
        b.sub().add(f"return {_const(prog)}" if kind == "r2e" else f"return {x}")
    else:
        b.add(f"if {fl}:")
        b.sub().add(f"return {_const(prog)}")
        b.add(f"if not {fl}:")
        b.sub().add(f"return {x}")
        b.add(f"return {_const(prog)}")
    prog.defs[f_inner].append(b)
    callee, callee_file = fn, f_inner
    if levels == 2:
        fo, fl2, v = prog.fresh("hs"), prog.fresh("fl"), prog.fresh("v")
        b2 = Body()
        b2.add(f"def {fo}({fl2}):")
        b2.ind = 1
        b2.add(f"{v} = {prog.ref(fn, f_outer, f_inner, g['imp'])}({fl2})")
        b2.add(f"return {v}")
        prog.defs[f_outer].append(b2)
        callee, callee_file = fo, f_outer
    flv = ctx.flagvar
    if not ctx.in_func or flv is None:
        flv = prog.fresh("flag")
        body.add(f"{flv} = askflag()")
    y = prog.fresh("v")
    body.add(f"{y} = {prog.ref(callee, ctx.file, callee_file, g['imp'])}({flv})")
    ctx.maybe_str = True
    return y


def emit_source_two_callees(ctx, body, kind):
    """One call statement with two possible callees; only one of them produces (and returns) the source value.
    fv = a function value chosen in an if/else and then called; pm = a method call on a receiver that is an instance of one of
    two classes.  A/B = the producing callee is defined first / second; T/E = it is chosen in the if / else arm."""
    g, prog = ctx.g, ctx.prog
    lay = g["layout"] or [0]
    hf = lay[0]
    op, name = source_name(g)
    x = prog.fresh("v")
    tainted_first, in_if = kind[2] == "A", kind[3] == "T"
    blocks = []
    if kind[:2] == "fv":
        ft, fc = prog.fresh("hs"), prog.fresh("hs")
        bt = Body()
        bt.add(f"def {ft}():")
        bt.ind = 1
        emit_source_stmt(g, prog, bt, x, name, ("src", g["gid"]))
        bt.add(f"return {x}")
        bc = Body()
        bc.add(f"def {fc}():")
        bc.ind = 1
        bc.add(f"return {_const(prog)}")
        blocks = [bt, bc] if tainted_first else [bc, bt]
        vt, vc = prog.ref(ft, ctx.file, hf, g["imp"]), prog.ref(fc, ctx.file, hf, g["imp"])
    else:
        ct, cc, meth = prog.fresh("Pm"), prog.fresh("Pm"), prog.fresh("getp")
        bt = Body()
        bt.add(f"class {ct}:")
        bt.ind = 1
        bt.add(f"def {meth}(self):")
        bt.ind = 2
        emit_source_stmt(g, prog, bt, x, name, ("src", g["gid"]))
        bt.add(f"return {x}")
        bc = Body()
        bc.add(f"class {cc}:")
        bc.ind = 1
        bc.add(f"def {meth}(self):")
        bc.ind = 2
        bc.add(f"return {_const(prog)}")
        blocks = [bt, bc] if tainted_first else [bc, bt]
        vt, vc = prog.ref(ct, ctx.file, hf, g["imp"]) + "()", prog.ref(cc, ctx.file, hf, g["imp"]) + "()"
    for b in blocks:
        prog.defs[hf].append(b)
    flv = ctx.flagvar
    if not ctx.in_func or flv is None:
        flv = prog.fresh("flag")
        body.add(f"{flv} = askflag()")
    f, y = prog.fresh("fv"), prog.fresh("v")
    body.add(f"if {flv}:")
    body.sub().add(f"{f} = {vt if in_if else vc}")
    body.add("else:")
    body.sub().add(f"{f} = {vc if in_if else vt}")
    body.add(f"{y} = {f}()" if kind[:2] == "fv" else f"{y} = {f}.{meth}()")
    ctx.maybe_str = True
    return y


def emit_source(ctx, body, handler_params):
    g, prog = ctx.g, ctx.prog
    op, name = source_name(g)
    tag = ("src", g["gid"])
    x = prog.fresh("v")
    sk = g["sk"]
    if g.get("srcin") and sk in ("call", "mcall", "fread"):
        return emit_source_in_callee(ctx, body)
    if sk == "param" and g.get("param_in_helper"):
        # decoy: a parameter of that name in a helper of another file, fed with an untainted value by its caller
        ctx.force_param = (name, tag)
        body.add(f"{x} = cleansrcN9()")
        return x
    if sk == "call":
        body.add(f"{x} = {name}()", tag)
    elif sk == "mcall":
        recv, fld = name.split(".")
        body.add(f"{recv} = mkconn()")
        body.add(f"{x} = {recv}.{fld}()", tag)
    elif sk == "param":
        handler_params.append((name, tag))
        body.add(f"{x} = {name}")
    elif sk == "fread":
        recv, fld = name.split(".")
        body.add(f"{recv} = mkcfg()")
        body.add(f"{x} = {recv}.{fld}", tag)
    else:
        body.add(f"{x} = self.{name.split('.')[1]}", tag)
    return x


def emit_sink(ctx, body, x):
    g, prog = ctx.g, ctx.prog
    op, name = sink_name(g)
    tag = ("snk", g["gid"])
    tw = g["twist"]
    tk = g["tk"]
    if tk in ("call", "mcall"):
        dpos, drecv = designated(g)
        n_args = max(list(dpos) + [g["pos"], 1 if tw == "wrong-pos" else 0]) + 1
        put = g.get("put", g["pos"])
        if tw == "wrong-pos":
            other = [q for q in range(max(n_args, 2)) if q not in dpos]
            if not other:
                other = [max(dpos) + 1]
            put = other[g["gid"] % len(other)]
            n_args = max(n_args, put + 1)
        if tw == "tainted-receiver":
            put = "recv"
        args = [x if q == put else _const(prog) for q in range(n_args)]
        if tk == "call":
            if g.get("pre_call"):
                # an earlier call of the same sink function in the same body, with constants only: the real sink statement is
                # then a second call of that name (matched by the statement's name, not through a state)
                body.add(f"{name}({', '.join(_const(prog) for _ in args)})")
            body.add(f"{name}({', '.join(args)})", tag)
        else:
            recv, fld = name.split(".")
            body.add(f"{recv} = mkdb()")
            if put == "recv":
                body.add(f"{recv}.otherfld{g['gid']} = {x}")
            body.add(f"{recv}.{fld}({', '.join(args)})", tag)
    elif tk == "fwrite":
        recv, fld = name.split(".")
        body.add(f"{recv} = mkout()")
        if tw == "tainted-receiver":
            body.add(f"{recv}.otherfld{g['gid']} = {x}")
            body.add(f"{recv}.{fld} = {_const(prog)}", tag)
        elif tw == "near-miss-name":
            body.add(f"{recv}.{fld}zz = {x}", tag)
        else:
            body.add(f"{recv}.{fld} = {x}", tag)
    else:
        r = prog.fresh("r")
        if tw == "other-key":
            body.add(f'{r} = {{"otherkey{g["gid"]}": {x}, {name}: {_const(prog)}}}', tag)
        else:
            body.add(f"{r} = {{{name}: {x}}}", tag)


def emit_broken(ctx, body, kind, x):
    """A carrier look-alike that drops the value.  Returns the variable that continues the chain."""
    prog, g = ctx.prog, ctx.g
    y = prog.fresh("v")
    ctx.maybe_str = True
    if kind == "unrelated-var":
        z = prog.fresh("u")
        body.add(f"{z} = {x}")
        body.add(f"{y} = {_const(prog)}")
    elif kind == "killed":
        body.add(f"{y} = {x}")
        body.add(f"{y} = {_const(prog)}")
    elif kind in ("unrelated-field", "unrelated-object"):
        hf = ctx.helper_file()
        cls = prog.fresh("Box")
        fa, fb = prog.fresh("fa"), prog.fresh("fb")
        b = Body()
        b.add(f"class {cls}:")
        b.ind = 1
        b.add("def __init__(self):")
        b.ind = 2
        b.add(f"self.{fa} = {_const(prog)}")
        b.add(f"self.{fb} = {_const(prog)}")
        prog.defs[hf].append(b)
        o = prog.fresh("o")
        ref = prog.ref(cls, ctx.file, hf, g["imp"])
        body.add(f"{o} = {ref}()")
        body.add(f"{o}.{fa} = {x}")
        if kind == "unrelated-field":
            body.add(f"{y} = {o}.{fb}")
        else:
            cls2 = prog.fresh("Box")
            fc = prog.fresh("fc")
            b2 = Body()
            b2.add(f"class {cls2}:")
            b2.ind = 1
            b2.add("def __init__(self):")
            b2.ind = 2
            b2.add(f"self.{fc} = {_const(prog)}")
            prog.defs[hf].append(b2)
            o2 = prog.fresh("o")
            ref2 = prog.ref(cls2, ctx.file, hf, g["imp"])
            body.add(f"{o2} = {ref2}()")
            body.add(f"{y} = {o2}.{fc}")
    elif kind == "other-container":
        l1, l2 = prog.fresh("l"), prog.fresh("l")
        body.add(f"{l1} = [{x}]")
        body.add(f"{l2} = [{_const(prog)}]")
        body.add(f"{y} = {l2}[0]")
    elif kind in ("callee-drops", "callee-other-param"):
        hf = ctx.helper_file()
        fn = prog.fresh("hf")
        p, q = prog.fresh("p"), prog.fresh("p")
        b = Body()
        if kind == "callee-drops":
            b.add(f"def {fn}({p}):")
            b.ind = 1
            b.add(f"return {_const(prog)}")
            prog.defs[hf].append(b)
            body.add(f"{y} = {prog.ref(fn, ctx.file, hf, g['imp'])}({x})")
        else:
            b.add(f"def {fn}({p}, {q}):")
            b.ind = 1
            b.add(f"return {p}")
            prog.defs[hf].append(b)
            body.add(f"{y} = {prog.ref(fn, ctx.file, hf, g['imp'])}({_const(prog)}, {x})")
    else:
        raise ValueError(kind)
    return y


def emit_chain(ctx, body, chain, x):
    """Render carriers from `chain` starting with the value in variable x, then the sink."""
    prog, g = ctx.prog, ctx.g
    if not chain:
        emit_sink(ctx, body, x)
        return
    (c, var), rest = chain[0], chain[1:]
    if c == "broken":
        y = emit_broken(ctx, body, var, x)
        emit_chain(ctx, body, rest, y)
        return
    var = var % VARIANTS[c]
    y = prog.fresh("v")
    if c == "assign":
        if var == 0:
            body.add(f"{y} = {x}")
        else:
            z = prog.fresh("v")
            body.add(f"{z} = {x}")
            body.add(f"{y} = {z}")
    elif c == "op":
        if ctx.maybe_str and var in (3, 4, 5):
            var = var % 3
        if var == 6:
            # a variable re-defined from itself, then copied, then derived through the copy
            w, w2 = prog.fresh("v"), prog.fresh("v")
            body.add(f"{w} = {x}")
            body.add(f"{w} = {w} + {_const(prog)}")
            body.add(f"{w2} = {w}")
            body.add(f"{y} = {w2} + {_const(prog)}")
        elif var == 0:
            body.add(f"{y} = {x} + {_const(prog)}")
        elif var == 1:
            body.add(f"{y} = {_const(prog)} + {x}")
        elif var == 2:
            body.add(f"{y} = {x} * 2")
        elif var == 3:
            body.add(f"{y} = {x} - 1")
        elif var == 4:
            body.add(f"{y} = {x} % 7")
        else:
            body.add(f"{y} = -{x}")
    elif c == "param":
        hf = ctx.helper_file()
        fn = prog.fresh("hf")
        p = prog.fresh("p")
        b = Body()
        sub = ctx.child(hf)
        forced = getattr(ctx, "force_param", None)
        if forced:
            p, ptag = forced
            ctx.force_param = None
            b.add(f"def {fn}({p}):", ptag)
            call = f"({x})"
        elif var == 0:
            b.add(f"def {fn}({p}):")
            call = f"({x})"
        elif var == 1:
            b.add(f"def {fn}({prog.fresh('p')}, {p}):")
            call = f"({_const(prog)}, {x})"
        elif var == 2:
            b.add(f"def {fn}({p}, {prog.fresh('p')}={_const(prog)}):")
            call = f"({p}={x})"
        else:
            # several keyword arguments, written in sorted (4) or non-alphabetical (3, 5, 6, 7) order, after a positional one;
            # on a function (3-5), a method (6) or a constructor (7); the chain goes on inside the callee on the parameter
            # that really receives the value
            prog.counter += 1
            n = prog.counter
            pa, kb, kc = f"pa{prog.pid}x{n}", f"kb{prog.pid}x{n}", f"kc{prog.pid}x{n}"
            if var == 4:
                kws, p = f"{kb}={_const(prog)}, {kc}={x}", kc
            elif var == 5:
                kws, p = f"{kc}={_const(prog)}, {kb}={x}", kb
            else:
                kws, p = f"{kc}={x}, {kb}={_const(prog)}", kc
            if var in (3, 4, 5):
                b.add(f"def {fn}({pa}, {kb}, {kc}):")
                call = f"({_const(prog)}, {kws})"
            else:
                cls = prog.fresh("Kw")
                b.add(f"class {cls}:")
                b.ind = 1
                if var == 6:
                    b.add(f"def {fn}(self, {pa}, {kb}, {kc}):")
                else:
                    b.add(f"def __init__(self, {pa}, {kb}, {kc}):")
                b.ind = 2
                emit_chain(sub, b, rest, p)
                prog.defs[hf].append(b)
                ref = prog.ref(cls, ctx.file, hf, g["imp"])
                o = prog.fresh("o")
                if var == 6:
                    body.add(f"{o} = {ref}()")
                    body.add(f"{o}.{fn}({_const(prog)}, {kws})")
                else:
                    body.add(f"{o} = {ref}({_const(prog)}, {kws})")
                return
        b.ind = 1
        emit_chain(sub, b, rest, p)
        prog.defs[hf].append(b)
        body.add(f"{prog.ref(fn, ctx.file, hf, g['imp'])}{call}")
        return
    elif c == "ret":
        hf = ctx.helper_file()
        fn = prog.fresh("hf")
        p = prog.fresh("p")
        b = Body()
        if var == 0:
            b.add(f"def {fn}({p}):")
            b.ind = 1
            b.add(f"return {p}")
            call = f"({x})"
        elif var == 1:
            q = prog.fresh("v")
            b.add(f"def {fn}({p}):")
            b.ind = 1
            b.add(f"{q} = {p}")
            b.add(f"return {q}")
            call = f"({x})"
        else:
            b.add(f"def {fn}({prog.fresh('p')}, {p}):")
            b.ind = 1
            b.add(f"return {p}")
            call = f"({_const(prog)}, {x})"
        prog.defs[hf].append(b)
        body.add(f"{y} = {prog.ref(fn, ctx.file, hf, g['imp'])}{call}")
    elif c == "field":
        hf = ctx.helper_file()
        cls = prog.fresh("Box")
        f = prog.fresh("fld")
        o = prog.fresh("o")
        b = Body()
        b.add(f"class {cls}:")
        b.ind = 1
        if var in (0, 3):
            b.add("def __init__(self):")
            b.ind = 2
            b.add(f"self.{f} = {_const(prog)}")
        else:
            p = prog.fresh("p")
            b.add(f"def __init__(self, {p}):")
            b.ind = 2
            b.add(f"self.{f} = {p}")
        b.ind = 1
        getter = prog.fresh("getv")
        setter = prog.fresh("setv")
        if var == 2:
            b.add(f"def {getter}(self):")
            b.ind = 2
            b.add(f"return self.{f}")
        if var == 3:
            p = prog.fresh("p")
            b.add(f"def {setter}(self, {p}):")
            b.ind = 2
            b.add(f"self.{f} = {p}")
        prog.defs[hf].append(b)
        ref = prog.ref(cls, ctx.file, hf, g["imp"])
        if var == 0:
            body.add(f"{o} = {ref}()")
            body.add(f"{o}.{f} = {x}")
            body.add(f"{y} = {o}.{f}")
        elif var == 1:
            body.add(f"{o} = {ref}({x})")
            body.add(f"{y} = {o}.{f}")
        elif var == 2:
            body.add(f"{o} = {ref}({x})")
            body.add(f"{y} = {o}.{getter}()")
        else:
            body.add(f"{o} = {ref}()")
            body.add(f"{o}.{setter}({x})")
            body.add(f"{y} = {o}.{f}")
    elif c == "list":
        l = prog.fresh("l")
        if var == 0:
            body.add(f"{l} = [{_const(prog)}, {x}]")
            body.add(f"{y} = {l}[1]")
        elif var == 1:
            body.add(f"{l} = [{_const(prog)}]")
            body.add(f"{l}[0] = {x}")
            body.add(f"{y} = {l}[0]")
        elif var == 2:
            body.add(f"{l} = []")
            body.add(f"{l}.append({x})")
            body.add(f"{y} = {l}[0]")
        else:
            e = prog.fresh("e")
            body.add(f"{l} = [{x}]")
            body.add(f"{y} = {_const(prog)}")
            body.add(f"for {e} in {l}:")
            body.sub().add(f"{y} = {e}")
    elif c == "dict":
        d = prog.fresh("d")
        k = f'"k{prog.counter}"'
        if var == 0:
            body.add(f"{d} = {{{k}: {x}}}")
            body.add(f"{y} = {d}[{k}]")
        elif var == 1:
            body.add(f"{d} = {{}}")
            body.add(f"{d}[{k}] = {x}")
            body.add(f"{y} = {d}[{k}]")
        else:
            body.add(f"{d} = {{{k}: {x}}}")
            body.add(f"{y} = {d}.get({k})")
    elif c == "closure":
        inner = prog.fresh("inner")
        if var == 0 or not rest:
            body.add(f"def {inner}():")
            body.sub().add(f"return {x}")
            body.add(f"{y} = {inner}()")
        else:
            body.add(f"def {inner}():")
            sub = ctx.child(ctx.file, keep_flag=True)
            sub.level = ctx.level        # a nested def is not a helper level
            emit_chain(sub, body.sub(), rest, x)
            body.add(f"{inner}()")
            return
    elif c == "global":
        # the global and its accessors live in the file of the code that uses the bare name
        gv = prog.fresh("G")
        setter, getter = prog.fresh("setg"), prog.fresh("getg")
        if var == 2:
            hf = ctx.helper_file()
        else:
            hf = ctx.file
        b = Body()
        b.add(f"{gv} = {_const(prog)}")
        if var in (1, 2):
            p = prog.fresh("p")
            b.add(f"def {setter}({p}):")
            b.ind = 1
            b.add(f"global {gv}")
            b.add(f"{gv} = {p}")
            b.ind = 0
        if var in (0, 2):
            b.add(f"def {getter}():")
            b.ind = 1
            b.add(f"return {gv}")
            b.ind = 0
        prog.defs[hf].append(b)
        if var == 0:
            if ctx.in_func:
                body.add(f"global {gv}")
            body.add(f"{gv} = {x}")
            body.add(f"{y} = {getter}()")
        elif var == 1:
            body.add(f"{setter}({x})")
            body.add(f"{y} = {gv}")
        else:
            body.add(f"{prog.ref(setter, ctx.file, hf, g['imp'])}({x})")
            body.add(f"{y} = {prog.ref(getter, ctx.file, hf, g['imp'])}()")
    elif c == "tuple":
        z = prog.fresh("v")
        if var == 0:
            body.add(f"{y}, {z} = {x}, {_const(prog)}")
        else:
            t = prog.fresh("t")
            body.add(f"{t} = ({_const(prog)}, {x})")
            body.add(f"{z}, {y} = {t}")
    elif c == "cond":
        if g.get("srcin"):
            var = 0          # the callee's own flag already decides whether the value comes back; keep both arms carrying it
        fl = ctx.flagvar
        if not ctx.in_func or fl is None:
            fl = prog.fresh("flag")
            body.add(f"{fl} = askflag()")
        if var == 0:
            body.add(f"if {fl}:")
            body.sub().add(f"{y} = {x}")
            body.add("else:")
            body.sub().add(f"{y} = {x} + {_const(prog)}")
        elif var == 1:
            body.add(f"{y} = {x} if {fl} else {_const(prog)}")
            ctx.maybe_str = True
        else:
            body.add(f"{y} = {_const(prog)}")
            body.add(f"if {fl}:")
            body.sub().add(f"{y} = {x}")
            ctx.maybe_str = True
    else:
        raise ValueError(c)
    emit_chain(ctx, body, rest, y)


# ---------------------------------------------------------------------------------------------------
# program generation

def make_gadget(rng, gid, k, profile, force=None):
    """k: a running index used to cycle systematically through source kind x sink kind x first carrier."""
    sk = SOURCE_KINDS[k % 5]
    tk = SINK_KINDS[(k // 5) % 4]
    n = rng.choice([0, 1, 1, 1, 2, 2, 3, 4])
    chain = []
    first = CARRIERS[(k // 20) % 11]
    for i in range(n):
        c = first if i == 0 else rng.choice(CARRIERS)
        chain.append([c, rng.randrange(8)])
    g = {"gid": gid, "sk": sk, "tk": tk, "pos": 0, "chain": chain, "twist": None, "src_mode": "base", "snk_mode": "base",
         "src_idx": rng.randrange(2), "snk_idx": rng.randrange(2), "imp": rng.choice(["from", "from", "mod"]), "layout": []}
    if tk == "call":
        g["pos"] = rng.choice([0, 0, 1, 2])
    elif tk == "mcall":
        g["pos"] = rng.choice([0, 0, 1])
    # negatives: stratified, not drawn — the kind of every gadget follows a fixed schedule over the running index (period 23, coprime
    # to the other cycles), so that every negative kind occurs in every run whatever the seed
    slot = SCHEDULE[profile][k % 23]
    cyc = k // 23
    if slot == "broken":
        slot = "broken:" + BROKEN[cyc % len(BROKEN)]
    if slot.startswith("broken:"):
        chain.insert(rng.randrange(len(chain) + 1), ["broken", slot[7:]])
    elif slot.startswith("twist:"):
        tw = slot[6:]
        kinds = {"wrong-pos": ["call", "mcall"], "tainted-receiver": ["mcall", "fwrite"], "near-miss-name": ["fwrite"], "other-key": ["rwrite"]}[tw]
        g["tk"] = tk = kinds[cyc % len(kinds)]
        g["pos"] = g["pos"] if tk in ("call", "mcall") and g["pos"] < (3 if tk == "call" else 2) else 0
        g["twist"] = tw
    elif slot in ("ext", "never"):
        g[("src_mode", "snk_mode")[cyc % 2]] = slot
    # layout: helper level -> file index, non-decreasing (cycled as well)
    g["layout"] = list(LAYOUTS[(k // 2) % len(LAYOUTS)])
    g["imp"] = ("from", "mod", "from")[(k // 4) % 3]
    # scheduled, not drawn: every sixth gadget carries the "self-redefinition, copy, operator" carrier (op.6), its place in the chain
    # cycles (before / after the other carriers, hence in entry functions, at module level and inside helpers)
    if k % 6 == 2:
        chain.insert((k // 6) % (len(chain) + 1), ["op", 6])
    if g["tk"] == "call" and k % 3 != 0:
        g["pre_call"] = True
    # systematically: every `every`-th gadget carries a restricted rule, cycling through all (side, kind, mode) combinations
    every = 5 if profile == "c10" else 3
    if k % every == 0:
        side, kd, mode = COMBOS[(k // every) % len(COMBOS)]
        g["twist"], g["src_mode"], g["snk_mode"] = None, "base", "base"
        if True:
            if side == "source":
                g["sk"], g["src_mode"] = kd, mode
            else:
                g["tk"], g["snk_mode"] = kd, mode
                g["pos"] = g["pos"] if kd in ("call", "mcall") and g["pos"] < (3 if kd == "call" else 2) else 0
            g["restricted"] = f"{side}:{kd}:{mode}"
            g["chain"] = [c for c in g["chain"] if c[0] != "broken"]
            if "unit" in mode or "path" in mode:
                # the restricted site stays in the main file; its decoy goes to another file
                if side == "sink":
                    g["chain"] = [c for c in g["chain"] if c[0] not in ("param", "closure")]
    # the source statement inside a callee with 1..3 return statements (nothing tainted enters the callee)
    elif g["sk"] in ("call", "mcall", "fread") and k % 4 == 1:
        g["srcin"] = SRCIN[(k // 4) % len(SRCIN)]
    # sink rules with several targets / with a first target that is no keyword
    elif g["tk"] in ("call", "mcall") and g["twist"] in (None, "wrong-pos") and g["snk_mode"] == "base" and k % 7 == 3:
        bad = (k // 7) % 5 == 4
        pool = (BAD_TARGET_LISTS if bad else TARGET_LISTS)[g["tk"]]
        g["targets"] = list(pool[(k // 7) % len(pool)])
        g["snk_mode"] = "multi"
        dpos, drecv = designated(g)
        choices = sorted(dpos) + (["recv"] if drecv else [])
        if choices and g["twist"] is None:
            g["put"] = choices[(k // 7) % len(choices)]
            g["pos"] = g["put"] if isinstance(g["put"], int) else (min(dpos) if dpos else 0)
        else:
            g["twist"] = "wrong-pos" if dpos or not drecv else None
            g["pos"] = min(dpos) if dpos else 0
            if not dpos and not drecv:
                g["twist"] = None           # nothing is designated at all: any position is a negative
                g["put"] = 0
        g["bad_target"] = bad
    if force:
        g.update(force)
    return g


def make_decoy(g, gid):
    """A same-named site elsewhere that the restriction of g's 'ok:*' rule must exclude (other line; other file for unit /
    path restrictions).  It reaches a base sink (source decoys) / is fed by a base source (sink decoys) and has no rule of its own."""
    r = g.get("restricted")
    if not r:
        return None
    side, kd, mode = r.split(":", 2)
    if not mode.startswith("ok:"):
        return None
    other_file = "unit" in mode and "line" not in mode or "path" in mode
    d = {"gid": gid, "sk": "call", "tk": "call", "pos": 0, "chain": [], "twist": None, "src_mode": "base", "snk_mode": "base",
         "src_idx": 0, "snk_idx": 0, "imp": "from", "layout": [0], "decoy_of": g["gid"], "name_gid": g.get("name_gid", g["gid"]),
         "own_entry": True}
    if side == "source":
        d["sk"], d["src_mode"], d["src_idx"] = kd, "decoy", g["src_idx"]
        if kd == "fread_this":
            if other_file:
                return None
        elif kd == "param":
            if other_file:
                d.update(param_in_helper=True, chain=[["param", 0]], layout=[1])
        else:
            if other_file:
                if g.get("srcin"):
                    return None
                d.update(srcin="r1@1", layout=[1])
    else:
        d["tk"], d["snk_mode"], d["snk_idx"], d["pos"] = kd, "decoy", g["snk_idx"], g["pos"]
        if g.get("targets"):
            d["targets"] = g["targets"]
        d["sk"] = "mcall"
        if other_file:
            d.update(chain=[["param", 0]], layout=[1])
    return d


def gadget_place(g, rng):
    if g["sk"] == "fread_this":
        return "method"
    if g["sk"] == "param":
        return "func"
    # closures (before any callee) and the flag parameter need a function scope; otherwise mix
    pre = []
    for c, _ in g["chain"]:
        if c == "param":
            break
        pre.append(c)
    if "closure" in pre:
        return "func"
    return rng.choice(["top", "func", "func"])


def build_program(pid, gadgets, rng):
    """Render the gadget specs into files.  Gadgets are grouped into entry functions / methods of 1..3 gadgets."""
    prog = Program(pid)
    groups = {"top": [], "func": [], "method": []}
    for g in gadgets:
        g["place"] = g.get("place") or gadget_place(g, rng)
        groups[g["place"]].append(g)
        prog.gadgets.append(g)
    for g in groups["top"]:
        ctx = Ctx(prog, g, 0, 0, False, None)
        x = emit_source(ctx, prog.top, [])
        emit_chain(ctx, prog.top, [tuple(c) for c in g["chain"]], x)
    for kind in ("func", "method"):
        lst = groups[kind]
        i = 0
        while i < len(lst):
            n = rng.choice([1, 1, 2, 3])
            if lst[i].get("own_entry"):
                n = 1
            else:
                for j in range(1, n):
                    if i + j < len(lst) and lst[i + j].get("own_entry"):
                        n = j
                        break
            part = lst[i:i + n]
            i += n
            hname = prog.fresh("handler" if kind == "func" else "mhandler")
            params = []
            body = Body(1 if kind == "func" else 2)
            for g in part:
                ctx = Ctx(prog, g, 0, 0, True, "flag")
                ctx.maybe_str = g["sk"] == "fread_this"      # the field is initialised with a string constant
                x = emit_source(ctx, body, params)
                emit_chain(ctx, body, [tuple(c) for c in g["chain"]], x)
            pnames, tags = [], []
            for nm, tag in params:
                if nm not in pnames:
                    pnames.append(nm)
                tags.append(tag)
            blk = Body(0)
            if kind == "func":
                blk.add(f"def {hname}({', '.join(pnames + ['flag'])}):", tags or None)
                prog.entries.append(("func", None, hname))
            else:
                cls = prog.fresh("Kls")
                blk.add(f"class {cls}:")
                blk.ind = 1
                blk.add("def __init__(self):")
                blk.ind = 2
                blk.add(f"self.plain{pid} = {_const(prog)}")
                for g in part:
                    if g["sk"] == "fread_this":
                        blk.add(f"self.{source_name(g)[1].split('.')[1]} = {_const(prog)}")
                blk.ind = 1
                blk.add(f"def {hname}({', '.join(['self'] + pnames + ['flag'])}):", tags or None)
                prog.entries.append(("method", cls, hname))
            blk.lines.extend(body.lines)
            prog.entry_blocks.append(blk)
    return prog.assemble()


def generate(seed, pid, n_gadgets, profile="c10", k0=0):
    rng = random.Random(seed)
    gadgets = [make_gadget(rng, i, k0 + i, profile) for i in range(n_gadgets)]
    for g in list(gadgets):
        if g.get("restricted") and g["sk"] == "param" and g["restricted"].startswith("source"):
            g["own_entry"] = True
        d = make_decoy(g, len(gadgets))
        if d is not None:
            gadgets.append(d)
    return build_program(pid, gadgets, rng).to_case()


def render_single(pid, g, chain=None):
    """The same gadget alone in a program, optionally with a sub-chain (mechanism attribution)."""
    g2 = dict(g)
    g2["gid"] = 0
    if chain is not None:
        g2["chain"] = [list(c) for c in chain]
    g2.pop("src_at", None)
    g2.pop("snk_at", None)
    return build_program(pid, [g2], random.Random(0)).to_case()


# ---------------------------------------------------------------------------------------------------
# rule sets

def rules_for(case, level):
    """level: 'minimal' | 'extended' | 'no-sources' | 'no-sinks' | 'no-rules'.  Restricted rules ('away:*' never apply,
    'ok:*' apply exactly at the gadget's site) are part of minimal and extended alike; 'ext' names only of extended.
    Extended also carries rules whose names occur nowhere in the program."""
    rules, seen = [], set()
    other_unit = "zz_other_unit.py"

    def add(r):
        k = (r.side, r.operation, r.name, r.key, tuple(r.target or ()), r.lang, r.unit_name, r.line_num, r.unit_path)
        if k not in seen:
            seen.add(k)
            rules.append(r)
    for g in case["gadgets"]:
        for side in ("source", "sink"):
            mode = g["src_mode" if side == "source" else "snk_mode"]
            op, name = source_name(g) if side == "source" else sink_name(g)
            at = g.get("src_at" if side == "source" else "snk_at")
            if mode in ("never", "decoy") or (mode == "ext" and level != "extended"):
                continue
            if level == "no-rules" or (level == "no-sources" and side == "source") or (level == "no-sinks" and side == "sink"):
                continue
            kw = {}
            if mode.startswith(("away", "ok")) and at is None:
                continue
            if mode.startswith(("away", "ok")) and at is not None:
                others = sorted(fn for fn in case["files"] if fn != at[0])
                other_unit = others[g["gid"] % len(others)] if others and g["gid"] % 2 else "zz_other_unit.py"
            if mode == "away:line":
                kw["line_num"] = at[1] + 1
            elif mode == "away:unit":
                kw["unit_name"] = other_unit
            elif mode == "away:path":
                kw["unit_path"] = other_unit
            elif mode == "away:line+unit/L":
                kw["line_num"], kw["unit_name"] = at[1] + 1, at[0]
            elif mode == "away:line+unit/U":
                kw["line_num"], kw["unit_name"] = at[1], other_unit
            elif mode == "away:language":
                # other languages, and names that merely CONTAIN "python" (a group is selected by its exact language name)
                kw["lang"] = ("java", "python_legacy", "javascript", "xpython", "python3", "c")[g["gid"] % 6]
            elif mode == "away:operation":
                pass
            elif mode == "ok:line":
                kw["line_num"] = at[1]
            elif mode == "ok:unit":
                kw["unit_name"] = at[0]
            elif mode == "ok:path":
                kw["unit_path"] = at[0]
            elif mode == "ok:line+unit":
                kw["line_num"], kw["unit_name"] = at[1], at[0]
            if side == "source":
                add(Rule("source", op, name=name, **kw))
            else:
                tk = g["tk"]
                if tk in ("call", "mcall"):
                    tgt = list(g["targets"]) if g.get("targets") else ["\\%arg" + str(g["pos"])]
                elif tk == "fwrite":
                    tgt = ["\\%target"]
                else:
                    tgt = []
                if tk == "rwrite":
                    add(Rule("sink", op, key=name, target=tgt, **kw))
                else:
                    add(Rule("sink", op, name=name, target=tgt, **kw))
    if level == "extended":
        # rules that match nothing: some are listed BEFORE the program's own rules, some in between, some after them
        pid = case["pid"]
        own, rules = rules, []
        seen.clear()
        first = [Rule("sink", "call_stmt", name=f"nowhere_snk{pid}", target=["\\%arg0"]),
                 Rule("source", "call_stmt", name=f"nowhere_src{pid}"),
                 Rule("sink", "object_call", name=f"nowhere{pid}.exec", target=["\\%arg1"]),
                 Rule("source", "parameter_decl", name=f"nowhere_param{pid}"),
                 Rule("source", "field_read", name=f"nowhere{pid}.fld")]
        between = [Rule("sink", "call_stmt", name=f"nowhere_snkB{pid}", target=["\\%arg1"]),
                   Rule("source", "object_call", name=f"nowhere{pid}.recv"),
                   Rule("sink", "field_write", name=f"nowhere{pid}.wfld", target=["\\%target"]),
                   Rule("source", "call_stmt", name=f"nowhere_srcB{pid}"),
                   Rule("sink", "record_write", key=f'"nowherekey{pid}"', target=[])]
        for r in first:
            add(r)
        for i, r in enumerate(own):
            add(r)
            if i % 2 == 1 and between:
                add(between.pop(0))
        for r in between:
            add(r)
    return RuleSet(rules)


# ---------------------------------------------------------------------------------------------------
# the loose dependence closure (C11 ii)

_KNOWN_NODES = (
    ast.Module, ast.FunctionDef, ast.ClassDef, ast.Return, ast.Assign, ast.AugAssign, ast.For, ast.If, ast.Expr, ast.Pass,
    ast.Global, ast.Nonlocal, ast.Import, ast.ImportFrom, ast.alias, ast.arguments, ast.arg, ast.keyword,
    ast.BinOp, ast.UnaryOp, ast.BoolOp, ast.Compare, ast.IfExp, ast.Call, ast.Constant, ast.Attribute, ast.Subscript, ast.Name,
    ast.List, ast.Tuple, ast.Dict, ast.Set, ast.Load, ast.Store, ast.operator, ast.unaryop, ast.boolop, ast.cmpop, ast.expr_context,
)


class Closure:
    """Flow-insensitive, context-insensitive, name- / field-name- / container-based dependence closure.

    Locations: var:<name> (one per identifier, no scoping), fld:<field name> (one per field name, all objects),
    ret:<function name>, src:<file>:<line> (a source site).  A container is a blob held by its variable.  The result of a
    call to a function / method defined in the program depends on what that function returns (ret:<name>), its arguments
    flow to its parameters by position / keyword; the result of any other call depends on all arguments and the receiver,
    and such a method call may store its arguments in its receiver.  Reading a field that the program itself never writes
    depends on the receiver.  A field-read source taints the field (all reads of that field name), not only its own statement.  Relaxations (for naming the reason of a failure only): 'callee' = calls to program functions
    are additionally treated as unknown code; 'field' = a field read also depends on the receiver and all fields are one."""

    def __init__(self, files, source_sites, relax=()):
        self.relax = set(relax)
        self.edges = {}
        self.supported = True
        self.unknown_nodes = set()
        self.trees = {fn: ast.parse(t, fn) for fn, t in files.items()}
        self.funcs = {}        # name -> [(FunctionDef, is_method)]
        self.classes = {}
        self.written_fields = set()
        self.modules = set()
        self.src_nodes = {}    # (file, type, line, col, endcol) -> loc
        self.param_src = {}
        for s in source_sites:
            loc = f"src:{s.file}:{s.line}"
            if s.kind == "param":
                self.param_src.setdefault((s.file, s.func, s.name), loc)
            else:
                n = s.node
                self.src_nodes[(s.file, type(n).__name__, n.lineno, n.col_offset, n.end_col_offset)] = loc
        for fn, tree in self.trees.items():
            for n in ast.walk(tree):
                if not isinstance(n, _KNOWN_NODES):
                    self.supported = False
                    self.unknown_nodes.add(type(n).__name__)
                if isinstance(n, ast.ClassDef):
                    self.classes[n.name] = n
                    for m in n.body:
                        if isinstance(m, ast.FunctionDef):
                            self.funcs.setdefault(m.name, []).append((m, True))
                elif isinstance(n, ast.Attribute) and isinstance(n.ctx, ast.Store):
                    self.written_fields.add(n.attr)
                elif isinstance(n, (ast.Import, ast.ImportFrom)):
                    for al in n.names:
                        if isinstance(n, ast.Import):
                            self.modules.add((al.asname or al.name).split(".")[0])
        # a field-read source taints the field itself (location-based): another read of the same field yields the same datum
        for s in source_sites:
            if s.kind == "fread" and isinstance(s.node, ast.Attribute):
                self._edge(self._fld(s.node.attr), {f"src:{s.file}:{s.line}"})
        method_nodes = {id(m) for lst in self.funcs.values() for m, im in lst if im}
        for fn, tree in self.trees.items():
            for n in ast.walk(tree):
                if isinstance(n, ast.FunctionDef) and id(n) not in method_nodes:
                    self.funcs.setdefault(n.name, []).append((n, False))
        for fn, tree in self.trees.items():
            self.file = fn
            self._block(tree.body, None)

    # -- graph
    def _edge(self, dst, srcs):
        if srcs:
            self.edges.setdefault(dst, set()).update(srcs)

    def _fld(self, name):
        return "fld:*" if "field" in self.relax else f"fld:{name}"

    def reach(self, locs):
        seen = set(locs)
        work = list(locs)
        while work:
            x = work.pop()
            for y in self.edges.get(x, ()):
                if y not in seen:
                    seen.add(y)
                    work.append(y)
        return seen

    # -- statements
    def _block(self, stmts, func):
        for st in stmts:
            self._stmt(st, func)

    def _stmt(self, st, func):
        if isinstance(st, ast.FunctionDef):
            a = st.args
            for p in a.posonlyargs + a.args + a.kwonlyargs:
                loc = self.param_src.get((self.file, st.name, p.arg))
                if loc:
                    self._edge(f"var:{p.arg}", {loc})
            pos = a.posonlyargs + a.args
            for p, d in zip(pos[len(pos) - len(a.defaults):], a.defaults):
                self._edge(f"var:{p.arg}", self._deps(d))
            for p, d in zip(a.kwonlyargs, a.kw_defaults):
                if d is not None:
                    self._edge(f"var:{p.arg}", self._deps(d))
            self._block(st.body, st.name)
        elif isinstance(st, ast.ClassDef):
            self._block(st.body, func)
        elif isinstance(st, ast.Return):
            if st.value is not None and func is not None:
                self._edge(f"ret:{func}", self._deps(st.value))
        elif isinstance(st, ast.Assign):
            d = self._deps(st.value)
            for t in st.targets:
                self._store(t, d)
        elif isinstance(st, ast.AugAssign):
            d = self._deps(st.value) | self._deps_target_read(st.target)
            self._store(st.target, d)
        elif isinstance(st, ast.For):
            self._store(st.target, self._deps(st.iter))
            self._block(st.body, func)
            self._block(st.orelse, func)
        elif isinstance(st, ast.If):
            self._deps(st.test)
            self._block(st.body, func)
            self._block(st.orelse, func)
        elif isinstance(st, ast.Expr):
            self._deps(st.value)

    def _deps_target_read(self, t):
        if isinstance(t, ast.Name):
            return {f"var:{t.id}"}
        if isinstance(t, ast.Attribute):
            return {self._fld(t.attr)}
        if isinstance(t, ast.Subscript):
            return self._deps_target_read(t.value)
        return set()

    def _store(self, t, d):
        if isinstance(t, ast.Name):
            self._edge(f"var:{t.id}", d)
        elif isinstance(t, (ast.Tuple, ast.List)):
            for e in t.elts:
                self._store(e, d)
        elif isinstance(t, ast.Attribute):
            self._edge(self._fld(t.attr), d)
            self._store_owner(t.value, d)
        elif isinstance(t, ast.Subscript):
            d2 = d | self._deps(t.slice)
            self._store_owner(t.value, d2)

    def _store_owner(self, o, d):
        """The object / container denoted by o now contains d."""
        if isinstance(o, ast.Name):
            self._edge(f"var:{o.id}", d)
        elif isinstance(o, ast.Attribute):
            self._edge(self._fld(o.attr), d)
            self._store_owner(o.value, d)
        elif isinstance(o, ast.Subscript):
            self._store_owner(o.value, d)

    # -- expressions
    def _deps(self, e):
        if e is None:
            return set()
        key = (self.file, type(e).__name__, getattr(e, "lineno", -1), getattr(e, "col_offset", -1), getattr(e, "end_col_offset", -1))
        extra = set()
        if key in self.src_nodes:
            extra.add(self.src_nodes[key])
        if isinstance(e, ast.Name):
            if e.id in self.funcs:
                return {f"var:{e.id}", f"ret:{e.id}"} | extra        # a function used as a value: whoever calls it gets its result
            return {f"var:{e.id}"} | extra
        if isinstance(e, ast.Constant):
            return extra
        if isinstance(e, ast.Attribute):
            out = set(extra)
            if isinstance(e.value, ast.Name) and e.value.id in self.modules:
                out.add(f"var:{e.attr}")
                if e.attr in self.funcs:
                    out.add(f"ret:{e.attr}")
                return out
            out.add(self._fld(e.attr))
            if e.attr not in self.written_fields or "field" in self.relax:
                out |= self._deps(e.value)
            else:
                self._deps(e.value)
            return out
        if isinstance(e, ast.Subscript):
            return self._deps(e.value) | self._deps(e.slice) | extra
        if isinstance(e, ast.Call):
            return self._call(e) | extra
        if isinstance(e, ast.Dict):
            out = set(extra)
            for k, v in zip(e.keys, e.values):
                out |= self._deps(k) | self._deps(v)
            return out
        out = set(extra)
        for ch in ast.iter_child_nodes(e):
            if isinstance(ch, ast.expr):
                out |= self._deps(ch)
        return out

    def _bind(self, fdef, is_method, args, kwargs, recv_deps):
        a = fdef.args
        params = [p.arg for p in a.posonlyargs + a.args]
        if is_method and params:
            self._edge(f"var:{params[0]}", recv_deps)
            params = params[1:]
        for i, d in enumerate(args):
            if i < len(params):
                self._edge(f"var:{params[i]}", d)
            elif a.vararg:
                self._edge(f"var:{a.vararg.arg}", d)
        names = {p.arg for p in a.posonlyargs + a.args + a.kwonlyargs}
        for k, d in kwargs:
            if k in names:
                self._edge(f"var:{k}", d)
            elif a.kwarg:
                self._edge(f"var:{a.kwarg.arg}", d)

    def _call(self, e):
        args = [self._deps(x) for x in e.args]
        kwargs = [(k.arg, self._deps(k.value)) for k in e.keywords]
        all_args = set().union(*args, *[d for _, d in kwargs]) if (args or kwargs) else set()
        f = e.func
        recv = set()
        name = None
        if isinstance(f, ast.Name):
            name = f.id
        elif isinstance(f, ast.Attribute):
            name = f.attr
            if not (isinstance(f.value, ast.Name) and f.value.id in self.modules):
                recv = self._deps(f.value)
        else:
            return all_args | self._deps(f)
        out = set()
        analysed = False
        if name in self.classes and isinstance(f, (ast.Name, ast.Attribute)):
            analysed = True
            for fdef, im in self.funcs.get("__init__", []):
                if fdef in self.classes[name].body:
                    self._bind(fdef, True, args, kwargs, set())
            out |= all_args | {f"ret:{name}"}
        elif name in self.funcs:
            analysed = True
            for fdef, im in self.funcs[name]:
                self._bind(fdef, im and isinstance(f, ast.Attribute), args, kwargs, recv)
            out.add(f"ret:{name}")
        if not analysed or "callee" in self.relax:
            out |= all_args | recv
            if isinstance(f, ast.Name) and not analysed:
                out.add(f"var:{name}")      # calling a variable that holds a function (closure value)
        if not analysed and isinstance(f, ast.Attribute):
            self._store_owner(f.value, all_args)     # unknown method may keep its arguments in its receiver
        return out

    # -- queries
    def expr_reach(self, file, expr):
        self.file = file
        return self.reach(self._deps_readonly(expr))

    def _deps_readonly(self, e):
        saved = self.edges
        self.edges = {k: set(v) for k, v in saved.items()}
        try:
            d = self._deps(e)
        finally:
            self.edges = saved
        return d
