"""One zygote per interpreter hash seed (C14).

    PYTHONHASHSEED=<s> /venv/bin/python -m lib.seedworker <jobs.json> <results.json> [workers]

The hash seed is fixed when the interpreter starts, so the check starts one of these per seed. The worker imports lian
once (lib.lianrun.prepare_zygote), then runs every job of the JSON list through lib.forkpool.run_jobs: one forked
child per job, pristine lian module state, the child does the complete `run`, snapshots every artefact
(lib.monitors.artefacts.snapshot: byte hash + decoded hash per file) and moves the artefact directories to the job's
`keep` directory so that a later comparison can decode them for a witness.

A job:
  id, kind ('fork' | 'cli'), lang, in_paths, in_roots, workspace (the -w argument), settings, extra (CLI options),
  lock (flock'ed while the workspace path is in use: the same absolute path is shared by jobs of other seed workers),
  keep (directory receiving the artefact directories), pre (history steps performed before the run, same lock held):
     {'op': 'run', lang, in_paths, settings, extra[, at]}  another project analysed first at the same -w (or at `at`) with
                                                           --force, in its own forked process as a separate CLI call would be
     {'op': 'junk'}                                        stale/junk files added to every directory of the existing workspace
     {'op': 'cwd_tmp', 'dir': d}                           the run happens with cwd, TMPDIR and HOME = d (which holds a stale
                                                           ./lian_workspace of another project)
  cwd (optional: the child changes into it first, a relative `workspace` is relative to it), symlink (optional
  [link, target]: created before the run, `workspace` then goes through the link), timeout (s).
Result per job: {id, status, wall, value | error}, value = {outcome, snapshot, src, ws, hashseed, lock_wait, pid}."""
import json
import os
import shutil
import subprocess
import sys
import time
import traceback


def _die_with_parent(sig):
    """Linux: deliver `sig` to this process when its parent exits (a killed check must not leave workers behind)."""
    try:
        import ctypes
        ctypes.CDLL(None, use_errno=True).prctl(1, int(sig), 0, 0, 0)      # PR_SET_PDEATHSIG
        if os.getppid() == 1:
            os._exit(0)
    except Exception:
        pass


def _innermost_lian_frame(tb):
    name = None
    for fs in traceback.extract_tb(tb):
        if "/lian/" in fs.filename.replace("\\", "/"):
            name = f"{os.path.basename(fs.filename)}:{fs.name}"
    return name or "outside-lian"


def _copy_artefacts(src_ws, dst_ws, dirs):
    for d in dirs:
        s = os.path.join(src_ws, d)
        if os.path.isdir(s):
            shutil.copytree(s, os.path.join(dst_ws, d), dirs_exist_ok=True)


def _run_in_grandchild(argv, cwd=None):
    """A separate process for a history step (lian mutates module state: one analysis per process)."""
    from . import lianrun
    sys.stdout.flush(); sys.stderr.flush()
    pid = os.fork()
    if pid == 0:
        code = 0
        try:
            if cwd:
                os.chdir(cwd)
            lianrun.run_lian(argv)
        except SystemExit:
            code = 3
        except BaseException:
            traceback.print_exc()
            code = 4
        finally:
            sys.stdout.flush(); sys.stderr.flush()
            os._exit(code)
    _, st = os.waitpid(pid, 0)
    return os.waitstatus_to_exitcode(st)


def run_job(job):
    import fcntl
    import signal
    from . import common, lianrun
    from .monitors import artefacts
    _die_with_parent(signal.SIGKILL)
    t0 = time.time()
    ws_arg = job["workspace"]
    ws = lianrun.ws_dir(ws_arg)
    pre_log = []
    # history steps that happen at another location do not need the shared workspace path: do them before locking
    for pre in job.get("pre", []):
        if pre["op"] == "run" and pre.get("at"):
            shutil.rmtree(pre["at"], ignore_errors=True)
            argv = lianrun.lian_argv("run", pre["lang"], pre["in_paths"], pre["at"], pre["settings"], pre.get("extra", []))
            code = _run_in_grandchild(argv)
            w = lianrun.ws_dir(pre["at"])
            pre_log.append(["run-elsewhere", code, len(artefacts.list_files(w)) if os.path.isdir(w) else None])
    t1 = time.time()
    os.makedirs(os.path.dirname(job["lock"]), exist_ok=True)
    lockf = open(job["lock"], "a")
    fcntl.flock(lockf, fcntl.LOCK_EX)
    lock_wait = time.time() - t1
    try:
        cwd = job.get("cwd")
        if cwd:                                   # a relative -w is relative to this directory
            os.makedirs(cwd, exist_ok=True)
            os.chdir(cwd)
        if job.get("symlink"):                    # [link, target]: the workspace is addressed through a symbolic link
            link, target = job["symlink"]
            if os.path.islink(link):
                os.unlink(link)
            shutil.rmtree(target, ignore_errors=True)
            os.makedirs(target)
            os.makedirs(os.path.dirname(link), exist_ok=True)
            os.symlink(target, link)
        if os.path.lexists(ws_arg):
            shutil.rmtree(ws_arg)
        if os.path.dirname(ws_arg.rstrip("/")):
            os.makedirs(os.path.dirname(ws_arg.rstrip("/")), exist_ok=True)
        env_extra = {}
        # what is given to lian (harness self-check: both runs of a pair must be handed the same bytes), taken before the
        # run (the workspace may lie inside the input); lian's own copy under <ws>/src is NOT used for this: what ends up
        # there is lian's doing (e.g. stale files after --force)
        src = {}
        for ip in job["in_paths"]:
            if os.path.isfile(ip):
                src[os.path.basename(ip)] = artefacts.sha_file(ip)
            else:
                for r, dn, fn in os.walk(ip):
                    for n in fn:
                        q = os.path.join(r, n)
                        if os.path.isfile(q) and not os.path.islink(q):
                            src[os.path.relpath(q, os.path.dirname(ip.rstrip("/")))] = artefacts.sha_file(q)
        for pre in job.get("pre", []):
            op = pre["op"]
            if op == "run":
                if pre.get("at"):
                    continue
                argv = lianrun.lian_argv("run", pre["lang"], pre["in_paths"], ws_arg, pre["settings"], pre.get("extra", []))
                code = _run_in_grandchild(argv)
                pre_log.append(["run", code, len(artefacts.list_files(ws)) if os.path.isdir(ws) else None])
            elif op == "junk":
                for d in ("frontend", "semantic_p1", "semantic_p3", "taint", "src/zz_stale_pkg"):
                    os.makedirs(os.path.join(ws, d), exist_ok=True)
                ext = {"python": ".py", "javascript": ".js", "typescript": ".ts", "java": ".java", "go": ".go", "c": ".c",
                       "php": ".php"}.get(job["lang"], ".py")
                for rel, text in (("frontend/gir.bundle7", "junk"), ("semantic_p1/cfg.bundle3", "junk"),
                                  ("semantic_p3/zz_leftover", "junk"), ("taint/taint_data_flow.json", "[{\"stale\": 1}]"),
                                  ("taint/zz_old_report.json", "[]"),
                                  ("src/zz_stale_pkg/zz_stale" + ext, "zz_stale = 1\n"),
                                  ("zz_top_level_leftover", "junk")):
                    with open(os.path.join(ws, rel), "w") as f:
                        f.write(text)
                pre_log.append(["junk", len(artefacts.list_files(ws))])
            elif op == "cwd_tmp":
                cwd = pre["dir"]
                os.makedirs(cwd, exist_ok=True)
                env_extra = {"TMPDIR": cwd, "HOME": cwd}
                pre_log.append(["cwd_tmp", sorted(os.listdir(cwd))])
            else:
                raise ValueError(op)
        outcome = "ok"
        if job["kind"] == "fork":
            argv = lianrun.lian_argv("run", job["lang"], job["in_paths"], ws_arg, job["settings"], job.get("extra", []))
            if cwd:
                os.chdir(cwd)
            os.environ.update(env_extra)
            if env_extra:
                import tempfile
                tempfile.tempdir = None
            try:
                lianrun.run_lian(argv)
            except SystemExit as e:
                outcome = f"exit:{e.code}"
            except BaseException as e:      # noqa
                traceback.print_exc()
                outcome = f"exception:{type(e).__name__}@{_innermost_lian_frame(e.__traceback__)}"
        elif job["kind"] == "cli":
            argv = lianrun.lian_argv("run", job["lang"], job["in_paths"], ws_arg, job["settings"], job.get("extra", []))
            cmd = [sys.executable, os.path.join(common.REPO, "src", "lian", "main.py")] + argv[1:]
            env = dict(os.environ)
            # /venv carries an editable install of lian pointing at /repo/src and main.py only *appends* its own tree to
            # sys.path: name the tree under test explicitly (a no-op for LIAN_REPO=/repo, decisive for scratch copies)
            env["PYTHONPATH"] = os.path.join(common.REPO, "src")
            env.update(env_extra)
            env["PYTHONHASHSEED"] = str(job["hashseed"])
            env["PYTHONDONTWRITEBYTECODE"] = "1"
            sys.stdout.flush()
            try:
                p = subprocess.run(cmd, env=env, cwd=cwd or common.scratch(), stdin=subprocess.DEVNULL,
                                   stdout=subprocess.PIPE, stderr=subprocess.STDOUT, timeout=job.get("cli_timeout", 300))
                tail = p.stdout[-3000:].decode("utf-8", "replace")
                print(tail)
                if p.returncode != 0:
                    outcome = f"exit:{p.returncode}"
                    if "Traceback" in tail:
                        last = [ln for ln in tail.splitlines() if ln.strip()][-1]
                        outcome = f"exception:{last.split(':')[0].strip()}@cli"
            except subprocess.TimeoutExpired:
                outcome = "cli-timeout"
        else:
            raise ValueError(job["kind"])
        t_run = time.time() - t0 - lock_wait
        snap = artefacts.snapshot(ws, job.get("in_roots", ())) if os.path.isdir(ws) else {}
        top = sorted(os.listdir(ws)) if os.path.isdir(ws) else []
        probe_hits = artefacts.field_group_hits(ws, job["probe_fields"]) if job.get("probe_fields") and os.path.isdir(ws) else None
        keep = job.get("keep")
        if keep and os.path.isdir(ws):
            shutil.rmtree(keep, ignore_errors=True)
            os.makedirs(keep)
            for d in artefacts.ARTEFACT_DIRS:
                s = os.path.join(ws, d)
                if os.path.isdir(s):
                    try:
                        os.rename(s, os.path.join(keep, d))
                    except OSError:
                        shutil.move(s, os.path.join(keep, d))
        return {"outcome": outcome, "snapshot": snap, "src": src, "top": top, "ws": ws, "pre": pre_log, "probe_hits": probe_hits,
                "subst": [list(x) for x in artefacts.subst_for(ws, job.get("in_roots", ()))],
                "hashseed": os.environ.get("PYTHONHASHSEED"), "lock_wait": round(lock_wait, 2),
                "run_s": round(t_run, 2), "pid": os.getpid()}
    finally:
        shutil.rmtree(ws_arg, ignore_errors=True)
        try:
            fcntl.flock(lockf, fcntl.LOCK_UN)
            lockf.close()
        except Exception:
            pass


def main(argv):
    import signal
    from . import common, forkpool, lianrun
    _die_with_parent(signal.SIGTERM)
    jobs_path, out_path = argv[1], argv[2]
    workers = int(argv[3]) if len(argv) > 3 else 3
    with open(jobs_path) as f:
        spec = json.load(f)
    jobs = spec["jobs"]
    t0 = time.time()
    lianrun.prepare_zygote()
    t_zygote = time.time() - t0
    results = []
    # forkpool has one watchdog per call: the most generous of the jobs' timeouts (a firing is inconclusive anyway)
    tmo = max([float(j.get("timeout", 120)) for j in jobs] or [120.0])
    for r in forkpool.run_jobs(run_job, jobs, workers=workers, timeout=tmo, tag="c14"):
        ent = {"id": r.item["id"], "status": r.status, "wall": round(r.wall, 2)}
        if r.status == "ok":
            ent["value"] = r.value
        else:
            ent["error"] = r.value if isinstance(r.value, (int, str, type(None))) else list(r.value)
            ent["log"] = r.log_text(1500)
        results.append(ent)
    with open(out_path + ".tmp", "w") as f:
        json.dump({"hashseed": os.environ.get("PYTHONHASHSEED"), "hash_of_probe_string": hash("lian-c14-probe"),
                   "zygote_s": round(t_zygote, 2), "wall_s": round(time.time() - t0, 2), "results": results}, f)
    os.replace(out_path + ".tmp", out_path)
    print(json.dumps({"done": len(results), "wall_s": round(time.time() - t0, 2)}))
    return 0


if __name__ == "__main__":
    sys.exit(main(sys.argv))
