"""G-calls — generated Python projects (1..4 files, optional package directory) specialised to *call kinds*.

Every call is alone on its line and is registered as a *site* together with what the generator knows about it: the
call kind (direct, from-import, cross-module-import, constructor, receiver-method, callback-parameter, returned-function,
function-in-list, recursion, ...), so that a missing call edge can be attributed to a mechanism without looking at seeds.
All identifiers carry the project tag, so nothing can be resolved by accident through a name that occurs twice.
Programs are total and deterministic: every int that flows around is >= 1, recursion is bounded by a counter parameter.

A project is a plain dict (JSON-able, it *is* the replay case):
  tag, files {relpath: text}, main (dotted module name), entry {mode: unit_init|method, name},
  sites [{file, line, kind, callee, recv, ctrl}], defs [{file, line, first_line, qual, name, cls}],
  classes {name: {bases: [name], methods: [name], file}}
"""
import random

IMPORT_FORMS = ("import-module", "import-module-alias", "from-import", "from-import-alias")
PKG_FORMS = ("import-package-module", "import-package-module-alias", "from-package-import-module", "from-import", "from-import-alias")

# how a name declared in another file is reached, collapsed to what matters for resolution:
#   local | from-import | from-import-alias | module-attribute (m.f with m bound by `import m`, `import m as a`, `from pk import m`)
#   | package-attribute (pk.m.f after `import pk.m`) | aliased-package-attribute (a.f after `import pk.m as a`)
COLLAPSE = {
    "local": "local",
    "import-module": "module-attribute",
    "import-module-alias": "module-attribute",
    "import-package-module": "package-attribute",
    "import-package-module-alias": "aliased-package-attribute",
    "from-package-import-module": "module-attribute",
    "from-import": "from-import",
    "from-import-alias": "from-import-alias",
}
# kind of a plain call through a name, by access
ACCESS_KIND = {
    "local": "direct",
    "from-import": "from-import",
    "from-import-alias": "from-import-alias",
    "module-attribute": "cross-module-import",
    "package-attribute": "cross-module-import-package",
    "aliased-package-attribute": "cross-module-import-package-alias",
}


def akind(form):
    return ACCESS_KIND[COLLAPSE[form]]


class Form(str):
    """an access form that remembers the reference it was used for: {form (collapsed), file, name bound in that file}"""
    ref = None


class Body:
    def __init__(self):
        self.lines = []          # (indent, text, site|None)
        self.ind = 0
        self.n = 0

    def var(self, p="v"):
        self.n += 1
        return f"{p}{self.n}"

    def add(self, text, site=None):
        self.lines.append((self.ind, text, site))


class Func:
    def __init__(self, name, params, mod, cls=None, parent=None, decorators=()):
        self.name, self.params, self.mod, self.cls, self.parent = name, list(params), mod, cls, parent
        self.decorators = list(decorators)
        self.body = Body()
        self.nested = []
        self.ret = "1"

    @property
    def qual(self):
        if self.cls is not None:
            return f"{self.cls.name}.{self.name}"
        if self.parent is not None:
            return f"{self.parent.qual}.<locals>.{self.name}"
        return self.name


class Class:
    def __init__(self, name, mod, bases=()):
        self.name, self.mod, self.bases = name, mod, list(bases)   # bases: [(expr, Class)]
        self.methods = []
        self.base_form = None

    def find(self, mname):
        """the class that provides mname for an instance of self (single inheritance)"""
        c = self
        while c is not None:
            if any(m.name == mname for m in c.methods):
                return c
            c = c.bases[0][1] if c.bases else None
        return None

    def all_method_names(self):
        out, c = [], self
        while c is not None:
            for m in c.methods:
                if m.name not in out:
                    out.append(m.name)
            c = c.bases[0][1] if c.bases else None
        return out


class Mod:
    def __init__(self, name, dirs, idx):
        self.name, self.dirs, self.idx = name, tuple(dirs), idx
        self.imports = []
        self.decls = []
        self.top = Body()

    @property
    def dotted(self):
        return ".".join(self.dirs + (self.name,))

    @property
    def relpath(self):
        return "/".join(self.dirs + (self.name + ".py",))


class Ctx:
    def __init__(self, mod, body, func=None, cls=None):
        self.mod, self.body, self.func, self.cls = mod, body, func, cls


DEFAULT_WEIGHTS = {
    "direct": 5, "reuse": 2, "object": 5, "callback": 3, "returned": 2, "variable": 2, "list": 2, "dict": 1,
    "field": 2, "recursion": 2, "mutual": 2, "nested": 1, "static": 1, "param_object": 1, "returned_object": 1, "try": 1, "kwcallback": 3, "twocand": 4, "multitarget": 4, "reexport": 4,
}


class Gen:
    def __init__(self, rng, tag, n_files=None, entry_mode=None, budget=None, weights=None, package=None):
        self.rng = rng
        self.tag = tag
        self.n_files = n_files if n_files is not None else rng.choice([1, 1, 2, 2, 3, 3, 4])
        self.entry_mode = entry_mode or rng.choice(["unit_init", "unit_init", "method"])
        self.budget = budget if budget is not None else rng.randint(10, 26)
        self.weights = dict(weights or DEFAULT_WEIGHTS)
        self.package = (rng.random() < 0.4) if package is None else package
        self.uid = 0
        self.mods = []
        self.classes = []
        self.reusable = []         # completed plain functions (Func) taking one int
        self.class_forms = {}      # class name -> references ({form, file, name}) through which it was instantiated
        self.form_cache = {}
        self.js = False            # restrict to what has a JavaScript counterpart (see generate_js)
        self.cand_role = {}        # callee qual -> which of two candidate values of a callback it is (first / second)
        self.value_access = {}     # function qual -> access form through which it was taken as a value
        self.building = []

    # ---- names ---------------------------------------------------------------------------------
    def name(self, p):
        self.uid += 1
        return f"{p}{self.uid}_{self.tag}"

    # ---- structure -----------------------------------------------------------------------------
    def build(self):
        rng = self.rng
        for i in range(self.n_files):
            dirs = ()
            if i > 0 and self.package and rng.random() < 0.6:
                dirs = (f"pk_{self.tag}",)
            # the first letter varies so that the alphabetical order of the files is independent of the import direction (lian visits
            # units in path order: a base class may live in a file that sorts before or after the file of its subclass)
            self.mods.append(Mod(f"{rng.choice('amz')}{i}_{self.tag}", dirs, i))
        main = self.mods[0]
        if self.entry_mode == "method":
            f = Func(f"main_{self.tag}", [], main)
            main.decls.append(f)
            ctx = Ctx(main, f.body, f)
            entry = {"mode": "method", "name": f.name}
        else:
            ctx = Ctx(main, main.top)
            entry = {"mode": "unit_init", "name": "%unit_init"}
        n_top = rng.randint(3, 6)
        for _ in range(n_top):
            self.emit(ctx, 2)
        if self.entry_mode == "method":
            main.decls.remove(f)
            main.decls.append(f)       # entry function last, for readability
        else:
            # other files may have their own top-level code: each is an entry of its own under the %unit_init rule
            for m in self.mods[1:]:
                if rng.random() < 0.3:
                    self.budget += 3
                    for _ in range(rng.randint(1, 2)):
                        self.emit(Ctx(m, m.top), 1)
        return self.render(entry)

    def pick_mod(self, cur):
        """module in which a new callee is declared: the current one or a later one (imports form a DAG)"""
        later = [m for m in self.mods if m.idx > cur.idx]
        if later and self.rng.random() < 0.55:
            return self.rng.choice(later)
        return cur

    def ref(self, cur, target, name):
        """expression naming `name` (declared at top level of module `target`) from module `cur`, plus the access form"""
        if cur is target:
            fm = Form("local")
            fm.ref = {"form": "local", "file": cur.relpath, "name": name}
            return name, fm
        rng = self.rng
        forms = PKG_FORMS if target.dirs else IMPORT_FORMS
        form = rng.choices(forms, [3 if f.startswith("from-import") else 1 for f in forms])[0]
        # a file normally binds another module / an imported name in one way; now and then it does so in a second way as well
        ckey = (cur.idx, target.idx, name if form.startswith("from-import") else None)
        if ckey in self.form_cache and rng.random() < 0.9:
            form = self.form_cache[ckey]
        else:
            self.form_cache.setdefault(ckey, form)
        if form == "import-module":
            imp, expr = f"import {target.dotted}", f"{target.name}.{name}"
        elif form == "import-module-alias":
            al = f"al_{target.name}"
            imp, expr = f"import {target.dotted} as {al}", f"{al}.{name}"
        elif form == "import-package-module":
            imp, expr = f"import {target.dotted}", f"{target.dotted}.{name}"
        elif form == "import-package-module-alias":
            al = f"al_{target.name}"
            imp, expr = f"import {target.dotted} as {al}", f"{al}.{name}"
        elif form == "from-package-import-module":
            imp, expr = f"from {'.'.join(target.dirs)} import {target.name}", f"{target.name}.{name}"
        elif form == "from-import":
            imp, expr = f"from {target.dotted} import {name}", name
        else:
            al = f"al_{name}"
            imp, expr = f"from {target.dotted} import {name} as {al}", al
        if imp not in cur.imports:
            cur.imports.append(imp)
        fm = Form(form)
        fm.ref = {"form": COLLAPSE[form], "file": cur.relpath, "name": expr.split(".")[0]}
        return expr, fm

    def site(self, kind, callee=None, recv=None, ctrl=None, meth=None, deps=(), uses=None):
        """deps: sites whose call produced the value this call needs (the receiver object, the function value)"""
        return {"kind": kind, "callee": callee, "recv": recv, "ctrl": ctrl, "meth": meth, "deps": [d for d in deps if d is not None],
                "uses": uses}

    def nsite(self, form, callee=None, **kw):
        """site of a call through a name: the kind follows from the access form, the reference is remembered"""
        return self.site(akind(form), callee, uses=getattr(form, "ref", None), **kw)

    def arg(self, ctx):
        return str(self.rng.randint(1, 9))

    # ---- emitters ------------------------------------------------------------------------------
    def emit(self, ctx, depth):
        if self.budget <= 0:
            return
        self.budget -= 1
        ks = [k for k, w in self.weights.items() if w > 0 and (k != "reuse" or self.candidates(ctx.mod))]
        k = self.rng.choices(ks, [self.weights[x] for x in ks])[0]
        getattr(self, "e_" + k)(ctx, depth)

    def fill(self, ctx, depth):
        if depth <= 0:
            return
        for _ in range(self.rng.choice([0, 1, 1, 2])):
            self.emit(ctx, depth)

    def new_func(self, mod, prefix, params, depth, fill=True, reusable=True):
        f = Func(self.name(prefix), params, mod)
        mod.decls.append(f)
        self.building.append(f)
        if fill:
            self.fill(Ctx(mod, f.body, f), depth - 1)
        f.ret = (params[0] + " + 1") if params and params[0] not in ("self", "f") else "1"
        self.building.pop()
        if reusable and params == ["x"]:
            self.reusable.append(f)
        return f

    def candidates(self, cur):
        return [f for f in self.reusable if f.mod.idx >= cur.idx and f not in self.building]

    def call_line(self, ctx, expr_call, site, allow_ctrl=False):
        """emit `v = <call>`; plain kinds may be wrapped in a control construct (recorded in the site)"""
        b = ctx.body
        v = b.var()
        rng = self.rng
        if allow_ctrl and rng.random() < 0.3:
            c = rng.choice(["if", "else", "for", "while"])
            site["ctrl"] = c
            g = b.var("c")
            if c == "if":
                b.add(f"{g} = 1")
                b.add(f"if {g} > 0:")
                b.ind += 1; b.add(f"{v} = {expr_call}", site); b.ind -= 1
            elif c == "else":
                b.add(f"{g} = 1")
                b.add(f"if {g} < 0:")
                b.ind += 1; b.add(f"{v} = 0"); b.ind -= 1
                b.add("else:")
                b.ind += 1; b.add(f"{v} = {expr_call}", site); b.ind -= 1
            elif c == "for":
                b.add(f"for {g} in range(2):")
                b.ind += 1; b.add(f"{v} = {expr_call}", site); b.ind -= 1
            elif c == "while":
                b.add(f"{g} = 0")
                b.add(f"while {g} < 2:")
                b.ind += 1; b.add(f"{g} = {g} + 1"); b.add(f"{v} = {expr_call}", site); b.ind -= 1
            elif c == "try":
                b.add("try:")
                b.ind += 1; b.add(f"{v} = {expr_call}", site); b.ind -= 1
                b.add("except Exception:")
                b.ind += 1; b.add(f"{v} = 0"); b.ind -= 1
            else:
                b.add("try:")
                b.ind += 1; b.add(f"{g} = 1"); b.ind -= 1
                b.add("finally:")
                b.ind += 1; b.add(f"{v} = {expr_call}", site); b.ind -= 1
        else:
            b.add(f"{v} = {expr_call}", site)
        return v

    def plain_callee(self, ctx, depth, prefix="f"):
        """a fresh one-int function somewhere reachable + the expression naming it from ctx.mod"""
        t = self.pick_mod(ctx.mod)
        f = self.new_func(t, prefix, ["x"], depth)
        expr, form = self.ref(ctx.mod, t, f.name)
        return f, expr, form

    def e_direct(self, ctx, depth):
        f, expr, form = self.plain_callee(ctx, depth)
        self.call_line(ctx, f"{expr}({self.arg(ctx)})", self.nsite(form, f.qual), allow_ctrl=(form == "local"))
        if self.rng.random() < 0.25:        # the same function from a second site
            self.call_line(ctx, f"{expr}({self.arg(ctx)})", self.nsite(form, f.qual))

    def e_reuse(self, ctx, depth):
        f = self.rng.choice(self.candidates(ctx.mod))
        expr, form = self.ref(ctx.mod, f.mod, f.name)
        self.call_line(ctx, f"{expr}({self.arg(ctx)})", self.nsite(form, f.qual))

    # -- classes ------------------------------------------------------------------------------------
    def new_method(self, cls, name, params, depth, decorators=()):
        m = Func(name, params, cls.mod, cls=cls, decorators=decorators)
        cls.methods.append(m)
        self.building.append(m)
        self.fill(Ctx(cls.mod, m.body, m, cls), depth - 1)
        self.building.pop()
        m.ret = "1"
        return m

    def new_class(self, mod, depth, levels=None):
        """a class with 0..2 ancestors. Method name roles (names are unique per hierarchy):
        own_<n>   defined in exactly one class         inh_<n>  defined only in an ancestor
        ovr_<n>   defined in an ancestor and redefined  tmpl/hook: ancestor's tmpl calls self.hook(), hook redefined below"""
        rng = self.rng
        levels = levels if levels is not None else rng.choice([1, 2, 2, 2, 3])
        hid = self.name("h")
        chain = []
        base = None
        # the leaf lives in `mod`; every ancestor in the same or a later module than its child (imports form a DAG)
        cmods = [mod]
        for _ in range(levels - 1):
            cmods.insert(0, self.pick_mod(cmods[0]))
        for lv in range(levels):
            is_leaf = (lv == levels - 1)
            cmod = cmods[lv]
            bases = []
            if base is not None:
                bexpr, bform = self.ref(cmod, base.mod, base.name)
                bases = [(bexpr, base)]
            c = Class(self.name("K"), cmod, bases)
            c.base_form = bform.ref if bases else None
            cmod.decls.append(c)
            self.classes.append(c)
            # constructor
            has_init_above = base is not None and base.find("__init__") is not None
            if rng.random() < (0.75 if not has_init_above else 0.45):
                init = Func("__init__", ["self", "a"], cmod, cls=c)
                c.methods.append(init)
                if self.js and base is not None and not has_init_above:
                    init.body.add("super().__init__()")          # JavaScript demands it; the implicit base constructor is no callee
                if has_init_above and (self.js or rng.random() < 0.6):
                    how = "super" if self.js else rng.choice(["super", "explicit"])
                    if how == "super":
                        init.body.add("super().__init__(a)", self.site("super-init-call", f"{base.find('__init__').name}.__init__"))
                    else:
                        init.body.add(f"{bases[0][0]}.__init__(self, a)", self.site("explicit-base-init-call", f"{base.find('__init__').name}.__init__"))
                init.body.add(f"self.fa_{hid} = a")
                init.ret = None
            # methods
            if lv == 0:
                self.new_method(c, f"own0_{hid}", ["self", "x"], depth)
                if levels > 1:
                    self.new_method(c, f"inh_{hid}", ["self", "x"], depth)
                    self.new_method(c, f"ovr_{hid}", ["self", "x"], depth)
                    t = Func(f"tmpl_{hid}", ["self", "x"], cmod, cls=c)
                    c.methods.append(t)
                    t.body.add(f"r = self.hook_{hid}(x)", self.site("self-method", None, recv=c.name, meth=f"hook_{hid}"))
                    t.ret = "r"
                    self.new_method(c, f"hook_{hid}", ["self", "x"], 0)
            else:
                self.new_method(c, f"own{lv}_{hid}", ["self", "x"], depth)
                if rng.random() < 0.8:
                    self.new_method(c, f"ovr_{hid}", ["self", "x"], depth)
                if rng.random() < 0.8:
                    self.new_method(c, f"hook_{hid}", ["self", "x"], 0)
                if rng.random() < 0.4:
                    s = Func(f"selfcall{lv}_{hid}", ["self", "x"], cmod, cls=c)
                    c.methods.append(s)
                    target = rng.choice([f"inh_{hid}", f"own{lv}_{hid}", f"own0_{hid}"])
                    s.body.add(f"r = self.{target}(x)", self.site("self-method", None, recv=c.name, meth=target))
                    s.ret = "r"
            chain.append(c)
            base = c
        return chain[-1]

    def class_ref(self, ctx, cls):
        return self.ref(ctx.mod, cls.mod, cls.name)

    def construct(self, ctx, cls, allow_ctrl=False):
        expr, form = self.class_ref(ctx, cls)
        owner = cls.find("__init__")
        args = self.arg(ctx) if owner is not None else ""
        kind = "constructor" if owner is cls else ("constructor-inherited-init" if owner is not None else "constructor-without-init")
        if form != "local":
            kind += "/" + akind(form)
        b = ctx.body
        o = b.var("o")
        self.class_forms.setdefault(cls.name, []).append(form.ref)
        st = self.site(kind, f"{owner.name}.__init__" if owner else None, recv=cls.name, uses=form.ref)
        b.add(f"{o} = {expr}({args})", st)
        return o, st

    def method_calls(self, ctx, o, cls, deps, how_many=None, kind_override=None):
        names = cls.all_method_names()
        names = [n for n in names if n != "__init__"]
        self.rng.shuffle(names)
        k = how_many if how_many is not None else self.rng.randint(1, 3)
        for n in names[:k]:
            site = self.site(kind_override or "method", None, recv=cls.name, meth=n, deps=deps)
            self.call_line(ctx, f"{o}.{n}({self.arg(ctx)})", site, allow_ctrl=(kind_override is None and cls.mod is ctx.mod))

    def e_object(self, ctx, depth):
        cls = self.new_class(self.pick_mod(ctx.mod), depth)
        o, cs = self.construct(ctx, cls)
        self.method_calls(ctx, o, cls, [cs])
        r = self.rng.random()
        if r < 0.2 and self.js:
            r = 0.5                 # o.m taken as a value loses its receiver in JavaScript
        if r < 0.2:
            names = [n for n in cls.all_method_names() if n != "__init__"]
            n = self.rng.choice(names)
            bm = ctx.body.var("bm")
            ctx.body.add(f"{bm} = {o}.{n}")
            self.call_line(ctx, f"{bm}({self.arg(ctx)})", self.site("bound-method-value", None, recv=cls.name, meth=n, deps=[cs]))
        elif r < 0.35 and len(cls.bases) > 0:
            # an instance of the ancestor as well: the *ancestor's* versions must be the callees there
            anc = cls.bases[0][1]
            o2, cs2 = self.construct(ctx, anc)
            self.method_calls(ctx, o2, anc, [cs2], how_many=2)

    def e_param_object(self, ctx, depth):
        cls = self.new_class(self.pick_mod(ctx.mod), depth, levels=self.rng.choice([1, 2]))
        o, cs = self.construct(ctx, cls)
        t = self.pick_mod(ctx.mod)
        u = Func(self.name("use"), ["p"], t)
        t.decls.append(u)
        n = self.rng.choice([x for x in cls.all_method_names() if x != "__init__"])
        u.body.add(f"r = p.{n}({self.arg(ctx)})", self.site("method-on-parameter-object", None, recv=cls.name, meth=n, deps=[cs]))
        u.ret = "r"
        expr, form = self.ref(ctx.mod, t, u.name)
        self.call_line(ctx, f"{expr}({o})", self.nsite(form, u.qual))

    def e_returned_object(self, ctx, depth):
        t = self.pick_mod(ctx.mod)
        cls = self.new_class(self.pick_mod(t), depth, levels=self.rng.choice([1, 2]))
        mk = Func(self.name("make"), [], t)
        t.decls.append(mk)
        o, cs = self.construct(Ctx(t, mk.body, mk), cls)
        mk.ret = o
        expr, form = self.ref(ctx.mod, t, mk.name)
        ms = self.nsite(form, mk.qual)
        ob = self.call_line(ctx, f"{expr}()", ms)
        self.method_calls(ctx, ob, cls, [ms, cs], how_many=self.rng.randint(1, 2), kind_override="method-on-returned-object")

    def e_static(self, ctx, depth):
        t = self.pick_mod(ctx.mod)
        c = Class(self.name("S"), t)
        t.decls.append(c)
        self.classes.append(c)
        self.new_method(c, self.name("sm"), ["x"], depth, decorators=["@staticmethod"])
        self.new_method(c, self.name("cm"), ["cls", "x"], depth, decorators=["@classmethod"])
        expr, form = self.class_ref(ctx, c)
        suffix = "" if form == "local" else "/" + akind(form)
        for m in self.rng.sample(c.methods, self.rng.randint(1, 2)):
            kind = "static-method" if m.decorators == ["@staticmethod"] else "class-method"
            self.call_line(ctx, f"{expr}.{m.name}({self.arg(ctx)})", self.site(kind + suffix, m.qual, recv=c.name, meth=m.name, uses=form.ref))

    def e_try(self, ctx, depth):
        """calls inside and after a try statement, in a function of their own (its objects never leave it)"""
        t = self.pick_mod(ctx.mod)
        tf = Func(self.name("tryf"), ["x"], t)
        t.decls.append(tf)
        b = tf.body
        tctx = Ctx(t, b, tf)
        cls = self.new_class(self.pick_mod(t), depth, levels=self.rng.choice([1, 2]))
        o, cs = self.construct(tctx, cls)
        names = [n for n in cls.all_method_names() if n != "__init__"]
        f, fexpr, fform = self.plain_callee(tctx, depth)
        shape = self.rng.choice(["try-except", "try-finally"])
        where = "try" if shape == "try-except" or self.rng.random() < 0.5 else "finally"
        b.add("try:")
        b.ind += 1
        if where == "try":
            n = self.rng.choice(names)
            b.add(f"{b.var()} = {o}.{n}({self.arg(tctx)})", self.site("method", None, recv=cls.name, meth=n, ctrl="try", deps=[cs]))
            b.add(f"{b.var()} = {fexpr}({self.arg(tctx)})", self.nsite(fform, f.qual, ctrl="try"))
        else:
            b.add(f"{b.var('c')} = 1")
        b.ind -= 1
        if shape == "try-except":
            b.add("except Exception:")
            b.ind += 1; b.add(f"{b.var('c')} = 0"); b.ind -= 1
        else:
            b.add("finally:")
            b.ind += 1
            if where == "finally":
                n = self.rng.choice(names)
                b.add(f"{b.var()} = {o}.{n}({self.arg(tctx)})", self.site("method", None, recv=cls.name, meth=n, ctrl="finally", deps=[cs]))
                b.add(f"{b.var()} = {fexpr}({self.arg(tctx)})", self.nsite(fform, f.qual, ctrl="finally"))
            else:
                b.add(f"{b.var('c')} = 2")
            b.ind -= 1
        n = self.rng.choice(names)
        b.add(f"{b.var()} = {o}.{n}({self.arg(tctx)})", self.site("method", None, recv=cls.name, meth=n, ctrl="after-try", deps=[cs]))
        tf.ret = "x + 1"
        expr, form = self.ref(ctx.mod, t, tf.name)
        self.call_line(ctx, f"{expr}({self.arg(ctx)})", self.nsite(form, tf.qual))

    # -- functions as values ---------------------------------------------------------------------------
    def e_callback(self, ctx, depth):
        t = self.pick_mod(ctx.mod)
        h = Func(self.name("hof"), ["f", "x"], t)
        t.decls.append(h)
        h.body.add("r = f(x)", self.site("callback-parameter"))
        h.ret = "r"
        hexpr, hform = self.ref(ctx.mod, t, h.name)
        for _ in range(self.rng.choice([1, 1, 2])):
            g, gexpr, gform = self.plain_callee(ctx, depth, "cb")
            self.value_access[g.qual] = gform.ref
            self.call_line(ctx, f"{hexpr}({gexpr}, {self.arg(ctx)})", self.nsite(hform, h.qual))

    def e_multitarget(self, ctx, depth):
        """ONE call statement with TWO targets (a function variable assigned in both arms of an if; a method on a receiver that is a
        base-class or an overriding-subclass instance); each target calls THROUGH its parameter (a callback, or a method of the
        object it is given). The driver runs twice (flag 1 and 0), so both targets and both inner calls really happen."""
        rng = self.rng
        how = rng.choice(["function-variable", "method-of-base-or-override"])
        through = rng.choice(["callback-parameter", "method-on-parameter-object"])
        t = self.pick_mod(ctx.mod)
        hid = self.name("h")
        pick = Func(self.name("pick"), ["flag"], t)
        b = pick.body
        pctx = Ctx(t, b, pick)
        # what is handed to the targets
        if through == "callback-parameter":
            g, gexpr, gform = self.plain_callee(pctx, depth, "mt")
            self.value_access[g.qual] = gform.ref
            inner_callee, argexpr, argdeps = g.qual, gexpr, []
            inner_text = "r = p({})"
        else:
            pc = Class(self.name("K"), t)
            t.decls.append(pc)
            self.classes.append(pc)
            init = Func("__init__", ["self", "a"], t, cls=pc)
            init.body.add(f"self.fa_{hid} = a")
            init.ret = None
            pm = Func(f"pm_{hid}", ["self", "x"], t, cls=pc)
            pm.ret = "1"
            pc.methods += [init, pm]
            self.class_forms.setdefault(pc.name, []).append({"form": "local", "file": t.relpath, "name": pc.name})
            cs = self.site("constructor", f"{pc.name}.__init__", recv=pc.name)
            b.add(f"q = {pc.name}(1)", cs)
            inner_callee, argexpr, argdeps = pm.qual, "q", [cs]
            inner_text = "r = p." + pm.name + "({})"
        kind_in = f"call-through-parameter-of-one-of-two-targets/{how}/{through}"
        if how == "function-variable":
            targets = []
            for which, n in (("first", 1), ("second", 2)):
                a = Func(self.name("tgt"), ["p"], t)
                t.decls.append(a)
                a.body.add(inner_text.format(n), self.site(f"{kind_in}/in-{which}-target", inner_callee, deps=argdeps))
                a.ret = "r"
                self.cand_role[a.qual] = which
                targets.append(a)
            b.add("if flag > 0:")
            b.ind += 1; b.add(f"h = {targets[0].name}"); b.ind -= 1
            b.add("else:")
            b.ind += 1; b.add(f"h = {targets[1].name}"); b.ind -= 1
            b.add(f"r = h({argexpr})", self.site(f"call-with-two-targets/{how}"))
        else:
            kb = Class(self.name("K"), t)
            ks = Class(self.name("K"), t, [(kb.name, kb)])
            ks.base_form = {"form": "local", "file": t.relpath, "name": kb.name}
            for c in (kb, ks):
                t.decls.append(c)
                self.classes.append(c)
            init = Func("__init__", ["self", "a"], t, cls=kb)
            init.body.add(f"self.fb_{hid} = a")
            init.ret = None
            kb.methods.append(init)
            for c, which, n in ((kb, "first", 1), (ks, "second", 2)):
                m = Func(f"go_{hid}", ["self", "p"], t, cls=c)
                m.body.add(inner_text.format(n), self.site(f"{kind_in}/in-{which}-target", inner_callee, deps=argdeps))
                m.ret = "r"
                c.methods.append(m)
                self.cand_role[m.qual] = which
            b.add("if flag > 0:")
            b.ind += 1
            self.class_forms.setdefault(kb.name, []).append({"form": "local", "file": t.relpath, "name": kb.name})
            cs1 = self.site("constructor", f"{kb.name}.__init__", recv=kb.name)
            b.add(f"o = {kb.name}(1)", cs1)
            b.ind -= 1
            b.add("else:")
            b.ind += 1
            self.class_forms.setdefault(ks.name, []).append({"form": "local", "file": t.relpath, "name": ks.name})
            cs2 = self.site("constructor-inherited-init", f"{kb.name}.__init__", recv=ks.name)
            b.add(f"o = {ks.name}(1)", cs2)
            b.ind -= 1
            b.add(f"r = o.go_{hid}({argexpr})", self.site(f"call-with-two-targets/{how}", deps=[cs1, cs2]))
        pick.ret = "r"
        t.decls.append(pick)
        expr, form = self.ref(ctx.mod, t, pick.name)
        for fl in ([1, 0] if rng.random() < 0.5 else [0, 1]):
            self.call_line(ctx, f"{expr}({fl})", self.nsite(form, pick.qual))

    def e_reexport(self, ctx, depth):
        """a name reached through a module that only RE-EXPORTS it: ctx.mod does `from facade import N`, facade does `from defs
        import N` and nothing else with it. Function call, class instantiation (own constructor) + method call."""
        rng = self.rng
        later = [m for m in self.mods if m.idx > ctx.mod.idx]
        if len(later) < 2 or self.js:
            return self.e_direct(ctx, depth)
        facade, defs = sorted(rng.sample(later, 2), key=lambda m: m.idx)
        what = rng.choice(["function", "class"])

        def bring(name):
            imp1 = f"from {defs.dotted} import {name}"
            if imp1 not in facade.imports:
                facade.imports.append(imp1)
            al = rng.random() < 0.3
            bound = f"al_{name}" if al else name
            imp2 = f"from {facade.dotted} import {name}" + (f" as {bound}" if al else "")
            if imp2 not in ctx.mod.imports:
                ctx.mod.imports.append(imp2)
            return bound, {"form": "from-import-alias" if al else "from-import", "file": ctx.mod.relpath, "name": bound}
        if what == "function":
            f = self.new_func(defs, "rx", ["x"], depth, reusable=False)
            bound, ref = bring(f.name)
            self.call_line(ctx, f"{bound}({self.arg(ctx)})", self.site("re-exported-function", f.qual, uses=ref))
        else:
            hid = self.name("h")
            c = Class(self.name("K"), defs)
            defs.decls.append(c)
            self.classes.append(c)
            init = Func("__init__", ["self", "a"], defs, cls=c)
            init.body.add(f"self.fa_{hid} = a")
            init.ret = None
            c.methods.append(init)
            self.new_method(c, f"own0_{hid}", ["self", "x"], depth)
            bound, ref = bring(c.name)
            self.class_forms.setdefault(c.name, []).append(ref)
            cs = self.site("constructor/re-exported-class", f"{c.name}.__init__", recv=c.name, uses=ref)
            o = ctx.body.var("o")
            ctx.body.add(f"{o} = {bound}({self.arg(ctx)})", cs)
            self.call_line(ctx, f"{o}.own0_{hid}({self.arg(ctx)})", self.site("method", None, recv=c.name, meth=f"own0_{hid}", deps=[cs]))

    def e_twocand(self, ctx, depth):
        """a callback argument that holds TWO candidate values at the call: chosen on the two branches of an if/else, a bound
        method of an object that is an instance of the base or of the overriding subclass, an element of a two-element list / dict
        picked by a parameter, a closure returned by a factory with two returns. The driver function is called twice (flag 1 and
        0), so both candidates really run: the callee's call `cb(v)` must have an edge to each of them."""
        rng = self.rng
        how = rng.choice(["branch-assignment", "bound-method-of-base-or-override", "list-element", "dict-element", "factory-with-two-returns"])
        t = self.pick_mod(ctx.mod)
        app = Func(self.name("apply"), ["cb", "v"], t)
        t.decls.append(app)
        cbsite = self.site(f"callback-with-two-candidate-values/{how}")
        app.body.add("r = cb(v)", cbsite)
        app.ret = "r"
        pick = Func(self.name("pick"), ["flag"], t)
        b = pick.body
        pctx = Ctx(t, b, pick)

        def two_functions():
            out = []
            for which in ("first", "second"):
                g, gexpr, gform = self.plain_callee(pctx, depth, "tc")
                self.value_access[g.qual] = gform.ref
                self.cand_role[g.qual] = which
                out.append(gexpr)
            return out
        if how == "branch-assignment":
            fa, fb = two_functions()
            b.add("if flag > 0:")
            b.ind += 1; b.add(f"h = {fa}"); b.ind -= 1
            b.add("else:")
            b.ind += 1; b.add(f"h = {fb}"); b.ind -= 1
            arg = "h"
        elif how == "bound-method-of-base-or-override":
            hid = self.name("h")
            kb = Class(self.name("K"), t)
            ks = Class(self.name("K"), t, [(kb.name, kb)])
            ks.base_form = {"form": "local", "file": t.relpath, "name": kb.name}
            for c in (kb, ks):
                t.decls.append(c)
                self.classes.append(c)
            init = Func("__init__", ["self", "a"], t, cls=kb)
            init.body.add(f"self.fa_{hid} = a")
            init.ret = None
            kb.methods.append(init)
            for c, which in ((kb, "first"), (ks, "second")):
                m = Func(f"hook_{hid}", ["self", "x"], t, cls=c)
                m.ret = "1" if c is kb else "2"
                c.methods.append(m)
                self.cand_role[m.qual] = which
            b.add("if flag > 0:")
            b.ind += 1
            self.class_forms.setdefault(kb.name, []).append({"form": "local", "file": t.relpath, "name": kb.name})
            cs1 = self.site("constructor", f"{kb.name}.__init__", recv=kb.name)
            b.add(f"o = {kb.name}(1)", cs1)
            b.ind -= 1
            b.add("else:")
            b.ind += 1
            self.class_forms.setdefault(ks.name, []).append({"form": "local", "file": t.relpath, "name": ks.name})
            cs2 = self.site("constructor-inherited-init", f"{kb.name}.__init__", recv=ks.name)
            b.add(f"o = {ks.name}(1)", cs2)
            cbsite["deps"] += [cs1, cs2]          # the bound method's receiver comes from these instantiations
            b.ind -= 1
            b.add(f"h = o.hook_{hid}")
            arg = "h"
        elif how == "list-element":
            fa, fb = two_functions()
            b.add(f"l = [{fb}, {fa}]")          # flag 1 -> index 1 = first candidate, flag 0 -> index 0 = second candidate
            b.add("h = l[flag]")
            arg = "h"
        elif how == "dict-element":
            fa, fb = two_functions()
            b.add(f"d = {{'ka': {fa}, 'kb': {fb}}}")
            b.add("if flag > 0:")
            b.ind += 1; b.add("key = 'ka'"); b.ind -= 1
            b.add("else:")
            b.ind += 1; b.add("key = 'kb'"); b.ind -= 1
            b.add("h = d[key]")
            arg = "h"
        else:
            mk = Func(self.name("factory"), ["flag"], t)
            t.decls.append(mk)
            for which in ("first", "second"):
                inner = Func(self.name("inner"), ["x"], t, parent=mk)
                inner.ret = "x + 1"
                mk.nested.append(inner)
                self.cand_role[inner.qual] = which
            mk.body.add("if flag > 0:")
            mk.body.ind += 1; mk.body.add(f"return {mk.nested[0].name}"); mk.body.ind -= 1
            mk.ret = mk.nested[1].name
            ms = self.site("direct", mk.qual)
            b.add(f"h = {mk.name}(flag)", ms)
            cbsite["deps"].append(ms)
            arg = "h"
        b.add(f"r = {app.name}({arg}, {self.arg(pctx)})", self.site("direct", app.qual))
        pick.ret = "r"
        t.decls.append(pick)
        expr, form = self.ref(ctx.mod, t, pick.name)
        order = [1, 0] if rng.random() < 0.5 else [0, 1]
        for fl in order:
            self.call_line(ctx, f"{expr}({fl})", self.nsite(form, pick.qual))

    def e_kwcallback(self, ctx, depth):
        """a callback handed over as a keyword argument next to 1-2 other keyword arguments, written in alphabetical or in another
        order, all-keyword / after a positional argument / to keyword-only parameters; the callee calls the callback"""
        if self.js:
            return self.e_callback(ctx, depth)
        rng = self.rng
        t = self.pick_mod(ctx.mod)
        n_kw = rng.choice([2, 2, 3])
        mode = rng.choice(["all-keyword", "after-positional", "keyword-only-parameters"])
        pool = ["alpha", "beta", "count", "func", "handler", "on_done", "value", "zeta"]
        cbname = rng.choice(["func", "handler", "on_done"])
        others = rng.sample([p for p in pool if p not in ("func", "handler", "on_done")], n_kw - 1)
        kws = sorted([cbname] + others)
        order = rng.choice(["alphabetical", "non-alphabetical"])
        written = list(kws)
        if order == "non-alphabetical":
            # a permutation in which the callback does not stand where it stands alphabetically
            for _ in range(50):
                rng.shuffle(written)
                if written != kws and written.index(cbname) != kws.index(cbname):
                    break
            else:
                written = list(reversed(kws))
        pos = ["first"] if mode == "after-positional" else []
        decl = list(kws)
        rng.shuffle(decl)
        if mode == "keyword-only-parameters":
            params = ["first", "*"] + decl if rng.random() < 0.5 else ["*"] + decl
            if params[0] == "first":
                pos = ["first"]
        else:
            params = pos + decl
        h = Func(self.name("kwrun"), params, t)
        t.decls.append(h)
        kind = f"callback-keyword-argument/{mode}/{len(kws)}-keywords-in-{order}-order"
        h.body.add(f"r = {cbname}({others[0]})", self.site(kind))
        h.ret = "r"
        hexpr, hform = self.ref(ctx.mod, t, h.name)
        g, gexpr, gform = self.plain_callee(ctx, depth, "kc")
        self.value_access[g.qual] = gform.ref
        args = [self.arg(ctx) for _ in pos] + [f"{k}={gexpr if k == cbname else self.arg(ctx)}" for k in written]
        self.call_line(ctx, f"{hexpr}({', '.join(args)})", self.nsite(hform, h.qual))

    def e_returned(self, ctx, depth):
        t = self.pick_mod(ctx.mod)
        mk = Func(self.name("mk"), [], t)
        t.decls.append(mk)
        if self.rng.random() < 0.4:
            inner = Func(self.name("inner"), ["x"], t, parent=mk)
            inner.ret = "x + 1"
            mk.nested.append(inner)
            mk.ret = inner.name
            kind = "returned-closure"
        else:
            g, gexpr, gform = self.plain_callee(Ctx(t, mk.body, mk), depth, "rf")
            self.value_access[g.qual] = gform.ref
            mk.ret = gexpr
            kind = "returned-function"
        expr, form = self.ref(ctx.mod, t, mk.name)
        ms = self.nsite(form, mk.qual)
        g = self.call_line(ctx, f"{expr}()", ms)
        self.call_line(ctx, f"{g}({self.arg(ctx)})", self.site(kind, deps=[ms]))

    def e_variable(self, ctx, depth):
        f, expr, form = self.plain_callee(ctx, depth, "vf")
        self.value_access[f.qual] = form.ref
        g = ctx.body.var("g")
        ctx.body.add(f"{g} = {expr}")
        self.call_line(ctx, f"{g}({self.arg(ctx)})", self.site("function-in-variable"))

    def e_list(self, ctx, depth):
        fs = [self.plain_callee(ctx, depth, "lf") for _ in range(2)]
        for f_, _, form_ in fs:
            self.value_access[f_.qual] = form_.ref
        l = ctx.body.var("l")
        ctx.body.add(f"{l} = [{', '.join(e for _, e, _ in fs)}]")
        how = self.rng.choice(["index-call", "index-then-call", "loop"])
        if how == "index-call":
            self.call_line(ctx, f"{l}[{self.rng.randint(0, 1)}]({self.arg(ctx)})", self.site("function-in-list"))
        elif how == "index-then-call":
            h = ctx.body.var("h")
            ctx.body.add(f"{h} = {l}[{self.rng.randint(0, 1)}]")
            self.call_line(ctx, f"{h}({self.arg(ctx)})", self.site("function-in-list"))
        else:
            fe = ctx.body.var("fe")
            ctx.body.add(f"for {fe} in {l}:")
            ctx.body.ind += 1
            self.call_line(ctx, f"{fe}({self.arg(ctx)})", self.site("function-in-list-loop"))
            ctx.body.ind -= 1

    def e_dict(self, ctx, depth):
        fs = [self.plain_callee(ctx, depth, "df") for _ in range(2)]
        for f_, _, form_ in fs:
            self.value_access[f_.qual] = form_.ref
        d = ctx.body.var("d")
        ctx.body.add(f"{d} = {{'ka': {fs[0][1]}, 'kb': {fs[1][1]}}}")
        key = self.rng.choice(["ka", "kb"])
        if self.rng.random() < 0.5:
            self.call_line(ctx, f"{d}['{key}']({self.arg(ctx)})", self.site("function-in-dict"))
        else:
            h = ctx.body.var("h")
            ctx.body.add(f"{h} = {d}['{key}']")
            self.call_line(ctx, f"{h}({self.arg(ctx)})", self.site("function-in-dict"))

    def e_field(self, ctx, depth):
        t = self.pick_mod(ctx.mod)
        c = Class(self.name("Box"), t)
        t.decls.append(c)
        self.classes.append(c)
        fld = self.name("fcb")
        init = Func("__init__", ["self", "f"], t, cls=c)
        init.body.add(f"self.{fld} = f")
        init.ret = None
        c.methods.append(init)
        run = Func(self.name("run"), ["self", "x"], t, cls=c)
        run.ret = "r"
        c.methods.append(run)
        g, gexpr, gform = self.plain_callee(ctx, depth, "ff")
        self.value_access[g.qual] = gform.ref
        cexpr, cform = self.class_ref(ctx, c)
        self.class_forms.setdefault(c.name, []).append(cform.ref)
        b = ctx.body
        o = b.var("o")
        kind = "constructor" + ("" if cform == "local" else "/" + akind(cform))
        cs = self.site(kind, f"{c.name}.__init__", recv=c.name, uses=cform.ref)
        b.add(f"{o} = {cexpr}({gexpr})", cs)
        run.body.add(f"r = self.{fld}(x)", self.site("function-in-field-via-self", recv=c.name, deps=[cs]))
        how = self.rng.choice(["inside-method", "outside", "assigned-outside"])
        if how == "inside-method":
            self.call_line(ctx, f"{o}.{run.name}({self.arg(ctx)})", self.site("method", None, recv=c.name, meth=run.name, deps=[cs]))
        elif how == "outside":
            self.call_line(ctx, f"{o}.{fld}({self.arg(ctx)})", self.site("function-in-field", recv=c.name, deps=[cs]))
        else:
            g2, g2expr, g2form = self.plain_callee(ctx, depth, "ff")
            self.value_access[g2.qual] = g2form.ref
            b.add(f"{o}.{fld} = {g2expr}")
            self.call_line(ctx, f"{o}.{fld}({self.arg(ctx)})", self.site("function-in-field-reassigned", recv=c.name, deps=[cs]))

    # -- recursion ------------------------------------------------------------------------------------
    def e_recursion(self, ctx, depth):
        t = self.pick_mod(ctx.mod)
        f = Func(self.name("rec"), ["n"], t)
        t.decls.append(f)
        self.building.append(f)
        f.body.add("r = 0")
        f.body.add("if n > 0:")
        f.body.ind += 1
        f.body.add(f"r = {f.name}(n - 1)", self.site("recursion", f.qual))
        f.body.ind -= 1
        self.fill(Ctx(t, f.body, f), depth - 1)
        self.building.pop()
        f.ret = "r + 1"
        expr, form = self.ref(ctx.mod, t, f.name)
        self.call_line(ctx, f"{expr}({self.rng.randint(1, 3)})", self.nsite(form, f.qual))

    def e_mutual(self, ctx, depth):
        t = self.pick_mod(ctx.mod)
        a = Func(self.name("mra"), ["n"], t)
        b = Func(self.name("mrb"), ["n"], t)
        t.decls += [a, b]
        for p, q in ((a, b), (b, a)):
            p.body.add("r = 0")
            p.body.add("if n > 0:")
            p.body.ind += 1
            p.body.add(f"r = {q.name}(n - 1)", self.site("mutual-recursion", q.qual))
            p.body.ind -= 1
            p.ret = "r + 1"
        self.building += [a, b]
        self.fill(Ctx(t, a.body, a), depth - 1)
        self.building = self.building[:-2]
        expr, form = self.ref(ctx.mod, t, a.name)
        self.call_line(ctx, f"{expr}({self.rng.randint(1, 4)})", self.nsite(form, a.qual))

    def e_nested(self, ctx, depth):
        t = self.pick_mod(ctx.mod)
        outer = Func(self.name("outer"), ["x"], t)
        t.decls.append(outer)
        inner = Func(self.name("inner"), ["y"], t, parent=outer)
        self.building += [outer, inner]
        self.fill(Ctx(t, inner.body, inner), depth - 1)
        self.building = self.building[:-2]
        inner.ret = "y + 1"
        outer.nested.append(inner)
        outer.body.add(f"r = {inner.name}(x)", self.site("nested-function", inner.qual))
        outer.ret = "r"
        expr, form = self.ref(ctx.mod, t, outer.name)
        self.call_line(ctx, f"{expr}({self.arg(ctx)})", self.nsite(form, outer.qual))

    # ---- rendering -----------------------------------------------------------------------------
    def render(self, entry):
        files, sites, defs, placed = {}, [], [], {}
        for m in self.mods:
            out = []

            def put(ind, text, site=None):
                out.append("    " * ind + text)
                if site is not None:
                    s = dict(site)
                    s["file"], s["line"] = m.relpath, len(out)
                    placed[id(site)] = [m.relpath, len(out)]
                    sites.append(s)

            def put_body(ind, body):
                for i, t, s in body.lines:
                    put(ind + i, t, s)

            def put_func(ind, f):
                first = len(out) + 1
                for d in f.decorators:
                    put(ind, d)
                put(ind, f"def {f.name}({', '.join(f.params)}):")
                defs.append({"file": m.relpath, "line": len(out), "first_line": first, "qual": f.qual, "name": f.name,
                             "cls": f.cls.name if f.cls else None})
                for nf in f.nested:
                    put_func(ind + 1, nf)
                put_body(ind + 1, f.body)
                if f.ret is not None:
                    put(ind + 1, f"return {f.ret}")
                elif not f.body.lines and not f.nested:
                    put(ind + 1, "pass")

            for imp in m.imports:
                put(0, imp)
            for d in m.decls:
                if isinstance(d, Func):
                    put_func(0, d)
                else:
                    bases = ", ".join(e for e, _ in d.bases)
                    put(0, f"class {d.name}({bases}):" if bases else f"class {d.name}:")
                    if not d.methods:
                        put(1, "pass")
                    for meth in d.methods:
                        put_func(1, meth)
            put_body(0, m.top)
            files[m.relpath] = "\n".join(out) + "\n"
        # import statements that interfere with each other (the generator's knowledge of the text, nothing about the analysis):
        #  - a name bound by `from pk.m import N` after a plain dotted `import pk.m` of the same module in the same file
        #  - a name whose symbol (module, function, class) is imported again later in the same file under a different name
        #  - a module name bound by a plain absolute `import x[.y]` in a file that lives in a sub-directory
        interference = {}
        for m in self.mods:
            dotted = set()
            bound = {}       # symbol key -> [bound names in order]
            for imp in m.imports:
                parts = imp.split()
                if parts[0] == "import":
                    sym, name = parts[1], (parts[3] if len(parts) == 4 else parts[1].split(".")[0])
                    if "." in parts[1] and len(parts) == 2:
                        dotted.add(parts[1])
                    if m.dirs:
                        # absolute `import x.y` written in a file of a sub-directory: x is not a sibling of that file
                        interference.setdefault(m.relpath, {}).setdefault(name, "bound-by-plain-import-of-a-non-sibling-module")
                else:
                    sym, name = parts[1] + "." + parts[3], parts[-1]
                    if parts[1] in dotted:
                        interference.setdefault(m.relpath, {})[name] = "after-dotted-import-of-the-same-module"
                bound.setdefault(sym, [])
                if name not in bound[sym]:
                    bound[sym].append(name)
            for sym, names in bound.items():
                for n in names[:-1]:           # takes precedence over the other two reasons
                    interference.setdefault(m.relpath, {})[n] = "overwritten-by-later-import-of-the-same-symbol"
        for s_ in sites:
            s_["deps"] = [placed[id(d)] for d in s_.get("deps", []) if id(d) in placed]
        classes = {}
        for c in self.classes:
            owner = c.find("__init__")
            classes[c.name] = {"bases": [b.name for _, b in c.bases], "methods": [x.name for x in c.methods], "file": c.mod.relpath,
                               "init": "own-init" if owner is c else ("inherited-init" if owner is not None else "no-init"),
                               "base_form": c.base_form,
                               "refs": list(self.class_forms.get(c.name, ()))}
        return {"tag": self.tag, "files": files, "main": self.mods[0].dotted, "entry": entry, "sites": sites, "defs": defs,
                "classes": classes, "value_access": dict(self.value_access), "import_interference": interference,
                "candidates": dict(self.cand_role)}


def generate(seed, tag, **kw):
    return Gen(random.Random(seed), tag, **kw).build()


# ---- classification of an observed call event from the generator's own knowledge ---------------------------------

def ancestors(classes, name):
    out = []
    while name in classes and classes[name]["bases"]:
        name = classes[name]["bases"][0]
        out.append(name)
    return out


def provider(classes, cname, meth):
    for c in [cname] + ancestors(classes, cname):
        if c in classes and meth in classes[c]["methods"]:
            return c
    return None


METHOD_KINDS = ("method", "self-method", "method-on-parameter-object", "method-on-returned-object", "bound-method-value")
VALUE_KINDS = ("callback-parameter", "returned-function", "returned-closure", "function-in-variable", "function-in-list",
               "function-in-list-loop", "function-in-dict", "function-in-field", "function-in-field-via-self",
               "function-in-field-reassigned")
ATTRIBUTE_FORMS = ("module-attribute", "package-attribute", "aliased-package-attribute")
OWN_MECHANISM = ("super-init-call", "function-in-field-via-self", "returned-function")


def _interference(project, ref):
    return project.get("import_interference", {}).get(ref.get("file"), {}).get(ref.get("name")) if ref else None


def _ref_tag(project, ref, what):
    """provenance tag of one reference, or None when it is an ordinary one (local name or plain from-import)"""
    if not ref:
        return None
    r = _interference(project, ref)
    if r:
        return f"{what}-name-{r}"
    if ref.get("form") in ATTRIBUTE_FORMS:
        return f"{what}-named-via-{ref['form']}"
    return None


def link_refs(classes, lower, upper):
    """the `class X(<base>)` references on the way up from class `lower` to its ancestor `upper`"""
    out, c = [], lower
    while c in classes and c != upper and classes[c]["bases"]:
        if classes[c].get("base_form"):
            out.append(classes[c]["base_form"])
        c = classes[c]["bases"][0]
    return out if c == upper else []


def provenance_tag(project, site, callee_qual, recv_classes, under_try, caller_cls):
    """The single most upstream thing that is unusual about how this call's callee can be found, from a closed vocabulary and
    in a fixed order (name resolution first, then hierarchy, then the value's travel, then control context); None if nothing is.
    Everything here is the generator's own knowledge of the program, not of the analysis."""
    classes = project["classes"]
    kind = site["kind"]
    ccls = callee_qual.split(".")[0] if "." in callee_qual else None
    # 1. the name written at the call site itself
    t = _ref_tag(project, site.get("uses"), "callee")
    if t and not (kind.startswith(("constructor", "static-method", "class-method")) or kind in ACCESS_KIND.values()):
        t = None
    if t and site.get("uses", {}).get("form") in ATTRIBUTE_FORMS and not _interference(project, site["uses"]):
        t = None          # plain m.f(..) / m.K(..): the access form already is the call kind
    if t:
        return t
    # 2. the receiver object: a class without constructor leaves no call event at its instantiation, so how the class was
    #    named there is part of this event's provenance (with a constructor, a failed constructor call makes this event derived)
    if kind in METHOD_KINDS or kind.startswith("function-in-field"):
        recvs = list(recv_classes or ()) if kind in METHOD_KINDS else [site.get("recv")]
        per = []
        for rc in recvs:
            info = classes.get(rc)
            if info is None:
                continue
            tags = []
            if info.get("init") == "no-init":
                rts = {_ref_tag(project, r, "receiver-class") for r in info.get("refs", [])}
                if rts and None not in rts:
                    tags.append(sorted(rts)[0])
            toward = [ccls] if kind in METHOD_KINDS and ccls else []
            if kind == "self-method" and caller_cls:
                toward.append(caller_cls)
            for up in toward:
                for lr in link_refs(classes, rc, up):
                    lt = _ref_tag(project, lr, "base-class")
                    if lt:
                        tags.append(lt)
            if info.get("init") == "no-init" and kind in METHOD_KINDS:
                tags.append("receiver-class-without-constructor")
            per.append(tags[0] if tags else None)
        if per and None not in per:
            return sorted(per)[0]
    # 3. constructors / base-constructor calls that run an ancestor's __init__: the base-class references on the way
    if kind.startswith("constructor-inherited-init") or kind in ("super-init-call", "explicit-base-init-call"):
        lower = site.get("recv") if kind.startswith("constructor") else caller_cls
        for lr in link_refs(classes, lower, ccls):
            lt = _ref_tag(project, lr, "base-class")
            if lt:
                return lt
    # 4. the function value
    if kind in VALUE_KINDS or kind.startswith(("callback-keyword-argument", "callback-with-two-candidate-values",
                                              "call-through-parameter-of-one-of-two-targets")):
        vref = project.get("value_access", {}).get(callee_qual)
        t = _ref_tag(project, vref, "function-value")
        if t and vref.get("form") == "module-attribute" and not _interference(project, vref):
            t = None          # g = m.f is an ordinary attribute read (only the dotted forms pk.m.f / alias-of-pk.m are singled out)
        if t:
            return t
    # 5. control context: the receiver object went through a try statement on the way here
    if under_try and kind in METHOD_KINDS and site.get("ctrl") not in ("try", "finally", "after-try"):
        return "under-try"
    return None


def event_kind(project, site, callee_qual, recv_classes=(), under_try=False, caller_cls=None, inside_other_cycle=False,
               under_bound_method=False):
    """mechanism class of one observed call event, from the generator's own knowledge: the site's kind, refined for method
    calls by where the callee that really ran is declared relative to the receiver's class (own / inherited / overriding /
    subclass override) and by the control construct around the call; when something upstream is unusual about how the callee can
    be found (provenance_tag) that tag replaces the control refinement, so that the vocabulary stays closed."""
    kind = site["kind"]
    classes = project["classes"]
    if kind.startswith("call-with-two-targets"):
        kind = f"{kind}/{project.get('candidates', {}).get(callee_qual.replace('constructor', '__init__'), 'unknown')}-target-runs"
    if kind.startswith("callback-with-two-candidate-values"):
        which = project.get("candidates", {}).get(callee_qual) or project.get("candidates", {}).get(callee_qual.replace("constructor", "__init__"))
        kind = f"{kind}/{which or 'unknown'}-candidate-runs"
    ctrl = (f"[{site['ctrl']}]" if site["ctrl"] == "after-try" else f"[in-{site['ctrl']}]") if site.get("ctrl") else ""
    ptag = provenance_tag(project, site, callee_qual, recv_classes, under_try, caller_cls)
    # kinds whose resolution needs more than finding a name and walking the class hierarchy (a value returned by a call, a value
    # kept in a field of self, super(), dynamic dispatch on self) are named by the kind alone: how the names involved were
    # imported is secondary there
    if kind in OWN_MECHANISM:
        return kind
    if kind in ("recursion", "mutual-recursion") and inside_other_cycle:
        # the recursive function is (also) called from inside a recursion cycle of its callers: its own call site is then
        # visited many times in contexts where it cannot be analysed any more
        return kind + "{also-reached-inside-another-recursion-cycle}"
    if kind == "self-method" and callee_qual.split(".")[0] != site["recv"] and callee_qual.split(".")[0] not in ancestors(classes, site["recv"]):
        if ptag not in ("under-try", "receiver-class-without-constructor"):
            ptag = "receiver-class-without-constructor" if any(
                classes.get(rc, {}).get("init") == "no-init" for rc in recv_classes or ()) and all(
                classes.get(rc, {}).get("init") == "no-init" for rc in recv_classes or ()) else ("under-try" if under_try else None)
        if ptag is None and under_bound_method:
            # the method that makes this self-call was itself invoked through a bound-method value (bm = o.m ; bm(..))
            return "self-method-dispatched-to-subclass-override{method-invoked-through-bound-method-value}"
    if (site.get("uses") or {}).get("form", "local") != "local":
        ctrl = ""                  # the access form is the kind; the control context is not refined further
        if ptag == "under-try":
            ptag = None
    if ptag and ptag not in ("under-try", "receiver-class-without-constructor"):
        # a defect in *name resolution* (imports, attribute access on modules): whatever is named that way is affected alike,
        # so the mechanism is the tag itself, not the call kind
        for w in ("callee-", "receiver-class-", "base-class-", "function-value-"):
            if ptag.startswith(w + "name-"):
                return "imported-" + ptag[len(w):]
        return ptag
    uses_form = (site.get("uses") or {}).get("form", "local")
    if uses_form in ATTRIBUTE_FORMS:
        # m.f(..), m.K(..), m.K.sm(..): what matters is that the callee is named through an attribute of a module
        fam = "constructor/" if kind.startswith("constructor") else ("class-member/" if kind.startswith(("static-method", "class-method")) else "")
        return fam + ACCESS_KIND[uses_form]
    suffix = "{" + ptag + "}" if ptag else ctrl
    if kind in METHOD_KINDS:
        recv, meth = site["recv"], site["meth"]
        ccls = callee_qual.split(".")[0]
        if kind == "self-method":
            # recv is the class whose body contains the call; the object may be an instance of a subclass
            if ccls == recv:
                rel = "own"
            elif ccls in ancestors(classes, recv):
                rel = "inherited"
            else:
                rel = "dispatched-to-subclass-override"
            return f"self-method-{rel}{suffix}"
        if ccls == recv:
            above = [a for a in ancestors(classes, recv) if meth in classes[a]["methods"]]
            rel = "overridden-method" if above else "receiver-method"
        elif ccls in ancestors(classes, recv):
            rel = "inherited-method"
        else:
            rel = "receiver-method-other-class"
        if kind == "method" or ptag:
            return rel + suffix
        return f"{kind}:{rel}{suffix}"
    return kind + suffix


# ---------------------------------------------------------------------------------------------------------------------
# JavaScript rendering of the same generated programs (single file). Every Python line becomes exactly one JavaScript line
# (closing braces are appended to the last line of a block), so the line numbers of sites and defs stay valid.

import re as _re

_ID = r"[A-Za-z_][A-Za-z_0-9]*"


def generate_js(seed, tag, **kw):
    """A single-file project rendered as JavaScript + an instrumented copy for node (same events as sys.setprofile gives).
    Constructs without a JavaScript counterpart (explicit Base.__init__(self, ..), plain bound-method values) are not generated."""
    g = Gen(random.Random(seed), tag, n_files=1, package=False, **kw)
    g.js = True
    g.weights["static"] = g.weights.get("static", 1)
    proj = g.build()
    rel = next(iter(proj["files"]))
    text = proj["files"][rel]
    site_at = {s["line"]: s for s in proj["sites"]}
    def_at = {d["line"]: d for d in proj["defs"]}
    plain, instr = py_to_js(text, site_at, def_at)
    jrel = rel[:-3] + ".js"
    for coll in (proj["sites"], proj["defs"]):
        for x in coll:
            x["file"] = jrel
            for k in ("callee", "qual", "name"):
                if isinstance(x.get(k), str):
                    x[k] = x[k].replace("__init__", "constructor")
            x["deps"] = [[jrel, d[1]] for d in x.get("deps", [])] if "deps" in x else x.get("deps")
    for c in proj["classes"].values():
        c["file"] = jrel
        c["methods"] = ["constructor" if m == "__init__" else m for m in c["methods"]]
    proj["files"] = {jrel: plain}
    proj["node_files"] = {jrel: instr}
    proj["main"] = jrel
    proj["lang"] = "javascript"
    return proj


NODE_PROLOGUE = (
    "var __S = [], __E = [], __L = 0;\n"
    "function __in(name, self) {\n"
    "  var chain = [[__S.length ? __S[__S.length - 1][0] : '<module>', __L]];\n"
    "  for (var i = __S.length - 1; i >= 0; i--) chain.push([i > 0 ? __S[i - 1][0] : '<module>', __S[i][1]]);\n"
    "  var cn = null; try { cn = (self && self.constructor) ? self.constructor.name : null; } catch (e) {}\n"
    "  __E.push([name, cn, chain]); __S.push([name, __L]);\n"
    "}\n"
    "function __out() { __S.pop(); }\n"
)


def py_to_js(text, site_at, def_at):
    lines = text.rstrip("\n").split("\n")
    ind = [(len(l) - len(l.lstrip(" "))) // 4 for l in lines]
    plain, instr = [], []
    block_kind = {}          # indent level of the block's header -> 'func' | 'class' | 'other'   (stack by depth)
    stack = []               # [(depth of header, kind)]
    pending_static = False
    for i, raw in enumerate(lines):
        d = ind[i]
        s = raw.strip().replace("self.", "this.")
        while stack and stack[-1][0] >= d:
            stack.pop()
        in_class = bool(stack) and stack[-1][1] == "class"
        lineno = i + 1
        opens = None
        pre = ""
        m = _re.match(rf"def ({_ID})\((.*)\):$", s)
        if s.startswith("@"):
            js = "// " + s
            pending_static = True
        elif m:
            name, params = m.group(1), [p.strip() for p in m.group(2).split(",") if p.strip()]
            q = def_at[lineno]["qual"].replace("__init__", "constructor")
            if in_class:
                if params and params[0] in ("self", "this", "cls") and not (pending_static and params[0] != "cls"):
                    params = params[1:]
                jname = "constructor" if name == "__init__" else name
                js = ("static " if pending_static else "") + f"{jname}({', '.join(params)}) {{"
                this = "null" if (pending_static or jname == "constructor") else "this"
            else:
                js = f"function {name}({', '.join(params)}) {{"
                this = "null"
            pending_static = False
            opens = ("func", f' __in("{q}", {this}); try {{')
        elif _re.match(rf"class ({_ID})(\((.*)\))?:$", s):
            mm = _re.match(rf"class ({_ID})(\((.*)\))?:$", s)
            js = f"class {mm.group(1)}" + (f" extends {mm.group(3)}" if mm.group(3) else "") + " {"
            opens = ("class", "")
        elif s == "pass":
            js = ";"
        elif s == "else:":
            js, opens = "else {", ("other", "")
        elif s == "try:":
            js, opens = "try {", ("other", "")
        elif s.startswith("except"):
            js, opens = "catch (e) {", ("other", "")
        elif s == "finally:":
            js, opens = "finally {", ("other", "")
        elif _re.match(r"if (.*):$", s):
            js, opens = f"if ({s[3:-1]}) {{", ("other", "")
        elif _re.match(r"while (.*):$", s):
            js, opens = f"while ({s[6:-1]}) {{", ("other", "")
        elif _re.match(rf"for ({_ID}) in range\((\d+)\):$", s):
            mm = _re.match(rf"for ({_ID}) in range\((\d+)\):$", s)
            js, opens = f"for (var {mm.group(1)} = 0; {mm.group(1)} < {mm.group(2)}; {mm.group(1)}++) {{", ("other", "")
        elif _re.match(rf"for ({_ID}) in ({_ID}):$", s):
            mm = _re.match(rf"for ({_ID}) in ({_ID}):$", s)
            js, opens = f"for (var {mm.group(1)} of {mm.group(2)}) {{", ("other", "")
        elif s.startswith("return"):
            js = s + ";"
        elif s.startswith("super().__init__("):
            js = "super(" + s[len("super().__init__("):] + ";"
        else:
            site = site_at.get(lineno)
            mm = _re.match(rf"({_ID}) = (.*)$", s)
            if mm:
                rhs = mm.group(2)
                if site is not None and site["kind"].startswith("constructor"):
                    rhs = "new " + rhs
                js = f"var {mm.group(1)} = {rhs};"
            else:
                js = s + ";"
        if lineno in site_at:
            pre = f"__L = {lineno}; "
        pj, ij = js, pre + js
        if opens is not None:
            stack.append((d, opens[0]))
            ij = pre + js + opens[1]
        # close the blocks that end after this line
        nxt = ind[i + 1] if i + 1 < len(lines) else 0
        if opens is not None and nxt <= d:           # empty block (cannot happen: bodies always have a line)
            nxt = d
        closing = [k for (dd, k) in stack if dd >= nxt]
        for k in reversed(closing):
            pj += " }"
            ij += " } finally { __out(); } }" if k == "func" else " }"
        plain.append("    " * d + pj)
        instr.append("    " * d + ij)
    return "\n".join(plain) + "\n", NODE_PROLOGUE + "\n".join(instr) + "\n"
