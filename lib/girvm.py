"""girvm — reference executor for the flattened GIR that lian emits (read back from frontend/gir.bundle*).

It implements the documented meaning of the GIR instructions (docs/en/03.frontend/3-2.gir.md) over the operand
columns that the language-independent analyses read. It is a yardstick, not a second frontend: an operation or
operand shape it does not know is *opaque* (VMOpaque) and never guessed. Only operators/truthiness/literal syntax are
language-family dependent. See DESIGN.md Appendix A.

Trace: for every activation the list of executed statement ids; optional def/use events."""
import ast
import keyword
import math

UNBOUND = object()


class VMError(Exception):
    """The GIR cannot be executed as emitted (unbound read, bad operand, unknown operation...)."""


class VMOpaque(VMError):
    """An operation/operand outside the shared vocabulary."""


class VMBudget(VMError):
    pass


class GirThrow(Exception):
    def __init__(self, value):
        self.value = value


class Obj:
    __slots__ = ("cls", "fields", "alloc")

    def __init__(self, cls, alloc=None):
        self.cls, self.fields, self.alloc = cls, {}, alloc

    def __repr__(self):
        return f"<obj {self.cls.name if self.cls else '?'}>"


class Func:
    __slots__ = ("row", "scope", "unit", "owner")

    def __init__(self, row, scope, unit, owner=None):
        self.row, self.scope, self.unit, self.owner = row, scope, unit, owner

    def __repr__(self):
        return f"<func {self.row.get('name')}>"


class StaticRef:
    __slots__ = ("func", "cls")

    def __init__(self, func, cls):
        self.func, self.cls = func, cls


class Bound:
    __slots__ = ("func", "this")

    def __init__(self, func, this):
        self.func, self.this = func, this


class Class:
    __slots__ = ("row", "name", "supers", "methods", "statics", "unit", "static_names")

    def __init__(self, row, name, unit):
        self.row, self.name, self.unit = row, name, unit
        self.supers, self.methods, self.statics = [], {}, {}
        self.static_names = set()      # declared static fields (Java: readable / writable by their bare name inside the class)

    def mro(self):
        out, todo = [], [self]
        while todo:
            c = todo.pop(0)
            if c in out:
                continue
            out.append(c)
            todo = [s for s in c.supers if isinstance(s, Class)] + todo
        return out

    def find(self, name):
        for c in self.mro():
            if name in c.methods:
                return c.methods[name]
        return None

    def __repr__(self):
        return f"<class {self.name}>"


class Module:
    __slots__ = ("unit",)

    def __init__(self, unit):
        self.unit = unit


class Namespace:
    __slots__ = ("members",)

    def __init__(self, members):
        self.members = members


class Builtin:
    __slots__ = ("name", "fn")

    def __init__(self, name, fn):
        self.name, self.fn = name, fn


class Scope:
    __slots__ = ("vars", "defs", "parent", "redirect", "frame")

    def __init__(self, parent, frame):
        self.vars, self.defs, self.parent, self.redirect, self.frame = {}, {}, parent, None, frame


class Frame:
    __slots__ = ("method_id", "root", "this", "cls", "trace", "name", "events", "ended", "notes")

    def __init__(self, method_id, name):
        self.method_id, self.name = method_id, name
        self.root, self.this, self.cls = None, UNBOUND, UNBOUND
        self.trace = []
        self.events = []
        self.ended = "normal"
        self.notes = {}       # trace index of a transition's destination -> [tags] (see C04)


class Unit:
    def __init__(self, unit_id, rows, lang, path=None):
        self.unit_id, self.lang, self.path = unit_id, lang, path
        self.rows = rows
        self.top = []
        self.blocks = {}
        self.row_by_id = {}
        self.parent_of = {}
        self.globals = None
        self.initialised = False
        self.unit_init = None
        stack = []
        for r in rows:
            op = r.get("operation")
            sid = r.get("stmt_id")
            if op == "block_start":
                self.blocks[sid] = []
                stack.append(sid)
                continue
            if op == "block_end":
                if stack and stack[-1] == sid:
                    stack.pop()
                continue
            self.row_by_id[sid] = r
            par = r.get("parent_stmt_id", 0)
            if par == 0 or par not in self.blocks:
                self.top.append(r)
            else:
                self.blocks[par].append(r)
            if op == "method_decl" and r.get("name") == "%unit_init":
                self.unit_init = r


def _int(v):
    return int(v)


BODY_COLS = ("body", "then_body", "else_body", "init_body", "condition_prebody", "update_body", "parameters",
             "fields", "methods", "nested", "static_init", "init", "catch_body", "final_body")

EXC_NAMES = ("ValueError", "KeyError", "Exception", "Error", "RuntimeError", "TypeError", "RuntimeException", "Throwable")
PY_CONSTS = {"True": True, "False": False, "None": None}
JS_CONSTS = {"true": True, "false": False, "null": None, "undefined": None, "nil": None, "NULL": None, "TRUE": True, "FALSE": False,
             "True": True, "False": False, "None": None}      # lian folds constants with Python and emits Python spellings


class VM:
    def __init__(self, units, lang="python", budget=200000, record_events=False, switches=()):
        """units: list of Unit. The first unit whose language is `lang` ... all units share one VM."""
        self.units = units
        self.lang = lang
        self.budget = budget
        self.steps = 0
        self.outputs = []
        self.raw_outputs = []
        self.activations = []          # (method stmt id, [stmt ids])
        self.opaque = []
        self.undeclared_writes = []
        self.record_events = record_events
        self.switches = set(switches)
        self.depth = 0
        self._decl_seen = set()
        self.externals = {}
        self.family = {"python": "py", "javascript": "js", "typescript": "js", "java": "c", "c": "c", "go": "c",
                       "php": "php", "csharp": "c"}.get(lang, "py")
        self._install_builtins()
        self.handlers = {
            "variable_decl": self.op_variable_decl, "parameter_decl": self.op_nop, "assign_stmt": self.op_assign,
            "call_stmt": self.op_call, "object_call_stmt": self.op_object_call, "new_object": self.op_new_object,
            "return_stmt": self.op_return, "if_stmt": self.op_if, "while_stmt": self.op_while,
            "dowhile_stmt": self.op_dowhile, "for_stmt": self.op_for, "forin_stmt": self.op_forin,
            "for_value_stmt": self.op_for_value, "break_stmt": self.op_break, "continue_stmt": self.op_continue,
            "new_array": self.op_new_array, "new_record": self.op_new_record, "new_set": self.op_new_array,
            "array_write": self.op_array_write, "array_read": self.op_array_read, "array_append": self.op_array_append,
            "record_write": self.op_record_write, "field_write": self.op_field_write, "field_read": self.op_field_read,
            "slice_read": self.op_slice_read, "class_decl": self.op_class_decl, "record_decl": self.op_class_decl,
            "struct_decl": self.op_class_decl, "method_decl": self.op_method_decl, "pass_stmt": self.op_nop,
            "global_stmt": self.op_global, "nonlocal_stmt": self.op_nonlocal, "del_stmt": self.op_nop,
            "assert_stmt": self.op_nop, "package_stmt": self.op_nop, "import_stmt": self.op_import,
            "from_import_stmt": self.op_from_import, "echo_stmt": self.op_echo, "switch_stmt": self.op_switch,
            "try_stmt": self.op_try, "throw_stmt": self.op_throw, "type_cast_stmt": self.op_type_cast,
            "block_stmt": self.op_block,
        }
        if "go-return-operation" in self.switches:
            self.handlers["return"] = lambda u, r, f, sc: ("return", self.val(f, sc, r.get("target"), r) if r.get("target") not in (None, "") else None)
        if "expression-stmt-rows" in self.switches:
            self.handlers["expression_stmt"] = self.op_nop
        if "go-struct-type-decl" in self.switches:
            self.handlers["type_decl"] = self.op_go_type_decl
        if "try-body-columns" in self.switches:
            self.handlers["finally_stmt"] = self.op_block       # TypeScript wraps the finally statements in one finally_stmt row
        if self.lang == "go":
            # Go: `fallthrough` is the only way from the end of one switch clause into the next (see op_switch)
            self.handlers["fallthrough_stmt"] = lambda u, r, f, sc: ("fallthrough", None)

    # ------------------------------------------------------------------ builtins
    def _install_builtins(self):
        def out(*a):
            self.outputs.append(tuple(self.show(x) for x in a))
            self.raw_outputs.append(a[0] if len(a) == 1 else tuple(a))
            return None

        def printf(fmt, *a):
            if not isinstance(fmt, str) or len(a) != 1:
                raise VMOpaque("printf with other than one value")
            return out(a[0])
        b = {"out": out, "len": lambda x: len(x), "abs": abs, "str": lambda x: self.to_str(x), "int": int,
             "min": min, "max": max, "bool": bool}
        b["range"] = lambda *a: list(range(*a))
        for k, f in b.items():
            self.externals[k] = Builtin(k, f)
        if self.family == "py":
            self.externals["print"] = Builtin("print", out)
        for en in EXC_NAMES:
            self.externals[en] = Builtin(en, (lambda *a, _n=en: {"%exc": _n, "args": list(a)}))
        self.console = {"log": Builtin("console.log", out)}
        outb = Builtin("out", out)
        if self.family == "js":
            self.externals["console"] = Namespace({"log": outb})
        if self.lang == "java":
            self.externals["System"] = Namespace({"out": Namespace({"println": outb})})
        if self.lang == "go":
            self.externals["fmt"] = Namespace({"Println": outb})
        if self.lang == "c":
            self.externals["printf"] = Builtin("printf", printf)
            self.externals["puts"] = outb

    def show(self, v):
        if isinstance(v, bool) or v is None or isinstance(v, (int, str)):
            return repr(v)
        if isinstance(v, float):
            return repr(v)
        if isinstance(v, list):
            return "[" + ", ".join(self.show(x) for x in v) + "]"
        if isinstance(v, dict):
            return "{" + ", ".join(f"{self.show(k)}: {self.show(x)}" for k, x in v.items()) + "}"
        if isinstance(v, Obj):
            return f"<obj {v.cls.name if v.cls else '?'}>"
        return f"<{type(v).__name__}>"

    def to_str(self, v):
        if isinstance(v, (Obj, Func, Class, Bound)):
            raise VMError("str() of a heap object")
        return str(v)

    # ------------------------------------------------------------------ operands
    def is_var(self, s):
        if not isinstance(s, str) or not s:
            return False
        if self.family == "py":
            if s in PY_CONSTS:
                return False
            if keyword.iskeyword(s) and s not in ("as", "is"):
                return False
        else:
            if s in JS_CONSTS:
                return False
        c = s[0]
        return c in "%@$_" or c.isalpha()

    def literal(self, s):
        if not isinstance(s, str):
            return s
        if self.family == "py":
            if s in PY_CONSTS:
                return PY_CONSTS[s]
        elif s in JS_CONSTS:
            return JS_CONSTS[s]
        if s == "":
            raise VMError("empty operand")
        try:
            v = ast.literal_eval(s)
        except Exception:
            raise VMOpaque(f"literal operand {s!r}")
        if isinstance(v, (int, float, str, bool)) or v is None:
            return v
        raise VMOpaque(f"literal operand {s!r}")

    def val(self, frame, scope, operand, stmt):
        if self.is_var(operand):
            return self.read(frame, scope, operand, stmt)
        return self.literal(operand)

    # ------------------------------------------------------------------ environment
    def find_scope(self, scope, name):
        s = scope
        while s is not None:
            if s.redirect and name in s.redirect:
                return s.redirect[name]
            if name in s.vars:
                return s
            s = s.parent
        return None

    def read(self, frame, scope, name, stmt):
        if name == "%this" or (name in ("this", "self") and frame.this is not UNBOUND and self.family != "py"):
            if frame.this is UNBOUND:
                raise VMError("%this read outside a method")
            return frame.this
        if name == "%class":
            if frame.cls is UNBOUND:
                raise VMError("%class read outside a class initialiser")
            return frame.cls
        s = self.find_scope(scope, name)
        if s is None:
            owner = frame.cls if isinstance(frame.cls, Class) else (frame.this.cls if isinstance(frame.this, Obj) else None)
            if owner is not None and self.lang == "java":
                for c in owner.mro():
                    if name in c.statics:
                        return c.statics[name]
                    if name in c.static_names:
                        raise VMError(f"read of unassigned static field {name!r} at stmt {stmt.get('stmt_id')}")
            if owner is not None:
                m = owner.find(name)
                if m is not None:
                    return Bound(m, frame.this) if isinstance(frame.this, Obj) else StaticRef(m, owner)
            if name in self.externals:
                return self.externals[name]
            raise VMError(f"read of unbound name {name!r} at stmt {stmt.get('stmt_id')}")
        v = s.vars[name]
        if v is UNBOUND:
            if name in self.externals and s.frame is None:
                return self.externals[name]
            raise VMError(f"read of declared but unassigned {name!r} at stmt {stmt.get('stmt_id')}")
        if self.record_events:
            frame.events.append(("use", stmt.get("stmt_id"), name, s.defs.get(name), id(s)))
        return v

    def write(self, frame, scope, name, value, stmt):
        if not isinstance(name, str) or not name:
            raise VMError(f"write to bad target {name!r}")
        s = self.find_scope(scope, name)
        if s is None and self.lang == "java":
            owner = frame.cls if isinstance(frame.cls, Class) else (frame.this.cls if isinstance(frame.this, Obj) else None)
            if owner is not None:
                for c in owner.mro():
                    if name in c.statics or name in c.static_names:
                        c.statics[name] = value       # a static field written by its bare name
                        return
        if s is None:
            s = frame.root
            if not name.startswith("%") and name != "_":
                self.undeclared_writes.append((stmt.get("stmt_id"), name))
        s.vars[name] = value
        s.defs[name] = stmt.get("stmt_id")
        if self.record_events:
            frame.events.append(("def", stmt.get("stmt_id"), name, None, id(s)))

    def declare(self, scope, name):
        if scope.redirect and name in scope.redirect:
            return
        if name not in scope.vars:
            scope.vars[name] = UNBOUND

    # ------------------------------------------------------------------ running
    def init_unit(self, unit):
        if unit.initialised:
            return
        unit.initialised = True
        unit.globals = Scope(None, None)
        frame = Frame(unit.unit_init.get("stmt_id") if unit.unit_init else 0, "%unit_init")
        # top-level rows: declarations (variables, methods, classes, imports)
        top_frame = Frame(0, "%top")
        top_frame.root = unit.globals
        for r in unit.top:
            if r is unit.unit_init:
                continue
            self.exec_stmt(unit, r, top_frame, unit.globals, count=False)
        if unit.unit_init is not None:
            func = Func(unit.unit_init, unit.globals, unit)
            self.call_func(func, [], {}, UNBOUND, unit.unit_init)

    def run_entry(self, unit, entry_name, args):
        self.init_unit(unit)
        s = self.find_scope(unit.globals, entry_name)
        if s is None or s.vars[entry_name] is UNBOUND:
            raise VMError(f"entry {entry_name!r} not defined by the unit")
        f = s.vars[entry_name]
        return self.call_value(f, list(args), {}, {"stmt_id": -1})

    def run_program(self, unit):
        """Run a whole program by the language's entry convention (DESIGN Appendix B)."""
        self.init_unit(unit)
        if self.lang == "java":
            for r in unit.top:
                if r.get("operation") == "class_decl":
                    cls = unit.globals.vars.get(r.get("name"))
                    if isinstance(cls, Class) and "main" in cls.methods:
                        return self.call_func(cls.methods["main"], [[]], {}, UNBOUND, {"stmt_id": -1}, cls=cls)
            raise VMError("no class with a main method")
        if self.lang in ("go", "c"):
            return self.run_entry(unit, "main", [])
        return None

    def exec_block(self, unit, bid, frame, scope, new_scope=True):
        rows = unit.blocks.get(_int(bid))
        if rows is None:
            raise VMError(f"body {bid} names no block")
        inner = Scope(scope, frame) if new_scope else scope
        if "declaration-after-first-assignment" in self.switches:
            rows = self._hoist_late_decls(rows)
        for r in rows:
            sig = self.exec_stmt(unit, r, frame, inner)
            if sig is not None:
                return sig
        return None

    def _hoist_late_decls(self, rows):
        """compensation 'declaration-after-first-assignment': a variable_decl emitted after the first statement of the
        same block that assigns the variable is moved in front of that statement (what a repaired lowering emits)."""
        out = list(rows)
        j = 0
        while j < len(out):
            r = out[j]
            if r.get("operation") == "variable_decl":
                name = r.get("name")
                first = None
                for i in range(j):
                    if out[i].get("operation") == "variable_decl" and out[i].get("name") == name:
                        first = None
                        break
                    if first is None and out[i].get("target") == name:
                        first = i
                if first is not None:
                    out.insert(first, out.pop(j))
            j += 1
        return out

    def exec_stmt(self, unit, row, frame, scope, count=True):
        op = row.get("operation")
        if count:
            self.steps += 1
            if self.steps > self.budget:
                raise VMBudget("step budget exceeded")
            if op not in ("for_stmt", "dowhile_stmt") and not (op == "while_stmt" and row.get("condition_prebody") is not None):
                frame.trace.append(row.get("stmt_id"))
        h = self.handlers.get(op)
        if h is None:
            self.opaque.append((row.get("stmt_id"), op))
            raise VMOpaque(f"operation {op!r}")
        return h(unit, row, frame, scope)

    # ------------------------------------------------------------------ calls
    def params_of(self, func):
        unit = func.unit
        pb = func.row.get("parameters")
        if pb is None:
            return []
        return [r for r in unit.blocks.get(_int(pb), []) if r.get("operation") == "parameter_decl"]

    def call_func(self, func, pos, named, this, call_stmt, cls=UNBOUND):
        self.depth += 1
        if self.depth > 120:
            self.depth -= 1
            raise VMBudget("call depth exceeded")
        unit = func.unit
        frame = Frame(func.row.get("stmt_id"), func.row.get("name"))
        frame.root = Scope(func.scope, frame)
        frame.this = this
        frame.cls = cls
        params = self.params_of(func)
        pos = list(pos)
        named = dict(named)
        pi = 0
        for p in params:
            name = p.get("name")
            attrs = p.get("attrs", "") or ""
            frame.trace.append(p.get("stmt_id"))
            if "packed_positional" in attrs or "packed_named" in attrs or (isinstance(name, str) and name.startswith("*")):
                raise VMOpaque("packed parameter")
            kwonly = "keyword_pmt" in attrs
            if name in named:
                v = named.pop(name)
            elif not kwonly and pi < len(pos):
                v = pos[pi]
                pi += 1
            elif p.get("default_value") is not None:
                dv = p.get("default_value")
                # a literal default is its value; a variable default (%dvvN or a name) is read in the defining scope
                v = self.val(frame, func.scope, dv, p) if self.is_var(dv) else self.literal(dv)
            else:
                if self.family in ("js", "php"):
                    v = None
                else:
                    raise VMError(f"missing argument {name!r} calling {func.row.get('name')}")
            frame.root.vars[name] = v
            frame.root.defs[name] = p.get("stmt_id")
            if self.record_events:
                frame.events.append(("def", p.get("stmt_id"), name, None, id(frame.root)))
        if (pi < len(pos) or named) and self.family in ("py", "c"):
            raise VMError(f"too many arguments calling {func.row.get('name')}")
        self.activations.append(frame)
        ret = None
        try:
          try:
            body = func.row.get("body")
            if body is not None:
                sig = self.exec_block(unit, body, frame, frame.root, new_scope=False)
                if sig is not None:
                    if sig[0] == "return":
                        ret = sig[1]
                    else:
                        raise VMError(f"{sig[0]} outside a loop")
          except BaseException:
            frame.ended = "abrupt"
            raise
        finally:
            self.depth -= 1
        return ret

    def instantiate(self, cls, pos, named, call_stmt):
        obj = Obj(cls, call_stmt.get("stmt_id"))
        for c in reversed(cls.mro()):
            init = c.methods.get("%class_init")
            if init is not None:
                self.call_func(init, [], {}, obj, call_stmt)
            ib = c.row.get("init") if isinstance(c.row, dict) else None
            if ib is not None and not (isinstance(ib, float) and ib != ib):
                # the documented class-initialiser block (TypeScript): field initialisers, run for every new object
                f = Frame(c.row.get("stmt_id"), "%init")
                f.root = Scope(c.unit.globals, f)
                f.cls = c
                f.this = obj
                self.exec_block(c.unit, ib, f, f.root, new_scope=False)
        ctor = None
        for nm in ("__init__", "constructor", "__construct", cls.name):
            ctor = cls.find(nm)
            if ctor is not None:
                break
        if ctor is not None:
            self.call_func(ctor, pos, named, obj, call_stmt)
        elif pos or named:
            if self.family == "py":
                raise VMError(f"class {cls.name} takes no arguments")
        return obj

    def call_value(self, f, pos, named, call_stmt):
        if isinstance(f, Func):
            return self.call_func(f, pos, named, UNBOUND, call_stmt)
        if isinstance(f, Bound):
            return self.call_func(f.func, pos, named, f.this, call_stmt)
        if isinstance(f, StaticRef):
            return self.call_func(f.func, pos, named, UNBOUND, call_stmt, cls=f.cls)
        if isinstance(f, Class):
            return self.instantiate(f, pos, named, call_stmt)
        if isinstance(f, Builtin):
            try:
                return f.fn(*pos, **named)
            except VMError:
                raise
            except Exception as e:
                raise VMError(f"builtin {f.name} raised {type(e).__name__}: {e}")
        raise VMOpaque(f"call of a non-callable/unresolved value {type(f).__name__}")

    def decode_args(self, frame, scope, row):
        pa = row.get("positional_args")
        na = row.get("named_args")
        if pa is None and row.get("args") is not None:
            if "args-column" in self.switches:
                pa = row.get("args")
            else:
                raise VMOpaque("call arguments in column 'args' (the analyses read positional_args)")
        if row.get("packed_positional_args") is not None or row.get("packed_named_args") is not None:
            raise VMOpaque("packed arguments")
        pos, named = [], {}
        if pa is not None:
            try:
                lst = ast.literal_eval(pa) if isinstance(pa, str) else list(pa)
            except Exception:
                raise VMOpaque(f"positional_args {pa!r}")
            for a in lst:
                pos.append(self.val(frame, scope, a, row))
        if na is not None:
            try:
                dct = ast.literal_eval(na) if isinstance(na, str) else dict(na)
            except Exception:
                raise VMOpaque(f"named_args {na!r}")
            for k, a in dct.items():
                named[k] = self.val(frame, scope, a, row)
        return pos, named

    def op_call(self, unit, row, frame, scope):
        name = row.get("name")
        if not self.is_var(name):
            raise VMOpaque(f"call target {name!r}")
        f = self.read(frame, scope, name, row)
        pos, named = self.decode_args(frame, scope, row)
        ret = self.call_value(f, pos, named, row)
        tgt = row.get("target")
        if tgt is not None:
            self.write(frame, scope, tgt, ret, row)

    def op_new_object(self, unit, row, frame, scope):
        name = row.get("data_type")
        f = self.read(frame, scope, name, row)
        pos, named = self.decode_args(frame, scope, row)
        if isinstance(f, Builtin) and name in EXC_NAMES:
            self.write(frame, scope, row.get("target"), f.fn(*pos), row)
            return None
        if not isinstance(f, Class):
            raise VMOpaque(f"new_object of non-class {name!r}")
        ret = self.instantiate(f, pos, named, row)
        tgt = row.get("target")
        if tgt is not None:
            self.write(frame, scope, tgt, ret, row)

    def get_attr(self, recv, field, row):
        if isinstance(recv, Obj):
            if field in recv.fields:
                return recv.fields[field]
            for c in recv.cls.mro():
                if field in c.statics:
                    return c.statics[field]
            m = recv.cls.find(field)
            if m is not None:
                return Bound(m, recv)
            raise VMError(f"object has no field {field!r} (stmt {row.get('stmt_id')})")
        if isinstance(recv, Class):
            for c in recv.mro():
                if field in c.statics:
                    return c.statics[field]
            m = recv.find(field)
            if m is not None:
                return m
            raise VMError(f"class {recv.name} has no member {field!r}")
        if isinstance(recv, Namespace):
            if field in recv.members:
                return recv.members[field]
            raise VMOpaque(f"external namespace has no member {field!r}")
        if isinstance(recv, Module):
            self.init_unit(recv.unit)
            s = recv.unit.globals
            if field in s.vars and s.vars[field] is not UNBOUND:
                return s.vars[field]
            raise VMError(f"module has no global {field!r}")
        if isinstance(recv, dict) and self.family in ("js", "php"):
            if field in recv:
                return recv[field]
            if field == "length":
                return len(recv)
            return None
        if isinstance(recv, (list, str)) and field == "length" and (self.family in ("js",) or self.lang == "java"):
            return len(recv)
        raise VMOpaque(f"field {field!r} of {type(recv).__name__}")

    def op_object_call(self, unit, row, frame, scope):
        recv = self.val(frame, scope, row.get("receiver_object"), row)
        field = row.get("field")
        pos, named = self.decode_args(frame, scope, row)
        if isinstance(recv, list):
            ret = self.list_method(recv, field, pos)
        elif isinstance(recv, dict) and not (self.family in ("js", "php") and field in recv):
            ret = self.dict_method(recv, field, pos)
        elif isinstance(recv, str):
            ret = self.str_method(recv, field, pos)
        elif isinstance(recv, Class):
            m = self.get_attr(recv, field, row)
            if isinstance(m, Func):
                if self.family == "py" and m.owner is not None:
                    if not pos:
                        raise VMError("unbound method call without receiver")
                    ret = self.call_func(m, pos[1:], named, pos[0], row)
                else:
                    ret = self.call_func(m, pos, named, UNBOUND, row, cls=recv)
            else:
                ret = self.call_value(m, pos, named, row)
        else:
            m = self.get_attr(recv, field, row)
            ret = self.call_value(m, pos, named, row)
        tgt = row.get("target")
        if tgt is not None:
            self.write(frame, scope, tgt, ret, row)

    def list_method(self, lst, field, pos):
        if field in ("append", "push"):
            lst.append(pos[0])
            return None if field == "append" else len(lst)
        if field == "pop":
            try:
                return lst.pop(*pos)
            except IndexError:
                raise VMError("pop from empty list")
        if field == "extend":
            lst.extend(pos[0])
            return None
        if field == "insert":
            lst.insert(pos[0], pos[1])
            return None
        if field == "index":
            try:
                return lst.index(pos[0])
            except ValueError:
                raise VMError("list.index: not found")
        if field == "count":
            return lst.count(pos[0])
        raise VMOpaque(f"list method {field!r}")

    def dict_method(self, d, field, pos):
        if field == "get":
            return d.get(pos[0], pos[1] if len(pos) > 1 else None)
        if field == "keys":
            return list(d.keys())
        if field == "values":
            return list(d.values())
        if field == "pop":
            try:
                return d.pop(*pos)
            except KeyError:
                raise VMError("dict.pop: missing key")
        raise VMOpaque(f"dict method {field!r}")

    def str_method(self, s, field, pos):
        if field in ("upper", "lower", "strip"):
            return getattr(s, field)()
        if field in ("startswith", "endswith", "count", "find"):
            return getattr(s, field)(*pos)
        raise VMOpaque(f"str method {field!r}")

    def op_return(self, unit, row, frame, scope):
        name = row.get("name")
        if name is None or name == "":
            return ("return", None)
        return ("return", self.val(frame, scope, name, row))

    # ------------------------------------------------------------------ data
    def op_nop(self, unit, row, frame, scope):
        return None

    def op_variable_decl(self, unit, row, frame, scope):
        # hoisting languages (Python): a declaration belongs to the function, whatever block the row sits in
        if self.family in ("py", "php") and frame.root is not None:
            scope = frame.root
        name = row.get("name")
        if self.family in ("py", "php") and frame.root is not None and scope is frame.root:
            # Python / PHP have no declarations in the source: a variable_decl row for a name that is a PARAMETER of this
            # activation declares a second variable of that name (lian binds the later uses to it, not to the parameter):
            # it starts unbound, the argument value is no longer visible under that name
            d = frame.root.defs.get(name)
            drow = unit.row_by_id.get(d) if d is not None else None
            if drow is not None and drow.get("operation") == "parameter_decl":
                scope.vars[name] = UNBOUND
                frame.root.defs.pop(name, None)
                return None
        if "redeclaration-of-visible-variable" in self.switches and frame.root is not None:
            # compensation: a second variable_decl for a name that the same function (or, for top-level code, the unit)
            # already declares — the frontend's declaration pass lost track of the enclosing block's declaration
            s_ = self.find_scope(scope, name)
            if s_ is not None and s_ is not scope and (s_.frame is frame or (s_.frame is None and frame.name == "%unit_init")):
                return None
        self.declare(scope, name)
        if self.family == "c" and isinstance(row.get("data_type"), str):
            # C-family value types: `struct T v;` gives a usable record at once
            dt = row.get("data_type").replace("struct ", "").strip()
            s_ = self.find_scope(scope, dt)
            if s_ is not None and isinstance(s_.vars.get(dt), Class):
                (self.find_scope(scope, name) or scope).vars[name] = Obj(s_.vars[dt], row.get("stmt_id"))

    def truthy(self, v):
        if isinstance(v, (Obj, Func, Class, Bound, Builtin, Module)):
            return True
        if self.family == "js":
            if isinstance(v, (list, dict)):
                return True
            return bool(v)
        if self.family == "php":
            if v == "0":
                return False
            return bool(v)
        return bool(v)

    def binop(self, op, a, b, row):
        fam = self.family
        try:
            if op == "+":
                if fam in ("js",) and (isinstance(a, str) or isinstance(b, str)):
                    return self.js_str(a) + self.js_str(b)
                if fam == "c" and (isinstance(a, str) or isinstance(b, str)):
                    return self.js_str(a) + self.js_str(b)      # Java string concatenation
                return a + b
            if op == "-":
                return a - b
            if op == "*":
                if isinstance(a, int) and isinstance(b, int) and a.bit_length() + b.bit_length() > 1 << 16:
                    raise VMBudget("integer too large")
                return a * b
            if op == "/":
                if fam == "c":
                    if isinstance(a, int) and isinstance(b, int) and not isinstance(a, bool):
                        q = abs(a) // abs(b)
                        return q if (a >= 0) == (b >= 0) else -q
                return a / b
            if op == "//":
                return a // b
            if op == "%":
                if fam in ("c", "js", "php") and isinstance(a, int) and isinstance(b, int):
                    return int(math.fmod(a, b))
                return a % b
            if op == "**":
                if isinstance(b, int) and abs(b) > 64:
                    raise VMError("exponent too large")
                return a ** b
            if op in ("==", "==="):
                return a == b if not isinstance(a, (Obj, list, dict)) or fam == "py" else a is b
            if op in ("!=", "!==", "<>"):
                return not self.binop("==", a, b, row)
            if op == "<":
                return a < b
            if op == "<=":
                return a <= b
            if op == ">":
                return a > b
            if op == ">=":
                return a >= b
            if op in ("and", "&&"):
                if fam == "py" or fam == "js":
                    return b if self.truthy(a) else a
                return self.truthy(a) and self.truthy(b)
            if op in ("or", "||"):
                if fam == "py" or fam == "js":
                    return a if self.truthy(a) else b
                return self.truthy(a) or self.truthy(b)
            if op == "in":
                return a in b
            if op == "not in":
                return a not in b
            if op == "is":
                return a is b or (a == b and isinstance(a, (int, str, bool, type(None))) and type(a) == type(b))
            if op == "is not":
                return not self.binop("is", a, b, row)
            if op == "&":
                return a & b
            if op == "|":
                return a | b
            if op == "^":
                return a ^ b
            if op == "<<":
                if b > 64:
                    raise VMError("shift too large")
                return a << b
            if op == ">>":
                return a >> b
        except VMError:
            raise
        except Exception as e:
            raise VMError(f"operator {op!r} raised {type(e).__name__}: {e} (stmt {row.get('stmt_id')})")
        raise VMOpaque(f"binary operator {op!r}")

    def js_str(self, v):
        if isinstance(v, bool):
            return "true" if v else "false"
        if v is None:
            return "null"
        if isinstance(v, (Obj, Func, Class, list, dict)):
            raise VMError("string conversion of heap value")
        return str(v)

    def unop(self, op, a, row):
        try:
            if op == "-":
                return -a
            if op == "+":
                return +a
            if op in ("not", "!"):
                return not self.truthy(a)
            if op == "~":
                return ~a
        except Exception as e:
            raise VMError(f"unary {op!r} raised {type(e).__name__}")
        raise VMOpaque(f"unary operator {op!r}")

    def op_assign(self, unit, row, frame, scope):
        if row.get("operand") is None and row.get("operator") is None and self.family == "c":
            self.write(frame, scope, row.get("target"), [], row)       # `int a[3];` — a fresh container
            return None
        op = row.get("operator")
        a = self.val(frame, scope, row.get("operand"), row)
        if op is None or op == "" or op == "=":
            if row.get("operand2") is not None:
                raise VMOpaque("assign with operand2 but no operator")
            v = a
        elif row.get("operand2") is None:
            v = self.unop(op, a, row)
        else:
            b = self.val(frame, scope, row.get("operand2"), row)
            v = self.binop(op, a, b, row)
        if "php-property-initialiser-as-local-assignment" in self.switches and self.family == "php" and \
                frame.name == "%class_init" and isinstance(frame.this, Obj) and str(row.get("target")).startswith("$"):
            # compensation: `public $f = v;` is lowered to an assignment to a local variable $f inside %class_init; the
            # repaired lowering would be a write to the field of the new object
            frame.this.fields[str(row.get("target"))[1:]] = v
            return None
        self.write(frame, scope, row.get("target"), v, row)

    def op_new_array(self, unit, row, frame, scope):
        self.write(frame, scope, row.get("target"), [], row)

    def op_new_record(self, unit, row, frame, scope):
        self.write(frame, scope, row.get("target"), {}, row)

    def op_array_write(self, unit, row, frame, scope):
        arr = self.val(frame, scope, row.get("array"), row)
        idx = self.val(frame, scope, row.get("index"), row)
        src = self.val(frame, scope, row.get("source"), row)
        self.store_elem(arr, idx, src, row)

    def store_elem(self, arr, idx, src, row):
        if isinstance(arr, list):
            if isinstance(idx, bool) or not isinstance(idx, int):
                raise VMError(f"list index {idx!r}")
            if idx == len(arr):
                arr.append(src)
            elif -len(arr) <= idx < len(arr):
                arr[idx] = src
            elif self.family in ("js", "php") and idx > len(arr):
                arr.extend([None] * (idx - len(arr)))
                arr.append(src)
            else:
                raise VMError("list index out of range")
        elif isinstance(arr, dict):
            try:
                arr[idx] = src
            except TypeError:
                raise VMError("unhashable key")
        elif isinstance(arr, Obj) and self.family in ("js", "php"):
            arr.fields[idx] = src
        else:
            raise VMError(f"element store into {type(arr).__name__}")

    def load_elem(self, arr, idx, row):
        try:
            if isinstance(arr, (list, str)):
                if isinstance(idx, bool) or not isinstance(idx, int):
                    raise VMError(f"index {idx!r}")
                if self.family != "py" and not (0 <= idx < len(arr)):
                    if self.family in ("js", "php"):
                        return None
                    raise VMError("index out of range")
                return arr[idx]
            if isinstance(arr, dict):
                if idx not in arr and self.family in ("js", "php"):
                    return None
                return arr[idx]
            if isinstance(arr, Obj) and self.family in ("js", "php"):
                return arr.fields.get(idx)
        except VMError:
            raise
        except Exception as e:
            raise VMError(f"element load raised {type(e).__name__} (stmt {row.get('stmt_id')})")
        raise VMError(f"element load from {type(arr).__name__}")

    def op_array_read(self, unit, row, frame, scope):
        if row.get("array") is None and row.get("receiver_object") is not None:
            if "array-read-receiver-object-column" not in self.switches:
                raise VMOpaque("array_read names the array in column 'receiver_object' (the analyses read 'array')")
            row = dict(row, array=row.get("receiver_object"))
        arr = self.val(frame, scope, row.get("array"), row)
        idx = self.val(frame, scope, row.get("index"), row)
        self.write(frame, scope, row.get("target"), self.load_elem(arr, idx, row), row)

    def op_array_append(self, unit, row, frame, scope):
        arr = self.val(frame, scope, row.get("array"), row)
        src = self.val(frame, scope, row.get("source"), row)
        if not isinstance(arr, list):
            raise VMError("array_append to non-list")
        arr.append(src)

    def op_record_write(self, unit, row, frame, scope):
        rec = self.val(frame, scope, row.get("receiver_record"), row)
        key = self.val(frame, scope, row.get("key"), row) if row.get("key") is not None else None
        v = self.val(frame, scope, row.get("value"), row)
        if isinstance(rec, dict):
            rec[key] = v
        elif isinstance(rec, Obj):
            rec.fields[key] = v
        else:
            raise VMError("record_write to non-record")

    def op_slice_read(self, unit, row, frame, scope):
        arr = self.val(frame, scope, row.get("array"), row)

        def part(k):
            s = row.get(k)
            if s is None or s == "":
                return None
            return self.val(frame, scope, s, row)
        try:
            v = arr[slice(part("start"), part("end"), part("step"))]
        except Exception as e:
            raise VMError(f"slice raised {type(e).__name__}")
        self.write(frame, scope, row.get("target"), v, row)

    def op_field_write(self, unit, row, frame, scope):
        recv = self.val(frame, scope, row.get("receiver_object"), row)
        field = row.get("field")
        src = self.val(frame, scope, row.get("source"), row)
        if isinstance(recv, Obj):
            recv.fields[field] = src
        elif isinstance(recv, Class):
            recv.statics[field] = src
        elif isinstance(recv, dict) and self.family in ("js", "php"):
            recv[field] = src
        elif isinstance(recv, list) and isinstance(field, str) and field.isdigit():
            if "array-literal-elements-as-fields" not in self.switches:
                raise VMOpaque("array literal element stored with field_write (element reads use array_read)")
            self.store_elem(recv, int(field), src, row)
        else:
            raise VMError(f"field_write on {type(recv).__name__}")

    def op_field_read(self, unit, row, frame, scope):
        recv = self.val(frame, scope, row.get("receiver_object"), row)
        self.write(frame, scope, row.get("target"), self.get_attr(recv, row.get("field"), row), row)

    def op_type_cast(self, unit, row, frame, scope):
        v = self.val(frame, scope, row.get("source"), row)
        dt = row.get("data_type")
        try:
            if dt in ("int", "long", "Integer", "int64", "int32"):
                v = int(v)
            elif dt in ("str", "string", "String"):
                v = self.js_str(v)
            elif dt in ("float", "double", "float64"):
                v = float(v)
            else:
                raise VMOpaque(f"type_cast to {dt!r}")
        except VMError:
            raise
        except Exception as e:
            raise VMError(f"cast raised {type(e).__name__}")
        self.write(frame, scope, row.get("target"), v, row)

    # ------------------------------------------------------------------ control
    def op_block(self, unit, row, frame, scope):
        if row.get("body") is not None:
            return self.exec_block(unit, row.get("body"), frame, scope)

    def op_if(self, unit, row, frame, scope):
        c = self.val(frame, scope, row.get("condition"), row)
        if self.truthy(c):
            if row.get("then_body") is not None:
                return self.exec_block(unit, row.get("then_body"), frame, scope)
        elif row.get("else_body") is not None:
            return self.exec_block(unit, row.get("else_body"), frame, scope)
        return None

    def _continue_recompute(self, unit, row, frame, scope, inner_rows):
        """compensation switch 'while-continue-recompute': on `continue`, run the trailing statements of the body
        that recompute the condition operand (what a repaired lowering would do)."""
        cond = row.get("condition")
        tail = []
        for r in reversed(inner_rows):
            if r.get("operation") in ("assign_stmt", "field_read", "array_read") and \
               isinstance(r.get("target"), str) and r.get("target").startswith("%"):
                tail.append(r)
            else:
                break
        tail.reverse()
        # keep only the suffix that structurally repeats the statements preceding the loop (same start position)
        return tail

    def op_while(self, unit, row, frame, scope):
        cond = row.get("condition")
        body = row.get("body")
        pre = row.get("condition_prebody")
        first = True
        while True:
            if pre is not None:
                # the condition is computed by a prebody block that runs before every test (as in for_stmt)
                self.exec_block(unit, pre, frame, scope, new_scope=False)
                frame.trace.append(row.get("stmt_id"))
            elif not first:
                frame.trace.append(row.get("stmt_id"))
            first = False
            self.steps += 1
            if self.steps > self.budget:
                raise VMBudget("step budget exceeded")
            c = self.val(frame, scope, cond, row)
            if not self.truthy(c):
                if row.get("else_body") is not None:
                    return self.exec_block(unit, row.get("else_body"), frame, scope)
                return None
            sig = None
            if body is not None:
                if "while-continue-recompute" in self.switches:
                    sig = self._exec_while_body_compensated(unit, row, frame, scope)
                else:
                    sig = self.exec_block(unit, body, frame, scope)
            if sig is not None:
                if sig[0] == "break":
                    return None
                if sig[0] == "continue":
                    pass
                else:
                    return sig

    def _exec_while_body_compensated(self, unit, row, frame, scope):
        rows = unit.blocks.get(_int(row.get("body")), [])
        inner = Scope(scope, frame)
        tail = self._continue_recompute(unit, row, frame, scope, rows)
        for r in rows:
            sig = self.exec_stmt(unit, r, frame, inner)
            if sig is not None:
                if sig[0] == "continue":
                    for t in tail:
                        self.exec_stmt(unit, t, frame, inner)
                return sig
        return None

    def op_dowhile(self, unit, row, frame, scope):
        while True:
            sig = self.exec_block(unit, row.get("body"), frame, scope) if row.get("body") is not None else None
            if sig is not None:
                if sig[0] == "break":
                    return None
                if sig[0] != "continue":
                    return sig
            self.steps += 1
            if self.steps > self.budget:
                raise VMBudget("step budget exceeded")
            if row.get("condition_prebody") is not None:
                self.exec_block(unit, row.get("condition_prebody"), frame, scope, new_scope=False)
            frame.trace.append(row.get("stmt_id"))          # the test
            if not self.truthy(self.val(frame, scope, row.get("condition"), row)):
                return None

    def op_for(self, unit, row, frame, scope):
        loop_scope = Scope(scope, frame)
        if row.get("init_body") is not None:
            sig = self.exec_block(unit, row.get("init_body"), frame, loop_scope, new_scope=False)
            if sig is not None:
                return sig
        while True:
            if row.get("condition_prebody") is not None:
                self.exec_block(unit, row.get("condition_prebody"), frame, loop_scope, new_scope=False)
            self.steps += 1
            if self.steps > self.budget:
                raise VMBudget("step budget exceeded")
            frame.trace.append(row.get("stmt_id"))          # the test
            cond = row.get("condition")
            if cond is not None and cond != "":
                if not self.truthy(self.val(frame, loop_scope, cond, row)):
                    return None
            sig = self.exec_block(unit, row.get("body"), frame, loop_scope) if row.get("body") is not None else None
            if sig is not None:
                if sig[0] == "break":
                    return None
                if sig[0] != "continue":
                    return sig
            if row.get("update_body") is not None:
                self.exec_block(unit, row.get("update_body"), frame, loop_scope, new_scope=False)

    def iter_values(self, recv, keys_for_records):
        if isinstance(recv, list):
            return recv
        if isinstance(recv, str):
            return list(recv)
        if isinstance(recv, dict):
            return list(recv.keys()) if keys_for_records else list(recv.values())
        raise VMError(f"iteration over {type(recv).__name__}")

    def _loop_over(self, unit, row, frame, scope, items):
        name = row.get("name")
        first = True

        def live(seq):
            # a list is iterated live (elements assigned during the loop are seen), as Python/JS do
            i = 0
            while i < len(seq):
                yield seq[i]
                i += 1
        for it in (live(items) if isinstance(items, list) else items):
            if not first:
                self.steps += 1
                if self.steps > self.budget:
                    raise VMBudget("step budget exceeded")
                frame.trace.append(row.get("stmt_id"))
            first = False
            self.write(frame, scope, name, it, row)
            sig = self.exec_block(unit, row.get("body"), frame, scope) if row.get("body") is not None else None
            if sig is not None:
                if sig[0] == "break":
                    return None
                if sig[0] != "continue":
                    return sig
        else:
            if not first:
                frame.trace.append(row.get("stmt_id"))      # the exhausted-iterator test that ends the loop
            if row.get("else_body") is not None:
                return self.exec_block(unit, row.get("else_body"), frame, scope)
        return None

    def op_forin(self, unit, row, frame, scope):
        recv = self.val(frame, scope, row.get("receiver"), row)
        if self.family == "js" and isinstance(recv, list):
            items = list(range(len(recv)))           # JS for...in yields keys
        elif self.lang == "go" and isinstance(recv, list):
            # Go `for i := range xs` yields indexes; `for i, x := range xs` is lowered to a loop over a temporary that
            # the body takes apart with array_read [0] / [1]: it yields (index, element) pairs
            name = row.get("name")
            if isinstance(name, str) and name.startswith("%"):
                items = [[i, x] for i, x in enumerate(recv)]
            else:
                items = list(range(len(recv)))
        else:
            items = self.iter_values(recv, keys_for_records=True)
        return self._loop_over(unit, row, frame, scope, items)

    def op_for_value(self, unit, row, frame, scope):
        recv = self.val(frame, scope, row.get("receiver") if row.get("receiver") is not None else row.get("target"), row)
        return self._loop_over(unit, row, frame, scope, self.iter_values(recv, keys_for_records=False))

    def op_break(self, unit, row, frame, scope):
        return ("break", None)

    def op_continue(self, unit, row, frame, scope):
        return ("continue", None)

    def op_switch(self, unit, row, frame, scope):
        v = self.val(frame, scope, row.get("condition"), row)
        body_col = row.get("body")
        if body_col is None and row.get("switch_body") is not None:
            # the Go frontend names the clause list 'switch_body' (the analyses read 'body')
            if "switch-body-column" not in self.switches:
                raise VMOpaque("switch clauses in column 'switch_body' (the analyses read 'body')")
            body_col = row.get("switch_body")
        rows = unit.blocks.get(_int(body_col), []) if body_col is not None else []
        inner = Scope(scope, frame)
        matched = False
        fallthrough = self.family in ("c", "js", "php") and self.lang != "go"
        cases = [r for r in rows if r.get("operation") in ("case_stmt", "default_stmt")]
        others = [r for r in rows if r.get("operation") not in ("case_stmt", "default_stmt")]
        for r in others:
            sig = self.exec_stmt(unit, r, frame, inner)
            if sig is not None:
                return sig
        start = None
        for i, r in enumerate(cases):
            if r.get("operation") == "case_stmt":
                self.steps += 1
                cv = self.val(frame, inner, r.get("condition"), r)
                if self.binop("==", v, cv, r):
                    start = i
                    break
        if start is None:
            for i, r in enumerate(cases):
                if r.get("operation") == "default_stmt":
                    start = i
                    break
        if start is None:
            return None
        frame.trace.append(cases[start].get("stmt_id"))     # the selected case/default label
        i = start
        while i < len(cases):
            r = cases[i]
            if r.get("body") is not None:
                sig = self.exec_block(unit, r.get("body"), frame, inner)
                if sig is not None:
                    if sig[0] == "break":
                        return None
                    if sig[0] == "fallthrough" and not fallthrough:
                        i += 1
                        continue
                    return sig
            if not fallthrough:
                self.note(frame, "no-fallthrough-case-end")
                return None
            i += 1
        return None

    def op_throw(self, unit, row, frame, scope):
        name = row.get("name")
        v = self.val(frame, scope, name, row) if name not in (None, "") else None
        raise GirThrow(v)

    def note(self, frame, tag):
        frame.notes.setdefault(len(frame.trace), []).append(tag)

    def op_try(self, unit, row, frame, scope):
        sig = None
        pending = None
        if row.get("body") is None and (row.get("try_body") is not None or row.get("finally_body") is not None):
            # the TypeScript frontend names the blocks 'try_body' / 'finally_body' (the analyses read 'body' / 'final_body')
            if "try-body-columns" not in self.switches:
                raise VMOpaque("try blocks in columns 'try_body'/'finally_body' (the analyses read 'body'/'final_body')")
            row = dict(row, body=row.get("try_body"), final_body=row.get("finally_body"))
        try:
            if row.get("body") is not None:
                sig = self.exec_block(unit, row.get("body"), frame, scope)
            if sig is None and row.get("else_body") is not None:
                sig = self.exec_block(unit, row.get("else_body"), frame, scope)
        except GirThrow as t:
            pending = t
            if row.get("catch_body") is not None:
                for r in unit.blocks.get(_int(row.get("catch_body")), []):
                    if r.get("operation") not in ("catch_clause", "catch_stmt"):
                        continue
                    tname = r.get("expcetion") if r.get("expcetion") is not None else None
                    if tname is None and self.family in ("py", "c"):
                        tname = r.get("exception") if r.get("exception") in EXC_NAMES else None
                    thrown = t.value.get("%exc") if isinstance(t.value, dict) else None
                    if tname in EXC_NAMES and thrown in EXC_NAMES and tname != thrown and tname not in ("Exception", "Throwable", "Error"):
                        continue
                    self.note(frame, "throw-to-handler")
                    frame.trace.append(r.get("stmt_id"))
                    pending = None
                    cs = Scope(scope, frame)
                    for col in ("as", "name", "exception"):
                        nm = r.get(col)
                        if isinstance(nm, str) and self.is_var(nm) and nm not in EXC_NAMES:
                            cs.vars[nm] = t.value
                    if r.get("body") is not None:
                        try:
                            sig = self.exec_block(unit, r.get("body"), frame, cs)
                        except GirThrow as t2:
                            pending = t2
                    break
        if row.get("final_body") is not None:
            abrupt = sig is not None or pending is not None
            if abrupt:
                self.note(frame, "finally-after-abrupt-completion")
            fsig = self.exec_block(unit, row.get("final_body"), frame, scope)
            if fsig is not None:
                sig, pending = fsig, None
            elif abrupt:
                self.note(frame, "resume-after-finally")
        if pending is not None:
            raise pending
        return sig

    # ------------------------------------------------------------------ declarations
    def op_method_decl(self, unit, row, frame, scope):
        f = Func(row, scope, unit)
        name = row.get("name")
        if name:
            self.declare(scope, name)
            s = self.find_scope(scope, name) or scope
            s.vars[name] = f
            s.defs[name] = row.get("stmt_id")

    def op_class_decl(self, unit, row, frame, scope):
        name = row.get("name")
        cls = Class(row, name, unit)
        sup = row.get("supers")
        if sup is not None:
            try:
                names = ast.literal_eval(sup) if isinstance(sup, str) else list(sup)
            except Exception:
                names = []
            for n in names:
                try:
                    v = self.read(frame, scope, n, row)
                except VMError:
                    v = None
                if isinstance(v, Class):
                    cls.supers.append(v)
                elif n not in ("object", "Object"):
                    raise VMOpaque(f"unresolved super class {n!r}")
        self.declare(scope, name)
        s = self.find_scope(scope, name) or scope
        s.vars[name] = cls
        s.defs[name] = row.get("stmt_id")
        for col in ("methods", "nested"):
            mb = row.get(col)
            if mb is not None:
                for r in unit.blocks.get(_int(mb), []):
                    if r.get("operation") == "method_decl":
                        cls.methods[r.get("name")] = Func(r, scope, unit, owner=cls)
        fb = row.get("fields")
        if fb is not None:
            for r in unit.blocks.get(_int(fb), []):
                if r.get("operation") == "variable_decl" and "static" in str(r.get("attrs") or ""):
                    cls.static_names.add(r.get("name"))
        for col in ("static_init",):
            sb = row.get(col)
            if sb is not None:
                f = Frame(row.get("stmt_id"), "%static_init")
                f.root = Scope(scope, f)
                f.cls = cls
                if self.family == "js":
                    f.this = cls          # TypeScript: static fields are written as `%this.f = v` in the static_init block
                self.exec_block(unit, sb, f, f.root, new_scope=False)
        sinit = cls.methods.get("%class_sinit")
        if sinit is not None:
            # the JavaScript / TypeScript frontends write static fields as `%this.f = v` inside %class_sinit: %this is the class
            self.call_func(sinit, [], {}, cls if self.family == "js" else UNBOUND, row, cls=cls)

    def op_go_type_decl(self, unit, row, frame, scope):
        cls = Class(row, row.get("name"), unit)
        self.declare(scope, cls.name)
        (self.find_scope(scope, cls.name) or scope).vars[cls.name] = cls

    def op_global(self, unit, row, frame, scope):
        name = row.get("name")
        root = frame.root
        if root.redirect is None:
            root.redirect = {}
        g = unit.globals
        if name not in g.vars:
            g.vars[name] = UNBOUND
        root.redirect[name] = g
        root.vars.pop(name, None)

    def op_nonlocal(self, unit, row, frame, scope):
        name = row.get("name")
        root = frame.root
        s = root.parent
        target = None
        while s is not None:
            if s.frame is not None and s.frame is not frame and name in s.vars:
                target = s
                break
            s = s.parent
        if target is None:
            raise VMError(f"nonlocal {name!r} finds no enclosing binding")
        if root.redirect is None:
            root.redirect = {}
        root.redirect[name] = target
        root.vars.pop(name, None)

    def unit_by_module(self, name):
        for u in self.units:
            if u.path:
                base = u.path.rsplit("/", 1)[-1].rsplit(".", 1)[0]
                if base == name:
                    return u
        return None

    def op_import(self, unit, row, frame, scope):
        name = row.get("name")
        alias = row.get("alias") or name
        u = self.unit_by_module(name.split(".")[-1]) if isinstance(name, str) else None
        if u is None:
            if isinstance(name, str) and name.strip('"') in self.externals:
                return None
            raise VMOpaque(f"import of unknown module {name!r}")
        self.init_unit(u)
        self.declare(scope, alias)
        (self.find_scope(scope, alias) or scope).vars[alias] = Module(u)

    def op_from_import(self, unit, row, frame, scope):
        src = row.get("source")
        name = row.get("name")
        alias = row.get("alias") or name
        u = self.unit_by_module(str(src).split(".")[-1].split("/")[-1])
        if u is None:
            raise VMOpaque(f"import from unknown module {src!r}")
        self.init_unit(u)
        g = u.globals
        if name == "*":
            for k, v in g.vars.items():
                if v is not UNBOUND and not k.startswith("%"):
                    self.declare(scope, k)
                    (self.find_scope(scope, k) or scope).vars[k] = v
            return
        if name not in g.vars or g.vars[name] is UNBOUND:
            raise VMError(f"module {src!r} has no global {name!r}")
        self.declare(scope, alias)
        (self.find_scope(scope, alias) or scope).vars[alias] = g.vars[name]

    def op_echo(self, unit, row, frame, scope):
        v = self.val(frame, scope, row.get("name"), row)
        self.outputs.append((self.show(v),))
        self.raw_outputs.append(v)


def load_units(rows, lang_of_unit=None, path_of_unit=None, default_lang="python"):
    """rows: list of row dicts (all units, file order). Returns [Unit]."""
    by_unit = {}
    order = []
    for r in rows:
        u = r.get("unit_id", 0)
        if u not in by_unit:
            by_unit[u] = []
            order.append(u)
        by_unit[u].append(r)
    out = []
    for u in order:
        out.append(Unit(u, by_unit[u], (lang_of_unit or {}).get(u, default_lang), (path_of_unit or {}).get(u)))
    return out
