"""Taint shim for C10/C11: the dynamic oracle and the restatement of the rule semantics.

Three parts, all harness-side (lian never sees any of this):

1. `RuleSet` — the configured source/sink rules restated at the documented level (operation kind, name / access
   path / key, language, unit name, line) and `find_sites(files, rules)`, which applies them to the *source text*
   of a generated program (Python `ast`) and returns the statements that are sources / sinks, with the sink's
   rule-designated expressions.  The rules of the always-loaded source_from_code.yaml / sink_from_code.yaml are part
   of the configuration: they are restated too (`FromCodeRules`: unit_path must be a substring of the unit's path,
   the line must match and symbol_name must occur in the statement text); workloads keep their unit paths outside
   every unit_path these files mention, which `FromCodeRules.may_match_path` lets the checks assert.

2. `TV` — the taint-carrying value of the CPython run.  A source site yields a TV tagged with its (file, line);
   arithmetic / concatenation operators return a TV with the union of the operands' tags; comparisons and truth
   tests return plain untainted booleans (they are implicit flows, the property is about explicit ones); containers,
   attributes, closures and globals need nothing (Python moves the tagged object itself).  A sink site records the
   tags reachable from its designated expression, descending into list / tuple / set / dict elements and object
   attributes.

3. `run_dynamic(files, main, entries, sites, flags)` — runs the real generated program: the module text is
   instrumented on the AST (a source expression `e` becomes `_tv_src_(file, line)`, a designated sink expression `e`
   becomes `_tv_snk_(file, line, e)`; nothing else changes, line numbers are kept), names the program never defines
   are provided as inert external functions returning untainted values, the main module is executed (that is
   %unit_init) and every entry function is called with tagged arguments where a parameter rule says so.
   Result: the set of (source file, source line, sink file, sink line) pairs observed.
"""
import ast
import builtins
import os
import sys

ARG_TARGETS = {"\\%arg0": 0, "\\%arg1": 1, "\\%arg2": 2, "\\%arg3": 3, "\\%arg4": 4}
T_TARGET, T_RECEIVER = "\\%target", "\\%receiver"
ANY_LANG = "%"

SOURCE_OPS = ("call_stmt", "object_call", "object_call_stmt", "parameter_decl", "field_read")
SINK_OPS = ("call_stmt", "object_call", "object_call_stmt", "field_write", "record_write")


# ---------------------------------------------------------------------------------------------------
# rules

class Rule:
    """One configured rule. side: source|sink.  Restrictions that are None/'' do not restrict."""
    __slots__ = ("side", "operation", "name", "key", "target", "lang", "unit_name", "line_num", "note", "unit_path")

    def __init__(self, side, operation, name=None, key=None, target=None, lang="python", unit_name=None, line_num=None, note="",
                 unit_path=None):
        self.side, self.operation, self.name, self.key = side, operation, name, key
        self.target = list(target) if target is not None else None
        self.lang, self.unit_name, self.line_num, self.note = lang, unit_name, line_num, note
        self.unit_path = unit_path       # file name relative to the project; written to the settings as <project dir>/<name>

    def to_json(self):
        return {k: getattr(self, k) for k in self.__slots__}

    @staticmethod
    def from_json(d):
        return Rule(**{k: d.get(k) for k in Rule.__slots__ if k in d})

    def restriction_ok(self, file, line, lang="python", relax=()):
        """Documented filters: language group, unit name (basename), unit path (the unit's own path), line."""
        if "language" not in relax and self.lang not in (None, ANY_LANG, lang):
            return False
        if "path" not in relax and self.unit_path and self.unit_path != file:
            return False
        if "unit" not in relax and self.unit_name and self.unit_name != os.path.basename(file):
            return False
        if "line" not in relax and self.line_num and int(self.line_num) != int(line):
            return False
        return True

    def yaml_item(self, proj_dir=None):
        out = [f"    - operation: {self.operation}"]
        if self.name is not None:
            out.append(f"      name: \"{self.name}\"")
        if self.key is not None:
            out.append("      key: '" + self.key + "'")
        if self.side == "source" and self.operation in ("call_stmt", "object_call", "object_call_stmt"):
            out.append("      tag: [\"%target\"]")
        if self.side == "sink":
            out.append("      target: [" + ", ".join("'" + t + "'" for t in (self.target or [])) + "]")
            out.append("      vuln_type: generated")
        if self.unit_name:
            out.append(f"      unit_name: \"{self.unit_name}\"")
        if self.unit_path:
            out.append(f"      unit_path: \"{os.path.join(proj_dir or '/nonexistent-project', self.unit_path)}\"")
        if self.line_num:
            out.append(f"      line_num: {int(self.line_num)}")
        return "\n".join(out)


class RuleSet:
    def __init__(self, rules=()):
        self.rules = list(rules)

    def sources(self):
        return [r for r in self.rules if r.side == "source"]

    def sinks(self):
        return [r for r in self.rules if r.side == "sink"]

    def to_json(self):
        return [r.to_json() for r in self.rules]

    @staticmethod
    def from_json(lst):
        return RuleSet([Rule.from_json(d) for d in lst])

    def yaml(self, side, proj_dir=None):
        """Text of source.yaml / sink.yaml: one group per language, in first-appearance order."""
        groups = {}
        for r in self.rules:
            if r.side == side:
                groups.setdefault(r.lang or "python", []).append(r)
        if not groups:
            return "[]\n"
        parts = []
        for lang, rs in groups.items():
            parts.append(f"- lang: {lang}\n  rules:\n" + "\n".join(r.yaml_item(proj_dir) for r in rs))
        return "\n".join(parts) + "\n"


class FromCodeRules:
    """The always-loaded source_from_code.yaml / sink_from_code.yaml of the repo's default_settings, restated."""

    def __init__(self, repo):
        import yaml
        self.rules = {"source": [], "sink": []}
        for side, fn in (("source", "source_from_code.yaml"), ("sink", "sink_from_code.yaml")):
            p = os.path.join(repo, "default_settings", fn)
            try:
                with open(p) as f:
                    data = yaml.safe_load(f) or []
            except OSError:
                data = []
            for g in data:
                for r in g.get("rules") or []:
                    self.rules[side].append((g.get("lang"), r.get("unit_path"), r.get("line_num"), r.get("symbol_name")))
        self.by_line = {"source": {}, "sink": {}}
        for side in self.rules:
            for lang, up, ln, sym in self.rules[side]:
                self.by_line[side].setdefault(ln, []).append((up, sym))

    def may_match_path(self, path):
        return any(up and str(up) in path for side in self.rules for _, up, _, _ in self.rules[side])

    def matches(self, side, path, line, text, ignore_unit=False):
        for up, sym in self.by_line[side].get(line, ()):
            if (ignore_unit or (up and str(up) in path)) and sym is not None and str(sym) in text:
                return True
        return False


# ---------------------------------------------------------------------------------------------------
# sites: the rules applied to the program text

class Site:
    """A statement that matches >= 1 rule.  `exprs` (sinks): the designated expression nodes as (role, ast node)."""
    __slots__ = ("side", "kind", "file", "line", "name", "rules", "node", "exprs", "func", "params")

    def __init__(self, side, kind, file, line, name, rules, node=None, exprs=None, func=None, params=None):
        self.side, self.kind, self.file, self.line, self.name, self.rules = side, kind, file, line, name, rules
        self.node, self.exprs, self.func, self.params = node, exprs or [], func, params or []

    def key(self):
        return (self.file, self.line)

    def brief(self):
        return {"side": self.side, "kind": self.kind, "file": self.file, "line": self.line, "name": self.name}


def _recv_name(node, in_method_self):
    """Receiver text as lian names it: a plain identifier, with the method's own first parameter as %this."""
    if isinstance(node, ast.Name):
        if in_method_self is not None and node.id == in_method_self:
            return "%this"
        return node.id
    return None


class _Scanner(ast.NodeVisitor):
    def __init__(self, file, ruleset, relax=()):
        self.file, self.rs, self.relax = file, ruleset, relax
        self.sites = []
        self.self_stack = [None]
        self.func_stack = [None]
        self.class_depth = 0

    # -- helpers
    def _rules(self, side, ops, pred, line):
        out = []
        for r in (self.rs.sources() if side == "source" else self.rs.sinks()):
            if r.operation in ops and pred(r) and r.restriction_ok(self.file, line, relax=self.relax):
                out.append(r)
        return out

    def visit_ClassDef(self, node):
        self.class_depth += 1
        self.self_stack.append(None)
        self.generic_visit(node)
        self.self_stack.pop()
        self.class_depth -= 1

    def visit_FunctionDef(self, node):
        is_method = self.class_depth > 0 and self.func_stack[-1] is None
        args = node.args
        params = [a.arg for a in args.posonlyargs + args.args + args.kwonlyargs]
        for a in args.posonlyargs + args.args + args.kwonlyargs:
            rs = self._rules("source", ("parameter_decl",), lambda r, a=a: r.name == a.arg, a.lineno)
            if rs:
                self.sites.append(Site("source", "param", self.file, a.lineno, a.arg, rs, node=a, func=node.name, params=params))
        self.self_stack.append(params[0] if is_method and params else self.self_stack[-1])
        self.func_stack.append(node.name)
        cd = self.class_depth
        self.class_depth = 0
        for st in node.body:
            self.visit(st)
        self.class_depth = cd
        self.func_stack.pop()
        self.self_stack.pop()

    visit_AsyncFunctionDef = visit_FunctionDef

    def visit_Call(self, node):
        f = node.func
        line = node.lineno
        if isinstance(f, ast.Name):
            rs = self._rules("source", ("call_stmt",), lambda r: r.name == f.id, line)
            if rs:
                self.sites.append(Site("source", "call", self.file, line, f.id, rs, node=node))
            rs = self._rules("sink", ("call_stmt",), lambda r: r.name == f.id, line)
            if rs:
                self.sites.append(Site("sink", "call", self.file, line, f.id, rs, node=node, exprs=self._call_exprs(node, rs, None)))
        elif isinstance(f, ast.Attribute):
            recv = _recv_name(f.value, self.self_stack[-1])
            if recv is not None:
                nm = recv + "." + f.attr
                rs = self._rules("source", ("object_call", "object_call_stmt"), lambda r: r.name == nm, line)
                if rs:
                    self.sites.append(Site("source", "mcall", self.file, line, nm, rs, node=node))
                rs = self._rules("sink", ("object_call", "object_call_stmt"), lambda r: r.name == nm, line)
                if rs:
                    self.sites.append(Site("sink", "mcall", self.file, line, nm, rs, node=node, exprs=self._call_exprs(node, rs, f.value)))
        self.generic_visit(node)

    def _call_exprs(self, node, rules, receiver):
        out = []
        for r in rules:
            for t in r.target or []:
                if t in ARG_TARGETS:
                    i = ARG_TARGETS[t]
                    if i < len(node.args) and not isinstance(node.args[i], ast.Starred):
                        out.append((f"arg{i}", node.args[i]))
                elif t == T_RECEIVER and receiver is not None:
                    out.append(("receiver", receiver))
        return out

    def visit_Attribute(self, node):
        if isinstance(node.ctx, ast.Load):
            recv = _recv_name(node.value, self.self_stack[-1])
            if recv is not None:
                nm = recv + "." + node.attr
                rs = self._rules("source", ("field_read",), lambda r: r.name == nm, node.lineno)
                if rs:
                    self.sites.append(Site("source", "fread", self.file, node.lineno, nm, rs, node=node))
        self.generic_visit(node)

    def _assign_targets(self, targets, value, line):
        for t in targets:
            if isinstance(t, ast.Attribute):
                recv = _recv_name(t.value, self.self_stack[-1])
                if recv is not None:
                    nm = recv + "." + t.attr
                    rs = self._rules("sink", ("field_write",), lambda r: r.name == nm, line)
                    if rs:
                        self.sites.append(Site("sink", "fwrite", self.file, line, nm, rs, node=t, exprs=[("value", value)]))

    def visit_Assign(self, node):
        self._assign_targets(node.targets, node.value, node.lineno)
        self.generic_visit(node)

    def visit_AugAssign(self, node):
        self._assign_targets([node.target], node.value, node.lineno)
        self.generic_visit(node)

    def visit_Dict(self, node):
        for k, v in zip(node.keys, node.values):
            if isinstance(k, ast.Constant) and isinstance(k.value, str):
                ktext = '"' + k.value + '"'
                rs = self._rules("sink", ("record_write",), lambda r: r.key == ktext, k.lineno)
                if rs:
                    self.sites.append(Site("sink", "rwrite", self.file, k.lineno, ktext, rs, node=node, exprs=[("value", v)]))
        self.generic_visit(node)


def find_sites(files, ruleset, relax=()):
    """files: {relative file name: text}.  Returns (sites, trees)."""
    sites, trees = [], {}
    for fn in sorted(files):
        tree = ast.parse(files[fn], fn)
        trees[fn] = tree
        sc = _Scanner(fn, ruleset, relax)
        sc.visit(tree)
        sites.extend(sc.sites)
    return sites, trees


# ---------------------------------------------------------------------------------------------------
# the taint-carrying value

class TV:
    """Value that carries the set of source sites it was computed from."""

    def __init__(self, tags=frozenset()):
        object.__setattr__(self, "_tv_tags", frozenset(tags))

    @staticmethod
    def _tags_of(x):
        return x._tv_tags if isinstance(x, TV) else frozenset()

    def _bin(self, other):
        return TV(self._tv_tags | TV._tags_of(other))

    __add__ = __radd__ = __sub__ = __rsub__ = __mul__ = __rmul__ = __mod__ = __rmod__ = _bin
    __truediv__ = __rtruediv__ = __floordiv__ = __rfloordiv__ = __pow__ = __rpow__ = _bin
    __and__ = __rand__ = __or__ = __ror__ = __xor__ = __rxor__ = __lshift__ = __rshift__ = _bin
    __iadd__ = __isub__ = __imul__ = __imod__ = _bin

    def __neg__(self):
        return TV(self._tv_tags)

    __pos__ = __invert__ = __neg__

    # comparisons / truth: plain untainted booleans (implicit flow, not tracked)
    def __eq__(self, other):
        return self is other

    def __ne__(self, other):
        return self is not other

    def __lt__(self, other):
        return False

    __le__ = __gt__ = __ge__ = __lt__

    def __hash__(self):
        return id(self)

    def __bool__(self):
        return True

    # behaves like an unknown external object: any attribute is an inert callable value, calls give untainted values
    def __getattr__(self, name):
        if name.startswith("__"):
            raise AttributeError(name)
        return TV()

    def __call__(self, *a, **k):
        return TV()

    def __repr__(self):
        return "TV(%s)" % sorted(self._tv_tags)


def reachable_tags(v, depth=0, seen=None):
    """Tags of v and of everything it contains (elements, dict keys/values, object attributes)."""
    if seen is None:
        seen = set()
    if id(v) in seen or depth > 8:
        return frozenset()
    seen.add(id(v))
    out = set()
    if isinstance(v, TV):
        out |= v._tv_tags
        for k, x in vars(v).items():
            if k != "_tv_tags":
                out |= reachable_tags(x, depth + 1, seen)
    elif isinstance(v, (list, tuple, set, frozenset)):
        for x in v:
            out |= reachable_tags(x, depth + 1, seen)
    elif isinstance(v, dict):
        for k, x in v.items():
            out |= reachable_tags(k, depth + 1, seen)
            out |= reachable_tags(x, depth + 1, seen)
    elif hasattr(v, "__dict__") and not isinstance(v, type) and not callable(v):
        for x in vars(v).values():
            out |= reachable_tags(x, depth + 1, seen)
    return frozenset(out)


# ---------------------------------------------------------------------------------------------------
# instrumentation + run

class _Instrument(ast.NodeTransformer):
    def __init__(self, file, src_nodes, snk_exprs):
        self.file = file
        self.src_nodes = src_nodes     # id(node) -> line
        self.snk_exprs = snk_exprs     # id(node) -> line

    def visit(self, node):
        nid = id(node)
        is_src = nid in self.src_nodes
        snk_line = self.snk_exprs.get(nid)
        new = super().visit(node)
        if is_src:
            new = ast.copy_location(ast.Call(func=ast.Name(id="_tv_src_", ctx=ast.Load()),
                                             args=[ast.Constant(self.file), ast.Constant(self.src_nodes[nid])], keywords=[]), node)
        if snk_line is not None:
            new = ast.copy_location(ast.Call(func=ast.Name(id="_tv_snk_", ctx=ast.Load()),
                                             args=[ast.Constant(self.file), ast.Constant(snk_line), new], keywords=[]), node)
        return new


def defined_names(trees):
    names = set(dir(builtins))
    for tree in trees.values():
        for n in ast.walk(tree):
            if isinstance(n, (ast.FunctionDef, ast.AsyncFunctionDef, ast.ClassDef)):
                names.add(n.name)
                if not isinstance(n, ast.ClassDef):
                    a = n.args
                    for x in a.posonlyargs + a.args + a.kwonlyargs:
                        names.add(x.arg)
                    if a.vararg:
                        names.add(a.vararg.arg)
                    if a.kwarg:
                        names.add(a.kwarg.arg)
            elif isinstance(n, ast.Name) and isinstance(n.ctx, (ast.Store, ast.Del)):
                names.add(n.id)
            elif isinstance(n, (ast.Import, ast.ImportFrom)):
                for al in n.names:
                    names.add((al.asname or al.name).split(".")[0])
    return names


def external_names(trees):
    """Identifiers the program reads but never binds anywhere: unresolved external functions / objects."""
    defined = defined_names(trees)
    ext = set()
    for tree in trees.values():
        for n in ast.walk(tree):
            if isinstance(n, ast.Name) and isinstance(n.ctx, ast.Load) and n.id not in defined and not n.id.startswith("_tv_"):
                ext.add(n.id)
    return ext


class DynResult:
    def __init__(self):
        self.pairs = set()            # (src file, src line, snk file, snk line)
        self.source_hits = {}         # (file, line) -> times a source site produced a value
        self.sink_hits = {}           # (file, line) -> times a sink site was executed
        self.errors = []              # (where, repr) — a raising entry ends only that entry's run


def run_dynamic(files, main, entries, sites, flags=(True, False), flag_fn="askflag"):
    """Run the generated program under the shim.
    files: {file name: text}; main: file name of the main module; entries: [(kind, class or None, function name)]
    with kind 'func' | 'method'; sites: from find_sites over the same files.  One run per value in `flags`
    (the value `askflag()` returns and every parameter called flag* receives)."""
    res = DynResult()
    return _run_with(files, main, entries, sites, flags, flag_fn, res)


def _run_with(files, main, entries, sites, flags, flag_fn, res):
    ruleset_sites = sites
    param_sites = {}
    for s in ruleset_sites:
        if s.side == "source" and s.kind == "param":
            param_sites[(s.file, s.func, s.name)] = s
    for flag in flags:
        # fresh parse per run: the transformer mutates the trees
        trees = {fn: ast.parse(files[fn], fn) for fn in files}
        index = {}
        for fn, tree in trees.items():
            for n in ast.walk(tree):
                if hasattr(n, "lineno"):
                    index.setdefault((fn, type(n).__name__, n.lineno, getattr(n, "col_offset", -1),
                                      getattr(n, "end_col_offset", -1)), n)

        def locate(fn, node):
            return index.get((fn, type(node).__name__, node.lineno, getattr(node, "col_offset", -1), getattr(node, "end_col_offset", -1)))
        src_nodes = {fn: {} for fn in files}
        snk_exprs = {fn: {} for fn in files}
        for s in ruleset_sites:
            if s.side == "source" and s.kind != "param":
                n = locate(s.file, s.node)
                if n is not None:
                    src_nodes[s.file][id(n)] = s.line
            elif s.side == "sink":
                for role, e in s.exprs:
                    n = locate(s.file, e)
                    if n is not None:
                        snk_exprs[s.file][id(n)] = s.line
        ext = external_names(trees)

        def tv_src(file, line):
            res.source_hits[(file, line)] = res.source_hits.get((file, line), 0) + 1
            return TV({(file, line)})

        def tv_snk(file, line, value):
            res.sink_hits[(file, line)] = res.sink_hits.get((file, line), 0) + 1
            for (sf, sl) in reachable_tags(value):
                res.pairs.add((sf, sl, file, line))
            return value
        shared = {"_tv_src_": tv_src, "_tv_snk_": tv_snk}
        for nm in ext:
            shared[nm] = TV()
        shared[flag_fn] = (lambda f: (lambda *a, **k: f))(flag)
        mods = {}
        modname = {fn: os.path.splitext(os.path.basename(fn))[0] for fn in files}
        saved = {}
        try:
            codes = {}
            for fn, tree in trees.items():
                new = _Instrument(fn, src_nodes[fn], snk_exprs[fn]).visit(tree)
                ast.fix_missing_locations(new)
                codes[fn] = compile(new, fn, "exec")
            # modules are created lazily through a meta path finder so that imports between generated files work
            import importlib.abc
            import importlib.machinery

            class Finder(importlib.abc.MetaPathFinder, importlib.abc.Loader):
                def find_spec(self, name, path=None, target=None):
                    for fn, mn in modname.items():
                        if mn == name:
                            return importlib.machinery.ModuleSpec(name, self, origin=fn)
                    return None

                def create_module(self, spec):
                    return None

                def exec_module(self, module):
                    fn = module.__spec__.origin
                    module.__dict__.update(shared)
                    exec(codes[fn], module.__dict__)
            finder = Finder()
            sys.meta_path.insert(0, finder)
            for mn in modname.values():
                if mn in sys.modules:
                    saved[mn] = sys.modules.pop(mn)
            try:
                import importlib
                try:
                    mainmod = importlib.import_module(modname[main])
                except Exception as e:      # %unit_init raised: nothing after it ran
                    res.errors.append(("module:" + main, repr(e)[:300]))
                    mainmod = sys.modules.get(modname[main])
                if mainmod is not None:
                    for kind, cls, fname in entries:
                        try:
                            if kind == "method":
                                klass = getattr(mainmod, cls)
                                obj = klass()
                                fn_obj = getattr(obj, fname)
                                code_args = _param_names(files[main], cls, fname)[1:]
                            else:
                                fn_obj = getattr(mainmod, fname)
                                code_args = _param_names(files[main], None, fname)
                            args = []
                            for p in code_args:
                                s = param_sites.get((main, fname, p))
                                if s is not None:
                                    args.append(tv_src(s.file, s.line))
                                elif p.startswith("flag"):
                                    args.append(flag)
                                else:
                                    args.append(TV())
                            fn_obj(*args)
                        except Exception as e:
                            res.errors.append((f"entry:{fname}", repr(e)[:300]))
            finally:
                sys.meta_path.remove(finder)
                for mn in modname.values():
                    sys.modules.pop(mn, None)
                sys.modules.update(saved)
        except SyntaxError as e:
            res.errors.append(("compile", repr(e)[:300]))
    return res


def _param_names(text, cls, fname):
    tree = ast.parse(text)
    scope = tree.body
    if cls is not None:
        for n in tree.body:
            if isinstance(n, ast.ClassDef) and n.name == cls:
                scope = n.body
    for n in scope:
        if isinstance(n, ast.FunctionDef) and n.name == fname:
            a = n.args
            return [x.arg for x in a.posonlyargs + a.args]
    return []
