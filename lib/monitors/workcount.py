"""C13 monitor: logical-work counters for one lian run, installed in the forked child BEFORE any lian object
is constructed.

Two observation channels, both without touching /repo:

* recording wrappers assigned to class / module attributes (lian binds handler tables in ``__init__`` and
  calls its phases through ``self.<method>`` or ``util.<function>``, so a class-level patch made before
  construction is seen by every call path).  Each wrapper counts its own invocations, so a reference bound
  before the patch shows up as a counter that stays at zero (the check turns that into *inconclusive*);
* ``sys.monitoring`` PY_START local events on every code object of the analysis packages (lian.lang,
  lian.basics, lian.core, lian.taint, lian.common_structs): one counter per package = the number of Python
  function activations, a catch-all measure of work that also sees loops the explicit wrappers do not know.

Constant folding is observed at three places, whichever the tree under test has: ``util.strict_eval`` (text
evaluation, old trees and the frontends), ``const_fold.fold_constants`` (every fold attempt: operand sizes, size of
every value produced) and the entries of ``const_fold.FOLD_OPERATORS`` (the moment lian has DECIDED to compute: the
size of the result is predicted from the decoded operands with a lower estimate, for both operand orders, before the
real operator runs, so a swallowed MemoryError or a child that never comes back still leaves the witness).  The
bound these sizes are compared with is read from lian's own ``config.MAX_FOLDED_CONSTANT_BITS``.  The largest
constant stored in the P2 / P3 state spaces and the peak RSS of the child are recorded as well.

Element lists of array states: ``util.add_to_list_with_default_set`` (the helper that extends a list up to a written
index) is wrapped and the growth it really caused is measured (cells added by one call, resulting length), and after
every array / slice statement handler the longest element list of the defined symbol's states is measured, so an
extension made inline is seen as well; the longest element list in the saved state spaces is recorded too.

A snapshot of all counters is appended to a JSON-lines file every ``interval`` seconds (SIGALRM handler, runs
between two byte codes of the analysing thread) so that a child that has to be killed still leaves its counter
time series behind.  If ``limits`` is given every increment is compared with the counter's envelope and the child
is ended (``os._exit(ABORT_CODE)`` after a last snapshot) by the FIRST counter that crosses its envelope: a run-away
analysis then costs seconds, not the whole watchdog, and - the comparison being synchronous with the analysis, not
with a clock - the counter that is reported is a deterministic function of the analysed program.  Wall-clock
time is recorded in the snapshots and never decides anything.
"""
import json
import os
import signal
import sys
import time

ABORT_CODE = 97
TOOL_NAME = "lianverif-c13"

# counters whose *final* value is a size of a result (not an activation count)
SIZE_COUNTERS = ("p3_space_len", "p3_space_max", "sfg_nodes", "sfg_edges", "call_paths", "gir_stmts",
                 "prep_files", "taint_sources", "taint_sinks", "taint_flows")

SYSMON_GROUPS = (
    ("calls_lang", ("lian.lang.",)),
    ("calls_basics", ("lian.basics.",)),
    ("calls_core", ("lian.core.",)),
    ("calls_taint", ("lian.taint.",)),
    ("calls_structs", ("lian.common_structs",)),
)


def _bits(v):
    """Size of an evaluated constant in bits (ints), 8*len (str/bytes), 64 otherwise."""
    try:
        if isinstance(v, bool):
            return 1
        if isinstance(v, int):
            return v.bit_length()
        if isinstance(v, (str, bytes)):
            return 8 * len(v)
        if isinstance(v, (tuple, list)):
            return 64 * len(v)
    except Exception:
        pass
    return 64


def predict_bits(content):
    """Predicted size (bits) of the value of a folded ``<lit> <op> <lit>`` expression, computed from the operand
    sizes only, i.e. WITHOUT evaluating it.  Returns (bits, operator) ; bits = -1 when the text is not of that
    shape (then nothing is predicted)."""
    import ast
    try:
        if len(content) > 400000:
            return 8 * len(content), "literal"
        node = ast.parse(content, mode="eval").body
    except (SyntaxError, ValueError, RecursionError, MemoryError):
        return -1, ""
    if not isinstance(node, ast.BinOp):
        return -1, ""

    def lit(x):
        if isinstance(x, ast.Constant):
            return x.value
        if isinstance(x, ast.UnaryOp) and isinstance(x.op, ast.USub) and isinstance(x.operand, ast.Constant):
            try:
                return -x.operand.value
            except Exception:
                return None
        return None

    a, b = lit(node.left), lit(node.right)
    if a is None or b is None:
        return -1, ""
    ba, bb = _bits(a), _bits(b)
    op = type(node.op).__name__
    isnum = lambda v: isinstance(v, (int, float)) and not isinstance(v, bool)
    try:
        if op == "Pow" and isinstance(a, int) and isinstance(b, int):
            if b < 0 or a in (0, 1, -1):
                return 64, op
            return min(ba * b, 1 << 62), op
        if op == "LShift" and isinstance(a, int) and isinstance(b, int):
            return (ba + b if b >= 0 else 64), op
        if op == "Mult":
            if isinstance(a, int) and isinstance(b, int):
                return ba + bb, op
            if isinstance(a, (str, bytes)) and isinstance(b, int):
                return max(0, ba * b), op
            if isinstance(b, (str, bytes)) and isinstance(a, int):
                return max(0, bb * a), op
            return 64, op
        if op == "Add":
            if isinstance(a, (str, bytes)) and isinstance(b, (str, bytes)):
                return ba + bb, op
            return max(ba, bb) + 1, op
        if isnum(a) and isnum(b):
            return max(ba, bb) + 1, op
    except Exception:
        return -1, op
    return max(ba, bb), op


OP_NAMES = {"*": "Mult", "**": "Pow", "<<": "LShift", ">>": "RShift", "+": "Add", "-": "Sub", "/": "Div", "//": "FloorDiv",
            "%": "Mod", "&": "And", "|": "Or", "^": "Xor"}


def shape_of(v):
    return "bool" if isinstance(v, bool) else type(v).__name__


def predict_lower_bits(op, left, right):
    """LOWER estimate (bits, in the metric of _bits) of `left <op> right` on decoded operands, without computing it.
    Never larger than the true size + 1, so a tree that bounds the true size by B never enters a computation whose
    estimate exceeds B.  Both operand orders of the asymmetric operators are covered."""
    try:
        isint = lambda v: isinstance(v, int) and not isinstance(v, bool)
        isstr = lambda v: isinstance(v, (str, bytes))
        islist = lambda v: isinstance(v, (list, tuple))
        if op == "*":
            for a, b in ((left, right), (right, left)):
                if (isstr(a) or islist(a)) and isinstance(b, int):
                    return max(0, _bits(a) * int(b))
            if isint(left) and isint(right):
                return max(0, left.bit_length() + right.bit_length() - 1)
            return 1
        if op == "**":
            if isint(left) and isint(right) and right > 0 and left not in (0, 1, -1):
                return (abs(left).bit_length() - 1) * right
            return 1
        if op == "<<":
            if isint(left) and isint(right) and right > 0 and left != 0:
                return left.bit_length() + right
            return 1
        if op == "+":
            if (isstr(left) and isstr(right)) or (islist(left) and islist(right)):
                return _bits(left) + _bits(right)
            return 1
    except Exception:
        pass
    return 1


def _short(v, n=40):
    try:
        t = repr(v)
    except Exception:
        t = "<%s>" % type(v).__name__
    return t if len(t) <= n else t[:n - 12] + "...(%d chars)" % len(t)


def _maxrss_kb():
    try:
        import resource
        return resource.getrusage(resource.RUSAGE_SELF).ru_maxrss
    except Exception:
        return 0


class WorkCount:
    def __init__(self):
        self.c = {}
        self.evals = []            # the largest constant foldings seen: dicts
        self.eval_pending = None   # set while a strict_eval call is running (witness if the child dies inside)
        self.t0 = time.time()
        self.cpu0 = time.process_time()
        self.dump_path = None
        self.limits = None
        self.aborted = None
        self.snapshots = 0
        self._sysmon = []          # (name, [count])
        self.info = {}             # non-counter facts (fold bound read from lian's config, largest stored constant ...)

    def abort(self, k, v):
        """Counter k crossed its envelope: leave the witness behind and end the child."""
        lim = (self.limits or {}).get(k)
        self.aborted = (k, v, lim)
        self.dump(note={"abort": "envelope", "counter": k, "value": v, "limit": lim, "evals": self.evals[:4],
                        "info": {k: v for k, v in self.info.items() if isinstance(v, (str, int, float))}})
        try:
            sys.stdout.flush(); sys.stderr.flush()
        except Exception:
            pass
        os._exit(ABORT_CODE)

    def snapshot(self):
        d = dict(self.c)
        for name, box in self._sysmon:
            d[name] = box[0]
        d["maxrss_kb"] = _maxrss_kb()
        return d

    # ---- periodic dump / in-child envelope -----------------------------------------------------------
    def dump(self, final=False, note=None):
        if not self.dump_path:
            return
        rec = {"t": round(time.time() - self.t0, 3), "cpu": round(time.process_time() - self.cpu0, 3),
               "c": self.snapshot()}
        if self.eval_pending is not None:
            rec["in_strict_eval"] = self.eval_pending
        if final:
            rec["final"] = True
        if note:
            rec["note"] = note
        try:
            with open(self.dump_path, "a") as f:
                f.write(json.dumps(rec) + "\n")
            self.snapshots += 1
        except OSError:
            pass

    def _on_alarm(self, signo, frame):
        self.dump()

    def start_timer(self, interval):
        signal.signal(signal.SIGALRM, self._on_alarm)
        signal.setitimer(signal.ITIMER_REAL, interval, interval)

    def stop_timer(self):
        try:
            signal.setitimer(signal.ITIMER_REAL, 0, 0)
        except Exception:
            pass


def read_series(path):
    """Parent side: the snapshots a child left behind."""
    out = []
    try:
        with open(path) as f:
            for line in f:
                line = line.strip()
                if line:
                    try:
                        out.append(json.loads(line))
                    except ValueError:
                        pass
    except OSError:
        pass
    return out


# ---------------------------------------------------------------------------------------------------------
def _code_objects_of(mod):
    """All code objects defined in module `mod` (functions, methods, nested functions, lambdas)."""
    import types
    seen, out = set(), []

    def add_code(co):
        if id(co) in seen or co.co_filename != getattr(mod, "__file__", None):
            return
        seen.add(id(co))
        out.append(co)
        for k in co.co_consts:
            if isinstance(k, types.CodeType):
                add_code(k)

    def add_obj(o, depth=0):
        f = o
        if isinstance(f, (staticmethod, classmethod)):
            f = f.__func__
        if isinstance(f, property):
            for g in (f.fget, f.fset, f.fdel):
                if g is not None:
                    add_obj(g, depth)
            return
        if isinstance(f, type):
            co = None
        elif isinstance(f, (types.FunctionType, types.MethodType)):
            f = getattr(f, "__wrapped__", f)
            co = getattr(f, "__code__", None)
        else:
            return
        if isinstance(co, types.CodeType):
            add_code(co)
        elif isinstance(o, type) and depth < 3 and getattr(o, "__module__", None) == mod.__name__:
            for v in list(vars(o).values()):
                add_obj(v, depth + 1)

    for v in list(vars(mod).values()):
        add_obj(v)
    return out


def _install_sysmon(wc):
    mon = getattr(sys, "monitoring", None)
    if mon is None:
        return 0
    tool = None
    for tid in (4, 3, 5, 2):
        try:
            if mon.get_tool(tid) is None:
                mon.use_tool_id(tid, TOOL_NAME)
                tool = tid
                break
        except Exception:
            continue
    if tool is None:
        return 0
    code_group = {}
    boxes = {}
    n = 0
    lim = wc.limits or {}
    for gname, prefixes in SYSMON_GROUPS:
        box = [0, lim.get(gname, float("inf")), gname]
        boxes[gname] = box
        wc._sysmon.append((gname, box))
        for mname, mod in list(sys.modules.items()):
            if mod is None or not any(mname == p or mname.startswith(p) for p in prefixes):
                continue
            for co in _code_objects_of(mod):
                try:
                    mon.set_local_events(tool, co, mon.events.PY_START)
                    code_group[co] = box
                    n += 1
                except Exception:
                    pass

    def on_start(code, offset):
        b = code_group.get(code)
        if b is not None:
            b[0] += 1
            if b[0] > b[1]:
                b[1] = float("inf")
                wc.abort(b[2], b[0])

    mon.register_callback(tool, mon.events.PY_START, on_start)
    wc.c["sysmon_code_objects"] = n
    return n


def install(dump_path=None, interval=2.0, limits=None, sysmon=True):
    """Patch the lian classes (must run before Lian() is constructed). Returns the WorkCount object."""
    wc = WorkCount()
    wc.dump_path = dump_path
    wc.limits = dict(limits) if limits else None
    c = wc.c
    lim = wc.limits or {}
    INF = float("inf")

    def inc(k, n=1):
        v = c.get(k, 0) + n
        c[k] = v
        if v > lim.get(k, INF):
            wc.abort(k, v)

    def mx(k, v):
        if v > c.get(k, 0):
            c[k] = v
            if v > lim.get(k, INF):
                wc.abort(k, v)

    from lian.util import util as U
    from lian.util.loader import Loader
    from lian import preparation as PR
    from lian.lang import lang_analysis as LA
    from lian.core import prelim_semantics as PS
    from lian.core import global_semantics as GS
    from lian.core import stmt_states as SS
    from lian.core import global_stmt_states as GSS
    from lian.taint import taint_analysis as TA
    from lian import common_structs as CS
    from lian.config.constants import ANALYSIS_PHASE_ID

    P2, P3 = PS.P2PrelimSemanticAnalysis, GS.P3GlobalSemanticAnalysis
    GLOBAL = ANALYSIS_PHASE_ID.GLOBAL_SEMANTICS

    def ph(self):
        return "p3" if getattr(self, "analysis_phase_id", None) == GLOBAL else "p2"

    # ---- preparation -----------------------------------------------------------------------------------
    o_ws_run = PR.WorkspaceBuilder.run
    o_copy = PR.WorkspaceBuilder.copytree_with_extension

    def ws_run(self):
        r = o_ws_run(self)
        try:
            inc("prep_files", len(r))
        except Exception:
            pass
        return r

    def copytree(self, src, dst_path):
        inc("prep_copy_calls", 1)
        return o_copy(self, src, dst_path)

    PR.WorkspaceBuilder.run = ws_run
    PR.WorkspaceBuilder.copytree_with_extension = copytree

    # ---- frontend --------------------------------------------------------------------------------------
    o_add_unit = LA.GIRParser.add_unit_gir

    def add_unit_gir(self, unit_info, flatten_nodes):
        try:
            ext = bool(getattr(unit_info, "is_extern", False))
            k = "gir_stmts_extern" if ext else "gir_stmts"
            inc(k, (len(flatten_nodes) if flatten_nodes else 0))
            inc("gir_units", 1)
        except Exception:
            pass
        return o_add_unit(self, unit_info, flatten_nodes)

    LA.GIRParser.add_unit_gir = add_unit_gir

    # ---- P2 / P3 ---------------------------------------------------------------------------------------
    o_p2_init = P2.init_compute_frame
    o_p3_init = P3.init_compute_frame
    o_compute = P2.compute_stmt_states
    o_analyze_stmts = P2.analyze_stmts
    o_analyze_method = P2.analyze_method
    o_reach = P2.analyze_reachable_symbols
    o_p3_run = P3.run
    o_p2_run = P2.run

    def p2_init(self, frame, frame_stack, *a, **k):
        r = o_p2_init(self, frame, frame_stack, *a, **k)
        if ph(self) == "p2":
            inc("p2_frame_inits", 1)
            if r is not None:
                inc("p2_frames", 1)
        return r

    def p3_init(self, frame, frame_stack, global_space):
        r = o_p3_init(self, frame, frame_stack, global_space)
        if not getattr(frame, "is_meta_frame", False):
            inc("p3_frame_inits", 1)
            if r is not None:
                inc("p3_frames", 1)
                try:
                    d = len(frame_stack)
                    mx("p3_max_stack", d)
                    L = len(frame.call_path)
                    mx("p3_max_path_len", L)
                except Exception:
                    pass
        return r

    def compute_stmt_states(self, stmt_id, stmt, frame):
        k = "stmt_transfers_" + ph(self)
        inc(k, 1)
        return o_compute(self, stmt_id, stmt, frame)

    def analyze_reachable_symbols(self, stmt_id, stmt, frame):
        k = "reach_symbols_" + ph(self)
        inc(k, 1)
        return o_reach(self, stmt_id, stmt, frame)

    def analyze_stmts(self, frame):
        k = "analyze_stmts_" + ph(self)
        inc(k, 1)
        return o_analyze_stmts(self, frame)

    def analyze_method(self, method_id):
        inc("p2_methods", 1)
        return o_analyze_method(self, method_id)

    def p2_run(self):
        inc("p2_runs", 1)
        return o_p2_run(self)

    def p3_run(self):
        inc("p3_runs", 1)
        try:
            inc("entry_points", len(list(self.loader.get_entry_points())))
        except Exception:
            pass
        return o_p3_run(self)

    P2.init_compute_frame = p2_init
    P3.init_compute_frame = p3_init
    P2.compute_stmt_states = compute_stmt_states
    P2.analyze_reachable_symbols = analyze_reachable_symbols
    P2.analyze_stmts = analyze_stmts
    P2.analyze_method = analyze_method
    P2.run = p2_run
    P3.run = p3_run

    # ---- per-statement transfer functions, constant folding -----------------------------------------
    o_ss_run = SS.StmtStates.run
    o_two = SS.StmtStates.compute_two_states
    o_create = SS.StmtStates.create_state_and_add_space
    o_p3_target = GSS.GlobalStmtStates.compute_target_method_states
    o_p2_target = SS.StmtStates.compute_target_method_states

    ARRAY_OPS = ("array_write", "array_insert", "array_append", "array_extend", "array_read", "new_array",
                 "slice_write", "slice_read", "forin_stmt")

    def longest_array(self, indexes):
        m = 0
        space = self.frame.symbol_state_space
        for i in indexes or ():
            st = space[i]
            arr = getattr(st, "array", None)
            if arr is not None and len(arr) > m:
                m = len(arr)
        return m

    def ss_run(self, stmt_id, stmt, status, in_states, used):
        inc("handler_runs", 1)
        op = getattr(stmt, "operation", "")
        if op not in ARRAY_OPS:
            return o_ss_run(self, stmt_id, stmt, status, in_states, used)
        before = 0
        try:
            if status.used_symbols:
                before = longest_array(self, self.read_used_states(status.used_symbols[0], in_states))
        except Exception:
            before = 0
        r = o_ss_run(self, stmt_id, stmt, status, in_states, used)
        try:
            sym = self.frame.symbol_state_space[status.defined_symbol]
            after = longest_array(self, getattr(sym, "states", None))
            inc("array_stmts", 1)
            if after > before:
                if after - before > c.get("array_max_gap", 0):
                    wc.info["array_witness"] = (f"{op} at line {int(getattr(stmt, 'start_row', -1)) + 1}: element list "
                                                f"{before} -> {after} cells")
                mx("array_max_gap", after - before)
            mx("array_max_len", after)
        except Exception:
            pass
        return r

    def two(self, stmt, state1, state2, defined_symbol):
        inc("fold_calls", 1)
        return o_two(self, stmt, state1, state2, defined_symbol)

    def create(self, *a, **k):
        inc("states_created", 1)
        return o_create(self, *a, **k)

    def p3_target(self, *a, **k):
        inc("call_resolutions_p3", 1)
        return o_p3_target(self, *a, **k)

    def p2_target(self, *a, **k):
        inc("call_resolutions_p2", 1)
        return o_p2_target(self, *a, **k)

    SS.StmtStates.run = ss_run
    SS.StmtStates.compute_two_states = two
    SS.StmtStates.create_state_and_add_space = create
    GSS.GlobalStmtStates.compute_target_method_states = p3_target
    SS.StmtStates.compute_target_method_states = p2_target

    o_eval = U.strict_eval

    def strict_eval(content):
        inc("strict_eval_calls", 1)
        n = len(content) if isinstance(content, (str, bytes)) else 0
        inc("strict_eval_bytes", n)
        mx("strict_eval_max_bytes", n)
        pb, op = predict_bits(content) if isinstance(content, str) else (-1, "")
        mx("strict_eval_max_predicted_bits", pb)
        big = pb > 100000
        rec = None
        if big:
            rec = {"text": content[:80] + ("..." if n > 80 else ""), "bytes": n, "predicted_bits": pb, "op": op,
                   "evaluated": False}
            wc.eval_pending = rec
            if len(wc.evals) < 8:
                wc.evals.append(rec)
            wc.dump(note="entering strict_eval on a constant with a huge predicted result")
        t = time.time()
        try:
            v = o_eval(content)
        except BaseException as e:
            if rec is not None:
                rec["raised"] = type(e).__name__
                rec["wall_s"] = round(time.time() - t, 3)
            wc.eval_pending = None
            raise
        wc.eval_pending = None
        rb = _bits(v)
        if rec is not None:
            rec["evaluated"] = True
            rec["result_bits"] = rb
            rec["wall_s"] = round(time.time() - t, 3)
        mx("strict_eval_max_result_bits", rb)
        return v

    U.strict_eval = strict_eval

    # ---- element lists extended up to a written index -------------------------------------------------------
    o_addlist = getattr(U, "add_to_list_with_default_set", None)
    if callable(o_addlist):
        def add_to_list_with_default_set(l, index, value):
            n0 = len(l) if isinstance(l, list) else 0
            r = o_addlist(l, index, value)
            try:
                inc("array_list_writes", 1)
                grown = len(l) - n0
                if grown > 0:
                    inc("array_cells_added", grown)
                    if grown > c.get("array_max_gap", 0):
                        wc.info["array_witness"] = f"add_to_list_with_default_set(index={index}): element list {n0} -> {len(l)} cells"
                    mx("array_max_gap", grown)          # synchronous: the child ends here when over its limit
                    mx("array_max_len", len(l))
            except TypeError:
                pass
            return r

        U.add_to_list_with_default_set = add_to_list_with_default_set

    # ---- constant folding on decoded values (lian.util.const_fold) -----------------------------------------
    try:
        from lian.config import config as CFG
        bound = int(getattr(CFG, "MAX_FOLDED_CONSTANT_BITS", 0) or 0)
    except Exception:
        bound = 0
    wc.info["fold_bound_bits"] = bound
    wc.info["fold_hooks"] = []
    witness_from = bound if bound > 0 else 100000
    try:
        from lian.util import const_fold as CF
    except Exception:
        CF = None

    if CF is not None and callable(getattr(CF, "fold_constants", None)):
        o_fold = CF.fold_constants
        wc.info["fold_hooks"].append("fold_constants")

        def fold_constants(value1, data_type1, op, value2, data_type2, *a, **k):
            inc("fold_attempts", 1)
            ob = _bits(value1) + _bits(value2)
            inc("fold_operand_bytes", (ob + 7) // 8)
            mx("fold_max_operand_bits", ob)
            r0 = _maxrss_kb()
            r = o_fold(value1, data_type1, op, value2, data_type2, *a, **k)
            jump = _maxrss_kb() - r0
            if jump > 0:
                mx("fold_max_rss_jump_kb", jump)
            if r is not None:
                inc("fold_results", 1)
                try:
                    rb = _bits(r[0])
                except Exception:
                    rb = 64
                inc("fold_result_bits", rb)
                if rb > witness_from and len(wc.evals) < 8 and not any(e.get("result_bits") == rb for e in wc.evals):
                    wc.evals.append({"text": f"{_short(value1)} {op} {_short(value2)}", "op": OP_NAMES.get(op, str(op)),
                                     "shape": f"{data_type1},{data_type2}", "predicted_bits": rb, "result_bits": rb,
                                     "evaluated": True, "bound": bound, "via": "fold_constants"})
                mx("fold_max_result_bits", rb)
            return r

        CF.fold_constants = fold_constants

    ops = getattr(CF, "FOLD_OPERATORS", None) if CF is not None else None
    if isinstance(ops, dict):
        wc.info["fold_hooks"].append("FOLD_OPERATORS")

        def make(sym, fn):
            def compute(left, right):
                inc("fold_computes", 1)
                pb = predict_lower_bits(sym, left, right)
                rec = None
                if pb > witness_from:
                    rec = {"text": f"{_short(left)} {sym} {_short(right)}", "op": OP_NAMES.get(sym, str(sym)),
                           "shape": f"{shape_of(left)}{sym}{shape_of(right)}", "predicted_bits": pb, "entered": True,
                           "evaluated": False, "bound": bound, "via": "FOLD_OPERATORS"}
                    wc.eval_pending = rec
                    if len(wc.evals) < 8:
                        wc.evals.append(rec)
                    wc.dump(note="lian decided to compute a constant whose size exceeds its own bound")
                mx("fold_max_compute_bits", pb)        # with a limit the child ends here, before the allocation
                t = time.time()
                try:
                    v = fn(left, right)
                except BaseException as e:
                    if rec is not None:
                        rec["raised"] = type(e).__name__
                        rec["wall_s"] = round(time.time() - t, 3)
                    wc.eval_pending = None
                    raise
                wc.eval_pending = None
                if rec is not None:
                    rec["evaluated"] = True
                    rec["result_bits"] = _bits(v)
                    rec["wall_s"] = round(time.time() - t, 3)
                return v
            return compute

        for sym, fn in list(ops.items()):
            ops[sym] = make(sym, fn)

    # ---- state space, SFG, call paths -----------------------------------------------------------------
    o_space_add = CS.SymbolStateSpace.add

    def space_add(self, item):
        inc("space_adds", 1)
        return o_space_add(self, item)

    CS.SymbolStateSpace.add = space_add

    o_sfg_add = CS.StateFlowGraph.add_edge

    def sfg_add(self, *a, **k):
        inc("sfg_add_edge_calls", 1)
        return o_sfg_add(self, *a, **k)

    CS.StateFlowGraph.add_edge = sfg_add

    o_save_sfg = Loader.save_global_sfg_by_entry_point
    o_save_space = Loader.save_symbol_state_space_p3
    o_save_paths = Loader.save_call_paths_p3

    def save_sfg(self, method_id, graph):
        try:
            g = graph.graph
            inc("sfg_nodes", g.number_of_nodes())
            inc("sfg_edges", g.number_of_edges())
            inc("sfg_saved", 1)
        except Exception:
            pass
        return o_save_sfg(self, method_id, graph)

    def largest_constant(space):
        m, w = 0, None
        for item in space:
            arr = getattr(item, "array", None)
            if arr:
                mx("space_max_array_len", len(arr))
            v = getattr(item, "value", None)
            if isinstance(v, (str, bytes, int)) and not isinstance(v, bool):
                b = _bits(v)
                if b > m:
                    m, w = b, v
        return m, w

    def save_space(self, method_id, space):
        try:
            m, w = largest_constant(space)
            if m > c.get("p3_max_const_bits", 0):
                wc.info["p3_largest_constant"] = _short(w, 60)
            mx("p3_max_const_bits", m)
        except Exception:
            pass
        try:
            L = len(space)
            inc("p3_space_len", L)
            mx("p3_space_max", L)
            inc("p3_space_saved", 1)
        except Exception:
            pass
        return o_save_space(self, method_id, space)

    def save_paths(self, paths):
        try:
            inc("call_paths", len(paths))
            inc("call_paths_saved", 1)
            m = 0
            for p in paths:
                if len(p) > m:
                    m = len(p)
            c["call_path_max_len"] = m
        except Exception:
            pass
        return o_save_paths(self, paths)

    o_save_space_p2 = Loader.save_symbol_state_space_p2

    def save_space_p2(self, method_id, space):
        try:
            m, w = largest_constant(space)
            if m > c.get("p2_max_const_bits", 0):
                wc.info["p2_largest_constant"] = _short(w, 60)
            mx("p2_max_const_bits", m)
        except Exception:
            pass
        return o_save_space_p2(self, method_id, space)

    Loader.save_symbol_state_space_p2 = save_space_p2
    Loader.save_global_sfg_by_entry_point = save_sfg
    Loader.save_symbol_state_space_p3 = save_space
    Loader.save_call_paths_p3 = save_paths

    # ---- taint -------------------------------------------------------------------------------------------
    PF, T = TA.PathFinder, TA.TaintAnalysis
    o_prop = PF.propagate_taint
    o_tag = PF._get_node_tag
    o_enq = PF._enqueue
    o_src, o_snk, o_flows, o_trun = T.find_sources, T.find_sinks, T.find_flows, T.run
    o_rec = PF.reconstruct_define_use_path

    def propagate_taint(self, source):
        inc("taint_propagations", 1)
        return o_prop(self, source)

    def get_node_tag(self, u):            # called exactly once per worklist pop of propagate_taint
        inc("taint_pops", 1)
        return o_tag(self, u)

    def enqueue(self, worklist, in_worklist, node):
        inc("taint_enqueue_calls", 1)
        return o_enq(self, worklist, in_worklist, node)

    def find_sources(self):
        r = o_src(self)
        inc("taint_sources", len(r))
        return r

    def find_sinks(self):
        r = o_snk(self)
        inc("taint_sinks", len(r))
        return r

    def find_flows(self, sources, sinks):
        r = o_flows(self, sources, sinks)
        inc("taint_flows", len(r))
        return r

    def reconstruct(self, source, sink):
        inc("taint_path_reconstructions", 1)
        return o_rec(self, source, sink)

    def taint_run(self):
        inc("taint_runs", 1)
        return o_trun(self)

    PF.propagate_taint = propagate_taint
    PF._get_node_tag = get_node_tag
    PF._enqueue = enqueue
    PF.reconstruct_define_use_path = reconstruct
    T.find_sources, T.find_sinks, T.find_flows, T.run = find_sources, find_sinks, find_flows, taint_run

    if sysmon:
        _install_sysmon(wc)
    if dump_path:
        wc.dump(note="installed")
        wc.start_timer(interval)
    return wc
