"""C16 monitor for the block view of a GIR table (lian.util.gir_block.GIRBlockViewer): every query of a viewer — the root
view, every nested view reached through read_block, and the view after append_other — is compared with a naive scan of
the statement list the view was built from.

The naive model: `rows` = the statements in order; a block id b has the range (s, e) where s / e are the positions of its
block_start / block_end rows (found by a stack scan of our own); a view is the open interval (lo, hi) of positions."""
import itertools


def block_ranges(rows):
    stack, out = [], {}
    for i, r in enumerate(rows):
        if r.operation == "block_start":
            stack.append((r.stmt_id, i))
        elif r.operation == "block_end":
            b, s = stack.pop()
            assert b == r.stmt_id
            out[b] = (s, i)
    assert not stack
    return out


def first_index(rows):
    out = {}
    for i, r in enumerate(rows):
        out.setdefault(r.stmt_id, i)
    return out


def battery(view, rows, lo, hi, ranges, first, fails, where, depth=0, max_multi=3):
    """Compare every query of `view` (model: positions lo < i < hi of rows) with the scan. Returns #queries."""
    n = 0
    vis = list(range(lo + 1, hi))

    def bad(q, detail):
        if len(fails) < 40:
            fails.append((q, f"{where}: {detail}"))

    n += 1
    if len(view) != len(vis):
        bad("viewer.__len__", f"got {len(view)}, scan says {len(vis)}")
    n += 1
    it = list(view)
    if len(it) != len(vis) or any(a is not rows[i] for a, i in zip(it, vis)):
        bad("viewer.__iter__", f"yields {[getattr(a, 'stmt_id', None) for a in it]}, scan says {[rows[i].stmt_id for i in vis]}")
    for k in range(-len(vis) - 1, len(vis) + 1):
        n += 1
        try:
            got = view[k]
        except IndexError:
            got = IndexError
        want = rows[vis[k]] if -len(vis) <= k < len(vis) else IndexError
        if got is not want:
            bad("viewer.__getitem__", f"[{k}] gave {getattr(got, 'stmt_id', got)}, scan says {getattr(want, 'stmt_id', want)}")
    n += 1
    if list(view[1:]) != [rows[i] for i in vis[1:]]:
        bad("viewer.__getitem__(slice)", "[1:] differs from the scan")
    n += 1
    want_ids = sorted({rows[i].stmt_id for i in vis})
    if list(view.get_all_stmt_ids()) != want_ids:
        bad("viewer.get_all_stmt_ids", f"got {list(view.get_all_stmt_ids())}, scan says {want_ids}")
    all_ids = sorted(first) + [987654]
    for sid in all_ids:
        fi = first.get(sid)
        inside = fi is not None and lo < fi < hi
        n += 1
        if bool(view.contains_stmt_id(sid)) != inside:
            bad("viewer.contains_stmt_id", f"id {sid}: got {view.contains_stmt_id(sid)}, scan says {inside}")
        n += 1
        got = view.get_stmt_by_id(sid)
        want = rows[fi] if inside else None
        if got is not want:
            bad("viewer.get_stmt_by_id", f"id {sid}: got {getattr(got, 'stmt_id', got)}, scan says {getattr(want, 'stmt_id', want)}")
    for pos in range(-2, len(rows) + 2):
        n += 1
        got = view.get_stmt_by_pos(pos)
        want = rows[pos] if (lo < pos < hi and 0 <= pos < len(rows)) else None
        if got is not want:
            bad("viewer.get_stmt_by_pos", f"position {pos}: got {getattr(got, 'stmt_id', got)}, scan says {getattr(want, 'stmt_id', want)}")
    for r in rows:
        if r.operation == "block_end":
            continue            # the view knows a block id by its block_start row; membership of the end marker is not judged
        n += 1
        i = first[r.stmt_id]
        want = lo < i < hi and rows[i] is r
        if bool(r in view) != want:
            bad("viewer.__contains__", f"row {r.stmt_id}/{r.operation}: got {r in view}, scan says {want}")
    ops = sorted({r.operation for r in rows}) + ["no_such_operation"]
    for op in ops:
        n += 1
        got = view.query_operation(op)
        want = [rows[i] for i in vis if rows[i].operation == op]
        if len(got) != len(want) or any(a is not b for a, b in zip(got, want)):
            bad("viewer.query_operation", f"{op}: got {[a.stmt_id for a in got]}, scan says {[a.stmt_id for a in want]}")
    names = sorted({getattr(r, "name", None) for r in rows if isinstance(getattr(r, "name", None), str)}) + ["no_such_name"]
    for nm in names:
        n += 1
        got = view.query_field("name", nm)
        want = [rows[i] for i in vis if getattr(rows[i], "name", None) == nm]
        if len(got) != len(want) or any(a is not b for a, b in zip(got, want)):
            bad("viewer.query_field", f"name {nm!r}: got {[a.stmt_id for a in got]}, scan says {[a.stmt_id for a in want]}")
    bids = sorted(ranges)
    for b in bids + [987654, None]:
        n += 1
        got = view.get_block_stmt_ids(b)
        want = [rows[i].stmt_id for i in range(ranges[b][0] + 1, ranges[b][1])] if b in ranges else []
        if list(got) != want:
            bad("viewer.get_block_stmt_ids", f"block {b}: got {list(got)}, scan says {want}")
        n += 1
        sub = view.read_block(b)
        visible = b in ranges and lo < ranges[b][0] and ranges[b][1] < hi
        if not visible:
            if sub is not None:
                bad("viewer.read_block", f"block {b} is not inside this view but a view came back")
        elif sub is None:
            bad("viewer.read_block", f"block {b} lies inside this view but None came back")
        elif depth < 3:
            n += battery(sub, rows, ranges[b][0], ranges[b][1], ranges, first, fails, f"{where}>block{b}", depth + 1, max_multi=2)
    # boundary of several blocks: every order of every small subset (the answer must not depend on the order)
    pool = bids + [987654]
    for k in range(0, min(max_multi, len(pool)) + 1):
        for combo in itertools.permutations(pool, k):
            n += 1
            got = view.boundary_of_multi_blocks(list(combo))
            want = max([-1] + [ranges[b][1] for b in combo if b in ranges])
            if got != want:
                bad("viewer.boundary_of_multi_blocks", f"{list(combo)}: got {got}, a scan of the rows gives {want}")
    return n
