"""Monitors shared by C07 and C20.

* install_p3_recorder(): recording wrappers (installed in the forked child before the Lian object exists) on the
  places where the top-down phase takes its start methods and analyses frames:
    P3GlobalSemanticAnalysis.init_frame_stack      -> entries in the order P3 starts from them
    P3GlobalSemanticAnalysis.analyze_stmts         -> every frame handed to the statement analysis, keyed by
                                                      (entry, caller method, call statement, method)
    P3GlobalSemanticAnalysis.compute_stmt_states   -> statements whose states were computed in that frame
    P3GlobalSemanticAnalysis.generate_and_save_analysis_summary -> the frame ran to completion
* python_call_events(): CPython as the oracle - runs the generated project under sys.setprofile and returns every
  call whose caller and callee are both functions of the generated files.
* GirIndex: the join (file, line) -> GIR ids (method_decl by its def line, call statement by its line).
"""
import importlib
import os
import sys

CALL_OPS = ("call_stmt", "object_call_stmt", "new_object")


def install_p3_recorder():
    import lian.core.global_semantics as gs
    P3 = gs.P3GlobalSemanticAnalysis
    rec = {"entries": [], "frames": {}, "wrapper_calls": 0, "errors": [], "get_entry_points_calls": 0, "entry_sets": []}
    cur = {"entry": None}
    o_init, o_an, o_cs, o_done, o_run = P3.init_frame_stack, P3.analyze_stmts, P3.compute_stmt_states, \
        P3.generate_and_save_analysis_summary, P3.run

    def key(frame):
        return (cur["entry"], int(frame.caller_id), int(frame.call_stmt_id), int(frame.method_id))

    def init_frame_stack(self, entry_method_id, *a, **k):
        rec["wrapper_calls"] += 1
        try:
            cur["entry"] = int(entry_method_id)
            rec["entries"].append(int(entry_method_id))
        except Exception as e:
            rec["errors"].append(repr(e))
        return o_init(self, entry_method_id, *a, **k)

    def analyze_stmts(self, frame):
        rec["wrapper_calls"] += 1
        try:
            ent = rec["frames"].setdefault(key(frame), {"analyze": 0, "stmts": 0, "done": 0, "depth": 0})
            ent["analyze"] += 1
            try:
                ent["depth"] = max(ent["depth"], len(frame.frame_stack) - 1)
            except Exception:
                pass
        except Exception as e:
            rec["errors"].append(repr(e))
        return o_an(self, frame)

    def compute_stmt_states(self, stmt_id, stmt, frame):
        try:
            ent = rec["frames"].get(key(frame))
            if ent is not None:
                ent["stmts"] += 1
        except Exception as e:
            rec["errors"].append(repr(e))
        return o_cs(self, stmt_id, stmt, frame)

    def generate_and_save_analysis_summary(self, frame, *a, **k):
        try:
            ent = rec["frames"].get(key(frame))
            if ent is not None:
                ent["done"] += 1
        except Exception as e:
            rec["errors"].append(repr(e))
        return o_done(self, frame, *a, **k)

    def run(self):
        # what the loader hands out as entry points at the moment P3 starts
        try:
            rec["entry_sets"].append(sorted(int(x) for x in self.loader.get_entry_points()))
        except Exception as e:
            rec["errors"].append(repr(e))
        return o_run(self)

    P3.init_frame_stack = init_frame_stack
    P3.analyze_stmts = analyze_stmts
    P3.compute_stmt_states = compute_stmt_states
    P3.generate_and_save_analysis_summary = generate_and_save_analysis_summary
    P3.run = run
    return rec


class OracleBudget(Exception):
    pass


def python_call_events(root_dir, project, max_events=50000):
    """Execute the project with CPython: import the main module (its top level runs, and so does the top level of every
    module it imports) and, when the entry is a configured function, call it. Returns (events, error):
    events = {(root, caller, line, callee): {n, recv: receiver class names, stacks: call-site chains}} with root/caller/callee = (relpath, first line of the def) or
    (relpath, '<module>'); root is the module top level or harness-called function under which the call happened."""
    files = {os.path.join(root_dir, rel): rel for rel in project["files"]}
    defkeys = {(d["file"], d["first_line"]) for d in project["defs"]}
    events = {}
    n = [0]

    def prof(frame, event, arg):
        if event != "call":
            return
        code = frame.f_code
        rel = files.get(code.co_filename)
        if rel is None or code.co_name == "<module>":
            return
        back = frame.f_back
        if back is None:
            return
        brel = files.get(back.f_code.co_filename)
        if brel is None:
            return                    # called by the harness (the configured entry function itself)
        callee = (rel, code.co_firstlineno)
        if callee not in defkeys:
            return                    # class bodies
        bcode = back.f_code
        caller = (brel, "<module>") if bcode.co_name == "<module>" else (brel, bcode.co_firstlineno)
        fr, root = back, None
        while fr is not None and fr.f_code.co_filename in files:
            c = fr.f_code
            root = (files[c.co_filename], "<module>") if c.co_name == "<module>" else (files[c.co_filename], c.co_firstlineno)
            if c.co_name == "<module>":
                break
            fr = fr.f_back
        k = (root, caller, back.f_lineno, callee)
        ent = events.get(k)
        if ent is None:
            ent = events[k] = {"n": 0, "recv": set(), "stacks": set()}
        ent["n"] += 1
        if code.co_argcount > 0 and code.co_varnames[0] == "self":
            try:
                ent["recv"].add(type(frame.f_locals["self"]).__name__)
            except Exception:
                pass
        if len(ent["stacks"]) < 8:
            # (file, current line, function) of the caller frame and of the frames below it, innermost first
            chain, fr2 = [], back
            while fr2 is not None and fr2.f_code.co_filename in files and len(chain) < 60:
                c2 = fr2.f_code
                r2 = files[c2.co_filename]
                chain.append((r2, fr2.f_lineno, (r2, "<module>") if c2.co_name == "<module>" else (r2, c2.co_firstlineno)))
                if c2.co_name == "<module>":
                    break
                fr2 = fr2.f_back
            ent["stacks"].add(tuple(chain))
        n[0] += 1
        if n[0] > max_events:
            raise OracleBudget()

    sys.path.insert(0, root_dir)
    importlib.invalidate_caches()
    err = None
    old_limit = sys.getrecursionlimit()
    sys.setprofile(prof)
    try:
        try:
            mod = importlib.import_module(project["main"])
            if project["entry"]["mode"] == "method":
                getattr(mod, project["entry"]["name"])()
        except OracleBudget:
            err = "budget"
        except BaseException as e:      # noqa - a generated program must not raise; reported by the caller
            err = f"{type(e).__name__}: {str(e)[:300]}"
    finally:
        sys.setprofile(None)
        sys.setrecursionlimit(old_limit)
        try:
            sys.path.remove(root_dir)
        except ValueError:
            pass
    return events, err


class GirIndex:
    """(file, line) -> GIR ids of one analysed workspace. Built from frontend/gir.bundle* and frontend/module_symbols."""

    def __init__(self, wsd, src_root=None):
        import pandas as pd
        from lib import lianrun
        self.rows = lianrun.rows_as_dicts(lianrun.read_bundles(wsd, "frontend", "gir"))
        ms = lianrun.rows_as_dicts(pd.read_feather(os.path.join(wsd, "frontend", "module_symbols")))
        self.units = {}            # unit_id -> module_symbols row
        self.unit_of_original = {}
        for r in ms:
            if r.get("unit_id") is None:
                continue
            u = int(r["unit_id"])
            self.units[u] = r
            if r.get("original_path"):
                self.unit_of_original[os.path.realpath(r["original_path"])] = u
        self.by_id = {}
        self.methods = {}          # (unit, start_row) -> [method_decl row]
        self.unit_init = {}        # unit -> stmt_id
        self.calls = {}            # (unit, start_row) -> [row]
        self.methods_of_unit = {}
        for r in self.rows:
            sid = int(r["stmt_id"])
            self.by_id[sid] = r
            u = int(r.get("unit_id", -1))
            op = r.get("operation")
            if op == "method_decl":
                self.methods_of_unit.setdefault(u, []).append(r)
                if r.get("name") == "%unit_init":
                    self.unit_init[u] = sid
                elif r.get("start_row") is not None:
                    self.methods.setdefault((u, int(r["start_row"])), []).append(r)
            elif op in CALL_OPS and r.get("start_row") is not None:
                self.calls.setdefault((u, int(r["start_row"])), []).append(r)
        self._owner = {}

    def unit_for(self, abspath):
        return self.unit_of_original.get(os.path.realpath(abspath))

    def method_id(self, unit, def_line, first_line, name):
        """method_decl whose row is the def line (or the first decorator line) and whose name matches"""
        for ln in (def_line, first_line):
            for r in self.methods.get((unit, ln - 1), []):
                if r.get("name") == name:
                    return int(r["stmt_id"])
        return None

    def call_rows(self, unit, line):
        return self.calls.get((unit, line - 1), [])

    def owner_method(self, stmt_id):
        """the method_decl a statement belongs to (following parent_stmt_id through blocks); 0/None at unit level"""
        seen = 0
        cur = stmt_id
        while cur and seen < 200:
            r = self.by_id.get(cur)
            if r is None:
                return None
            p = r.get("parent_stmt_id")
            if not p:
                return 0
            p = int(p)
            pr = self.by_id.get(p)
            if pr is not None and pr.get("operation") == "method_decl":
                return p
            cur = p
            seen += 1
        return None


def read_call_paths(wsd):
    """semantic_p3/call_paths_p3 -> list of paths, each a list of (caller, call stmt, callee) int triples; None if absent"""
    import pandas as pd
    p = os.path.join(wsd, "semantic_p3", "call_paths_p3")
    if not os.path.exists(p):
        return None
    df = pd.read_feather(p)
    out = []
    for cp in df["call_path"]:
        out.append([tuple(int(x) for x in t) for t in cp])
    return out


def read_entry_points(wsd):
    import pandas as pd
    p = os.path.join(wsd, "semantic_p1", "entry_points")
    if not os.path.exists(p):
        return None
    df = pd.read_feather(p)
    out = set()
    for v in df["entry_points"]:
        out |= {int(x) for x in v}
    return out


def node_call_events(root_dir, project, timeout=30):
    """node as the oracle for the JavaScript rendering: runs the instrumented copy (every function body starts with
    __in(<qualified name>, this), every call-site line sets __L = <line>) and returns events in the format of
    python_call_events. The instrumented copy lives next to the analysed one under another name and is never analysed."""
    import json
    import subprocess
    rel = project["main"]
    qual_def = {d["qual"]: d for d in project["defs"]}
    src = project["node_files"][rel]
    if project["entry"]["mode"] == "method":
        src += f"\n{project['entry']['name']}();\n"
    src += "\nprocess.stdout.write(JSON.stringify(__E));\n"
    p = os.path.join(os.path.dirname(root_dir), "node_run.js")
    with open(p, "w") as f:
        f.write(src)
    try:
        r = subprocess.run(["node", p], capture_output=True, text=True, timeout=timeout)
    except Exception as e:      # noqa
        return {}, f"node failed: {e!r}"
    if r.returncode != 0:
        return {}, f"node exit {r.returncode}: {r.stderr[-300:]}"
    raw = json.loads(r.stdout or "[]")

    def key(name):
        if name == "<module>":
            return (rel, "<module>")
        d = qual_def.get(name)
        return (rel, d["first_line"]) if d else (rel, "?" + name)
    events = {}
    entry_name = project["entry"]["name"]
    for name, cn, chain in raw:
        callee = key(name)
        caller = key(chain[0][0])
        line = chain[0][1]
        if project["entry"]["mode"] == "method":
            if chain[0][0] == "<module>":
                continue               # the harness calling the configured entry function
            chain = [c for c in chain if c[0] != "<module>"]
            root = key(chain[-1][0])
        else:
            root = (rel, "<module>")
        k = (root, caller, line, callee)
        ent = events.setdefault(k, {"n": 0, "recv": set(), "stacks": set()})
        ent["n"] += 1
        if cn:
            ent["recv"].add(cn)
        if len(ent["stacks"]) < 8:
            ent["stacks"].add(tuple((rel, c[1], key(c[0])) for c in chain))
    return events, None
