"""Binding monitor for C05: turns (a) what the language runtime revealed about each executed identifier occurrence and
(b) lian's P1 artefacts (frontend/gir.bundle*, semantic_p1/s2space_p1.bundle*) into per-occurrence verdicts.

Vocabulary
  occurrence   one textual use of a name: out("<tag>", name) (tag u..), a call-site callee name (tag c..), a JS keyword-less write (w..)
  variable     what the language bound the occurrence to, described as (owner scope, name) — lian keeps one hoisted declaration row
               per (scope, name), so the comparison is at the level "which scope's declaration", not "which assignment"
  expected ids the stmt ids of the GIR declaration rows (variable_decl / parameter_decl / method_decl / class_decl / import) of that
               name that belong to that owner scope; empty when lian emitted no declaration where the language has one
  lian's ids   symbol_id of the s2space_p1 symbol rows with that (stmt_id, name)
"""
import ast
import re

DECL_OPS = ("variable_decl", "parameter_decl", "method_decl", "class_decl", "import_stmt", "from_import_stmt",
            "interface_decl", "record_decl", "enum_decl", "struct_decl", "namespace_decl")
SCOPE_OWNER_OPS = ("method_decl", "class_decl", "interface_decl", "record_decl", "enum_decl", "struct_decl", "namespace_decl")
TRANSPARENT_METHODS = ("%unit_init", "%class_sinit", "%class_init")


def _int(v):
    try:
        return int(v)
    except Exception:
        return None


class UnitView:
    """Flattened GIR rows of one unit with the tree navigation the judge needs."""

    def __init__(self, rows):
        self.rows = rows
        self.by_id = {}
        self.block_owner = {}
        self.pos = {}
        for i, r in enumerate(rows):
            sid = _int(r.get("stmt_id"))
            if r.get("operation") == "block_start":
                self.block_owner[sid] = _int(r.get("parent_stmt_id"))
            elif r.get("operation") != "block_end":
                self.by_id[sid] = r
                self.pos[sid] = i
        self.block_col = {}
        for sid, r in self.by_id.items():
            for c, v in r.items():
                if c in ("stmt_id", "parent_stmt_id", "unit_id", "start_row", "start_col", "end_row", "end_col", "original_stmt"):
                    continue
                if isinstance(v, (int, float)) and v == v and int(v) in self.block_owner and self.block_owner[int(v)] == sid:
                    self.block_col[int(v)] = c

    def block_of(self, sid):
        r = self.by_id.get(sid)
        return _int(r.get("parent_stmt_id")) if r else None

    def parent_stmt(self, sid):
        blk = self.block_of(sid)
        if not blk:
            return 0
        return self.block_owner.get(blk, blk) or 0

    def chain(self, sid):
        """[(ancestor stmt id, column of the ancestor through which we descend)], inner to outer, ending before 0."""
        out = []
        cur = sid
        seen = set()
        while cur and cur not in seen:
            seen.add(cur)
            blk = self.block_of(cur)
            par = self.parent_stmt(cur)
            if not par:
                break
            out.append((par, self.block_col.get(blk)))
            cur = par
        return out

    def is_transparent(self, sid):
        r = self.by_id.get(sid, {})
        return r.get("operation") == "method_decl" and r.get("name") in TRANSPARENT_METHODS

    def owner_scope(self, sid):
        """Nearest enclosing method/class declaration row (0 = the unit), lian's synthetic %unit_init/%class_sinit skipped."""
        for par, _ in self.chain(sid):
            r = self.by_id.get(par, {})
            if r.get("operation") in SCOPE_OWNER_OPS and not self.is_transparent(par):
                return par
        return 0

    def owner_chain(self, sid):
        out = []
        cur = self.owner_scope(sid)
        while cur:
            out.append(cur)
            cur = self.owner_scope(cur)
        out.append(0)
        return out

    def norm_block(self, sid):
        """The block a row sits in; the top block of %unit_init counts as the unit level (0), like rows with parent 0."""
        blk = self.block_of(sid)
        if not blk:
            return 0
        own = self.block_owner.get(blk)
        if own and self.is_transparent(own) and self.by_id[own].get("name") == "%unit_init":
            return 0
        return blk

    def enclosing_blocks(self, sid):
        """Normalised blocks enclosing a row up to (and including) the body block of its owner function, inner to outer."""
        out = [self.norm_block(sid)]
        for par, _ in self.chain(sid):
            r = self.by_id.get(par, {})
            if r.get("operation") in SCOPE_OWNER_OPS and not self.is_transparent(par):
                break
            out.append(self.norm_block(par))
        return out

    @staticmethod
    def decl_name(r):
        op = r.get("operation")
        if op in ("import_stmt", "from_import_stmt"):
            a = r.get("alias")
            if isinstance(a, str) and a:
                return a
            n = r.get("name")
            return n.split(".")[-1] if isinstance(n, str) else n
        return r.get("name")

    def decl_rows(self, name):
        return [r for r in self.by_id.values() if r.get("operation") in DECL_OPS and self.decl_name(r) == name]

    def anchors(self):
        """(operation class, 0-based line) -> stmt id for method/class declaration rows."""
        out = {}
        for sid, r in self.by_id.items():
            if r.get("operation") in SCOPE_OWNER_OPS and r.get("start_row") is not None and not self.is_transparent(sid):
                out.setdefault(int(r["start_row"]), []).append(sid)
        return out


def parse_args(v):
    if not isinstance(v, str):
        return None
    try:
        a = ast.literal_eval(v)
    except Exception:
        return None
    return a if isinstance(a, list) else None


def tagged_rows(view):
    """tag -> row for every statement that carries a "<tag>" string literal as its first positional argument."""
    out = {}
    for sid, r in view.by_id.items():
        if r.get("operation") not in ("call_stmt", "object_call_stmt", "new_object"):
            continue
        a = parse_args(r.get("positional_args"))
        if not a or not isinstance(a[0], str):
            continue
        m = re.fullmatch(r"""["']([ucw]\d+)["']""", a[0].strip())
        if m:
            out.setdefault(m.group(1), []).append((r, a))
    return out


class S2:
    """(stmt_id, name) -> [(symbol_id, source_unit_id)] from s2space_p1 symbol rows of one unit's methods."""

    def __init__(self, rows):
        self.m = {}
        self.n = 0
        for r in rows:
            if _int(r.get("symbol_or_state")) != 0:
                continue
            name = r.get("name")
            if not isinstance(name, str):
                continue
            self.n += 1
            self.m.setdefault((_int(r.get("stmt_id")), name), []).append((_int(r.get("symbol_id")), _int(r.get("source_unit_id"))))

    def ids(self, stmt_id, name):
        return self.m.get((stmt_id, name), [])


# =====================================================================================================================
# Python oracles
# =====================================================================================================================
def py_parse_value(rep, quals):
    if re.fullmatch(r"-?\d+", rep):
        return ("const", int(rep))
    if rep in ("'!NE'", '"!NE"'):
        return ("missing",)
    m = re.fullmatch(r"<function (\S+) at 0x[0-9a-f]+>", rep)
    if m:
        return ("scope", quals.get(m.group(1)))
    m = re.fullmatch(r"<class '(?:[A-Za-z_0-9]+)\.(.+)'>", rep)
    if m:
        return ("scope", quals.get(m.group(1)))
    return ("unknown", rep)


def py_dynamic(text, meta):
    """Runs the program under CPython. -> None when it is not a usable total program, else {tag: [parsed values]}."""
    from lib import pyoracle
    r = pyoracle.run_cpython(text, entry=None, budget=400000)
    if r["status"] != "ok":
        return None, r.get("error") or r["status"]
    quals = {s["qual"]: int(sid) for sid, s in meta["scopes"].items() if s.get("qual")}
    obs = {}
    for o in r["outputs"]:
        if len(o) != 2:
            continue
        try:
            tag = ast.literal_eval(o[0])
        except Exception:
            continue
        obs.setdefault(tag, []).append(py_parse_value(o[1], quals))
    return obs, None


class PySym:
    """symtable view of a rendered program, aligned with the generator's scope ids through (name, line)."""

    def __init__(self, text, meta):
        import symtable
        self.meta = meta
        self.scopes = {int(k): v for k, v in meta["scopes"].items()}
        self.mod_sid = [k for k, v in self.scopes.items() if v["kind"] == "module"][0]
        top = symtable.symtable(text, "<prog>", "exec")
        self.table = {self.mod_sid: top}
        by_key = {(v["name"], v["line"] + 1): k for k, v in self.scopes.items() if v["kind"] != "module"}

        def walk(t):
            for c in t.get_children():
                k = by_key.get((c.get_name(), c.get_lineno()))
                if k is not None:
                    self.table[k] = c
                walk(c)
        walk(top)
        self.complete = len(self.table) == len(self.scopes)

    def sym(self, sid, name):
        try:
            return self.table[sid].lookup(name)
        except KeyError:
            return None

    def module_binds(self, name):
        s = self.sym(self.mod_sid, name)
        return s is not None and (s.is_assigned() or s.is_imported() or s.is_namespace())

    def owner(self, sid, name):
        """The scope id whose declaration `name` refers to when it occurs in scope sid; None = no declaration visible."""
        s = self.sym(sid, name)
        if s is None:
            return "?"
        if sid == self.mod_sid:
            return self.mod_sid if self.module_binds(name) else None
        if s.is_global():
            return self.mod_sid if self.module_binds(name) else None
        if s.is_local():
            return sid
        if s.is_free():
            p = self.scopes[sid]["parent"]
            while p is not None and p != self.mod_sid:
                if self.scopes[p]["kind"] != "class":
                    ps = self.sym(p, name)
                    if ps is not None and ps.is_local():
                        return p
                p = self.scopes[p]["parent"]
            return "?"
        return "?"

    def access(self, sid, name):
        s = self.sym(sid, name)
        if s is None or sid == self.mod_sid:
            return ""
        if s.is_declared_global():
            return "global-stmt"
        if s.is_nonlocal():
            return "nonlocal-stmt"
        return ""


def py_variable_of_value(val, meta, sym):
    """(owner scope id | None, name) that a runtime value identifies; '?' when it identifies nothing."""
    if val[0] == "missing":
        return (None, None)
    if val[0] == "const":
        c = str(val[1])
        if c in meta["assigns"]:
            a = meta["assigns"][c]
            return (sym.owner(a["scope"], a["name"]), a["name"])
        if c in meta["params"]:
            p = meta["params"][c]
            return (p["scope"], p["name"])
        return ("?", None)
    if val[0] == "scope" and val[1] is not None:
        s = sym.scopes[val[1]]
        return (sym.owner(s["parent"], s["name"]), s["name"])
    return ("?", None)


def py_site_kind(sym, sid):
    s = sym.scopes[sid]
    if s["kind"] == "module":
        return "module-body"
    inside_fn = False
    p = s["parent"]
    while p is not None:
        if sym.scopes[p]["kind"] == "function":
            inside_fn = True
        p = sym.scopes[p]["parent"]
    if s["kind"] == "class":
        if sym.scopes[s["parent"]]["kind"] == "class":
            return "nested-class-body"
        return "local-class-body" if inside_fn else "class-body"
    if s.get("method"):
        return "method-body"
    return "nested-function-body" if inside_fn else "function-body"


def py_decl_kind(sym, meta, use_sid, owner_sid, name):
    if owner_sid is None:
        return "none"
    o = sym.scopes[owner_sid]
    what = "variable"
    for c, p in meta["params"].items():
        if p["scope"] == owner_sid and p["name"] == name:
            what = "parameter"
    for sid, s in sym.scopes.items():
        if s["parent"] == owner_sid and s["name"] == name:
            what = "function-decl" if s["kind"] == "function" else "class-decl"
    qual = ""
    if what == "variable":
        blks = [a["block"] for a in meta["assigns"].values() if a["scope"] == owner_sid and a["name"] == name and a.get("block")]
        if blks:
            qual = f"(assigned-in-{blks[0]}-block)"
    if o["kind"] == "module":
        base = "module-" + what
    elif o["kind"] == "class":
        base = ("own-" if owner_sid == use_sid else "enclosing-") + "class-member" if what == "variable" else \
            ("own-" if owner_sid == use_sid else "enclosing-") + "class-" + what
    else:
        base = ("own-" if owner_sid == use_sid else "enclosing-function-") + ("local" if what == "variable" else what)
    return base + qual


# =====================================================================================================================
# mechanism-level vocabulary for signatures (coarser than the evidence pairs on purpose: one defect, few signatures)
# =====================================================================================================================
def py_coarse_site(sym, sid, name):
    s = sym.scopes[sid]
    if s["kind"] == "module":
        return "module-body"
    in_class = False
    p = s["parent"]
    while p is not None:
        if sym.scopes[p]["kind"] == "class":
            in_class = True
        p = sym.scopes[p]["parent"]
    base = ("nested-class-body" if in_class else "class-body") if s["kind"] == "class" else \
        ("function-body-inside-class" if in_class else "function-body")
    flag = ""
    own = sym.sym(sid, name)
    if own is not None and own.is_nonlocal():
        flag = "(nonlocal-stmt)"
    q = sid
    while q is not None and q != sym.mod_sid:
        t = sym.sym(q, name)
        if sym.scopes[q]["kind"] == "function" and t is not None and t.is_declared_global():
            flag = "(global-stmt)" if q == sid else "(global-stmt-in-enclosing-function)"
            break
        if sym.scopes[q]["kind"] == "function" and t is not None and t.is_local():
            break
        q = sym.scopes[q]["parent"]
    return base + flag


def py_coarse_decl(sym, use_sid, owner_sid):
    if owner_sid is None:
        return "none"
    o = sym.scopes[owner_sid]
    if owner_sid == use_sid:
        return "own-class-member" if o["kind"] == "class" else ("module-declaration" if o["kind"] == "module" else "own-scope-declaration")
    if o["kind"] == "module":
        return "module-declaration"
    return "enclosing-class-member" if o["kind"] == "class" else "enclosing-function-declaration"


def left_in_block(view, decl_ids, owner_gir):
    """'' when some declaration row sits at the top level of its owner; else where the first one was left."""
    if not decl_ids:
        return "(no-declaration-row)"
    first = None
    for d in decl_ids:
        r = view.by_id[d]
        if r.get("operation") != "variable_decl" or view.parent_stmt(d) == owner_gir or \
                (owner_gir == 0 and view.norm_block(d) == 0):
            return ""
        if first is None:
            par, col = view.chain(d)[0]
            first = f"(declaration-left-in-{view.by_id.get(par, {}).get('operation')}-{col})"
    return first or ""


CLASS_OPS = ("class_decl", "interface_decl", "record_decl", "enum_decl", "struct_decl")


def reparented_classes(view):
    """class_decl rows that lie inside the `nested` block of an outer class WITHOUT being a direct entry of that block (a class in a
    method of a nested class, a nested class of a nested class): scope_hierarchy.correct_scopes searches the nested block
    recursively and re-parents every class_decl it finds to the outer class (the winner depends on set iteration order)."""
    out = set()
    for sid, r in view.by_id.items():
        if r.get("operation") != "class_decl":
            continue
        for i, (par, col) in enumerate(view.chain(sid)):
            if i > 0 and col == "nested" and view.by_id.get(par, {}).get("operation") == "class_decl":
                out.add(sid)
                break
    return out


def describe_choice(view, use_sid, ids, block_scoped=False, all_views=None):
    """What lian bound the occurrence to, relative to the use site. ids: [(symbol_id, source_unit_id)]."""
    if not ids:
        return "no-symbol-row"
    sym_id, src_unit = ids[0]
    if sym_id is None or sym_id < 0:
        return "unresolved"
    r = view.by_id.get(sym_id)
    if r is None:
        for rel, v in (all_views or {}).items():
            if sym_id in v.by_id:
                rr = v.by_id[sym_id]
                return "declaration-in-other-file" if rr.get("operation") in DECL_OPS else "non-declaration-row-in-other-file"
        return "id-of-no-statement"
    op = r.get("operation")
    if op in ("import_stmt", "from_import_stmt"):
        return "the-import-statement-itself"
    if op not in DECL_OPS:
        return "non-declaration-row:" + str(op)
    oc = view.owner_scope(sym_id)
    uc = view.owner_chain(use_sid)
    cls = bool(oc) and view.by_id.get(oc, {}).get("operation") in CLASS_OPS
    what = "implicit-global-declaration" if (op == "variable_decl" and "global" in str(r.get("attrs") or "")) else None
    blk_ok = True
    if block_scoped and op == "variable_decl":
        ref = use_sid if oc == uc[0] else (uc[uc.index(oc) - 1] if oc in uc else None)
        if ref is not None:
            blk_ok = view.norm_block(sym_id) in view.enclosing_blocks(ref)
    if oc == 0:
        base = what or "module-declaration"
    elif oc == uc[0]:
        base = "own-class-member" if cls else (what or "own-scope-declaration")
    elif oc in uc:
        base = "enclosing-class-member" if cls else (what or "enclosing-function-declaration")
    elif uc[0] in view.owner_chain(sym_id):
        base = "inner-scope-declaration"
    else:
        base = "sibling-scope-declaration"
    if not blk_ok:
        base += "(in-non-enclosing-block)"
    return base
