"""C14 monitor: what a lian workspace contains, at two levels.

* byte level     — SHA-256 of every file under the artefact directories (the property's observe_at);
* decoded level  — feather files -> (columns, dtypes, rows), JSON -> objects, anything else -> text lines,
                   with every occurrence of the run's own workspace / input prefix inside any string replaced by a
                   fixed token, so that two runs at different locations can be compared.

`snapshot(ws, …)` runs inside the forked child right after the analysis; `first_difference` turns two decoded
files into a witness (table / row / column) and `mechanism` into the signature component `<stem>:<column|key>`.
Nothing here looks at lian's code; pandas is only imported inside functions (children only)."""
import hashlib
import json
import os
import re

ARTEFACT_DIRS = ("frontend", "semantic_p1", "semantic_p2", "semantic_p3", "taint",
                 "state_flow_p2_dot", "state_flow_p3_dot")
INPUT_COPY_DIRS = ("src",)          # lian's copy of the analysed files: hashed as a harness self-check only
WS_TOKEN = "<WS>"
IN_TOKEN = "<IN>"


# ---------------------------------------------------------------------------------------------------
# byte level

def sha_file(path):
    h = hashlib.sha256()
    with open(path, "rb") as f:
        for chunk in iter(lambda: f.read(1 << 16), b""):
            h.update(chunk)
    return h.hexdigest()


def list_files(ws, dirs=ARTEFACT_DIRS):
    """Relative paths of all regular files under the given sub-directories of ws, sorted (pipeline order of the
    directories, names sorted inside)."""
    out = []
    for d in dirs:
        root = os.path.join(ws, d)
        if not os.path.isdir(root):
            continue
        sub = []
        for r, dn, fn in os.walk(root):
            for n in fn:
                p = os.path.join(r, n)
                if os.path.isfile(p) and not os.path.islink(p):
                    sub.append(os.path.relpath(p, ws))
        out.extend(sorted(sub))
    return out


# ---------------------------------------------------------------------------------------------------
# decoded level

def _norm(v, subst):
    """A JSON-able, location-independent image of one cell / JSON value."""
    if v is None:
        return None
    t = type(v)
    if t is str:
        for a, b in subst:
            if a in v:
                v = v.replace(a, b)
        return v
    if t is bool or t is int:
        return v
    if t is float:
        return None if v != v else v
    if t is bytes:
        return {"#bytes": v.hex()}
    if t is dict:
        return {str(_norm(k, subst)): _norm(x, subst) for k, x in v.items()}
    if t is list or t is tuple:
        return [_norm(x, subst) for x in v]
    mod = getattr(t, "__module__", "")
    if mod.startswith("numpy"):
        if hasattr(v, "tolist") and getattr(v, "ndim", 0) > 0:
            return [_norm(x, subst) for x in v.tolist()]
        if hasattr(v, "item"):
            return _norm(v.item(), subst)
    if mod.startswith("pandas"):
        try:
            import pandas as pd
            if v is pd.NA or v is pd.NaT:
                return None
        except Exception:
            pass
        return {"#repr": _norm(repr(v), subst)}
    if t is set or t is frozenset:
        return {"#set": sorted((_norm(x, subst) for x in v), key=repr)}
    return {"#repr": _norm(repr(v), subst)}


def kind_of(path):
    try:
        with open(path, "rb") as f:
            head = f.read(8)
    except OSError:
        return "unreadable"
    if len(head) == 0:
        return "empty"
    if head.startswith(b"ARROW1"):
        return "feather"
    if path.endswith(".json"):
        return "json"
    return "text"


def decode_file(path, subst=()):
    """-> {'kind', and for feather: 'columns', 'dtypes', 'rows' (list of lists); json: 'value'; text: 'lines'}"""
    k = kind_of(path)
    if k == "feather":
        import pandas as pd
        try:
            df = pd.read_feather(path)
        except Exception as e:       # an unreadable feather file is itself an observation, compared as such
            return {"kind": "feather-unreadable", "error": type(e).__name__, "sha": sha_file(path)}
        cols = [str(c) for c in df.columns]
        rows = [[_norm(v, subst) for v in tup] for tup in df.itertuples(index=False, name=None)]
        return {"kind": k, "columns": cols, "dtypes": [str(x) for x in df.dtypes], "rows": rows}
    if k == "json":
        with open(path, "r", encoding="utf-8", errors="replace") as f:
            text = f.read()
        try:
            return {"kind": k, "value": _norm(json.loads(text), subst)}
        except ValueError:
            return {"kind": "text", "lines": [_norm(x, subst) for x in text.splitlines()]}
    if k == "text":
        with open(path, "rb") as f:
            data = f.read()
        try:
            text = data.decode("utf-8")
        except UnicodeDecodeError:
            return {"kind": "binary", "sha": hashlib.sha256(data).hexdigest()}
        return {"kind": k, "lines": [_norm(x, subst) for x in text.splitlines()]}
    return {"kind": k}


def canonical(obj):
    return json.dumps(obj, sort_keys=True, ensure_ascii=True, separators=(",", ":"), default=repr)


def subst_for(ws, in_roots=()):
    """Longest prefix first; real paths as well as the paths as given."""
    pairs = []
    for p, tok in [(ws, WS_TOKEN)] + [(r, IN_TOKEN) for r in in_roots]:
        for q in {p, os.path.realpath(p), os.path.abspath(p)}:
            q = q.rstrip("/")
            if q:
                pairs.append((q, tok))
    pairs.sort(key=lambda x: -len(x[0]))
    return tuple(pairs)


def snapshot(ws, in_roots=(), dirs=ARTEFACT_DIRS):
    """{relpath: {'size', 'sha' (bytes), 'kind', 'dsha' (decoded, prefixes substituted), 'rows', 'embeds'}}.
    'embeds' lists which of the run's own location prefixes occur in the decoded content (feather bodies are LZ4
    compressed, so the raw bytes cannot be searched): these are the files that embed locations."""
    subst = subst_for(ws, in_roots)
    out = {}
    for rel in list_files(ws, dirs):
        p = os.path.join(ws, rel)
        with open(p, "rb") as f:
            raw = f.read()
        dec = decode_file(p, subst)
        canon = canonical(dec)
        emb = sorted({tok for a, tok in subst if tok in canon})
        out[rel] = {"size": len(raw), "sha": hashlib.sha256(raw).hexdigest(), "kind": dec["kind"],
                    "dsha": hashlib.sha256(canon.encode()).hexdigest(),
                    "rows": len(dec.get("rows", dec.get("lines", []))) if dec["kind"] != "json" else _json_size(dec["value"]),
                    "embeds": emb}
    return out


def _json_size(v):
    if isinstance(v, dict):
        return sum(_json_size(x) for x in v.values()) + len(v)
    if isinstance(v, list):
        return sum(_json_size(x) for x in v) + len(v)
    return 1


def field_group_hits(ws, groups):
    """Workload probe (not a verdict): for each group of field names, does some state row of semantic_p3/s2space_p3*
    carry ALL of them in its `fields` dict? -> list of booleans. Tells whether a project really made lian merge
    callee-added fields into an object that already had fields of its own."""
    import pandas as pd
    d = os.path.join(ws, "semantic_p3")
    keysets = set()
    if os.path.isdir(d):
        for n in sorted(os.listdir(d)):
            if n.startswith("s2space_p3.bundle"):
                try:
                    df = pd.read_feather(os.path.join(d, n))
                except Exception:
                    continue
                if "fields" not in df.columns:
                    continue
                for f in df["fields"]:
                    if isinstance(f, str) and len(f) > 2:
                        try:
                            v = json.loads(f)
                        except ValueError:
                            continue
                        if isinstance(v, dict):
                            keysets.add(frozenset(v))
    return [any(set(g) <= ks for ks in keysets) for g in groups]


# ---------------------------------------------------------------------------------------------------
# comparison

def stem(rel):
    """'semantic_p3/s2space_p3.bundle0' -> 's2space_p3.bundle'; 'taint/taint_data_flow.json' -> 'taint_data_flow'."""
    b = os.path.basename(rel)
    b = re.sub(r"\.bundle\d+$", ".bundle", b)
    b = re.sub(r"\.(json|dot|txt)$", "", b)
    return b


def _json_diff(a, b, path=""):
    """First differing key path (list positions written as []) and the two values there."""
    if type(a) is not type(b):
        return path or "$", a, b
    if isinstance(a, dict):
        for k in sorted(set(a) | set(b)):
            if k not in a:
                return f"{path}.{k}", "#absent", b[k]
            if k not in b:
                return f"{path}.{k}", a[k], "#absent"
            d = _json_diff(a[k], b[k], f"{path}.{k}")
            if d:
                return d
        return None
    if isinstance(a, list):
        for i, (x, y) in enumerate(zip(a, b)):
            d = _json_diff(x, y, f"{path}[]")
            if d:
                return (d[0], d[1], d[2]) + ((d[3] if len(d) > 3 else i),)
        if len(a) != len(b):
            return f"{path}#length", len(a), len(b)
        return None
    if a != b:
        return path or "$", a, b
    return None


def _short(v, n=300):
    s = v if isinstance(v, str) else canonical(v)
    return s if len(s) <= n else s[:n] + "…"


def first_difference(da, db):
    """Witness for two decoded files: {'where': column|json key|#rows|#columns|#kind, 'row', 'a', 'b'}; None if equal."""
    if da["kind"] != db["kind"]:
        return {"where": "#kind", "row": None, "a": da["kind"], "b": db["kind"]}
    k = da["kind"]
    if k == "feather":
        if da["columns"] != db["columns"]:
            return {"where": "#columns", "row": None, "a": _short(da["columns"]), "b": _short(db["columns"])}
        permuted = (len(da["rows"]) == len(db["rows"]) and da["rows"] != db["rows"]
                    and sorted(map(canonical, da["rows"])) == sorted(map(canonical, db["rows"])))
        for i, (ra, rb) in enumerate(zip(da["rows"], db["rows"])):
            if ra != rb:
                if permuted:        # the same rows in another order: the column where they first differ is incidental
                    return {"where": "#row-order", "row": i, "a": _short(dict(zip(da["columns"], ra)), 600),
                            "b": _short(dict(zip(db["columns"], rb)), 600)}
                for c, x, y in zip(da["columns"], ra, rb):
                    if x != y:
                        return {"where": c, "row": i, "a": _short(x), "b": _short(y),
                                "row_a": _short(dict(zip(da["columns"], ra)), 600), "row_b": _short(dict(zip(db["columns"], rb)), 600)}
        if len(da["rows"]) != len(db["rows"]):
            return {"where": "#rows", "row": min(len(da["rows"]), len(db["rows"])), "a": len(da["rows"]), "b": len(db["rows"])}
        if da["dtypes"] != db["dtypes"]:
            for c, x, y in zip(da["columns"], da["dtypes"], db["dtypes"]):
                if x != y:
                    return {"where": c + "#dtype", "row": None, "a": x, "b": y}
        return None
    if k == "json":
        d = _json_diff(da["value"], db["value"])
        if d:
            return {"where": d[0].lstrip("."), "row": d[3] if len(d) > 3 else None, "a": _short(d[1]), "b": _short(d[2])}
        return None
    if k == "text":
        for i, (x, y) in enumerate(zip(da["lines"], db["lines"])):
            if x != y:
                return {"where": "#line", "row": i, "a": _short(x), "b": _short(y)}
        if len(da["lines"]) != len(db["lines"]):
            return {"where": "#lines", "row": min(len(da["lines"]), len(db["lines"])), "a": len(da["lines"]), "b": len(db["lines"])}
        return None
    if da != db:
        return {"where": "#content", "row": None, "a": _short(da), "b": _short(db)}
    return None


def compare_snapshots(sa, sb, level):
    """level 'bytes' | 'decoded'. -> list of (relpath, reason) in pipeline order; reason: missing-in-a | missing-in-b |
    bytes | decoded. On level 'bytes' a file is reported when its bytes differ; the caller then decides (by looking
    at 'dsha') whether the difference is only an embedded location."""
    diffs = []
    key = "sha" if level == "bytes" else "dsha"
    order = {d: i for i, d in enumerate(ARTEFACT_DIRS + INPUT_COPY_DIRS)}
    first = {"frontend/module_symbols": 0}      # written by preparation, before any bundle: the earliest artefact
    for rel in sorted(set(sa) | set(sb), key=lambda r: (order.get(r.split("/", 1)[0], 99), first.get(r, 1), r)):
        if rel not in sa:
            diffs.append((rel, "missing-in-a"))
        elif rel not in sb:
            diffs.append((rel, "missing-in-b"))
        elif sa[rel][key] != sb[rel][key]:
            diffs.append((rel, level))
    return diffs


def witness(ws_a, ws_b, rel, subst_a, subst_b):
    """Decode one file from two kept workspaces (forked child) and return the first difference."""
    pa, pb = os.path.join(ws_a, rel), os.path.join(ws_b, rel)
    if not os.path.exists(pa) or not os.path.exists(pb):
        return {"where": "#missing", "row": None, "a": os.path.exists(pa), "b": os.path.exists(pb)}
    da, db = decode_file(pa, subst_a), decode_file(pb, subst_b)
    w = first_difference(da, db)
    if w is None:
        if sha_file(pa) != sha_file(pb):
            return {"where": "#bytes-only", "row": None, "a": os.path.getsize(pa), "b": os.path.getsize(pb)}
    return w
