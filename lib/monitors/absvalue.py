"""Reader of lian's abstract values (persisted P3 tables) and the eval-text / work monitors used by C08 and C09.

Part 1 — reader.  `semantic_p3/s2space_p3.bundle*` holds, per entry method, one arena of Symbol rows (symbol_or_state
== 0: name, symbol_id, states = indexes of State rows) and State rows (state_type, data_type, value, fields, array,
tangping_elements, state_id, stmt_id).  `semantic_p3/stmt_status_p3.bundle*` holds, per analysed frame (context hash)
and statement, the arena index of the defined symbol, of the used symbols, and the reaching state copies
(in_state_bits / out_state_bits: {index, state_id, stmt_id}).  lian never updates a State in place: a write makes a
copy with the same state_id, and a reader replaces every state index by the copies of the same state_id that reach
the statement (resolver.collect_newest_states_by_state_indexes).  `Space.resolve` does exactly that lookup on the
persisted bits, so "the abstract value of x at statement s" is: Symbol row -> states -> reaching copies of the same
state_id -> (recursively) the same for the members of their field / element maps.

Part 2 — monitors installed in the forked child before lian objects exist: an audit hook for compile/exec, wrappers on
util.strict_eval, on the frontends' common_eval, on StmtStates.compute_two_states (operand states of every fold), on
compute_stmt_states (logical work) and on frame creation (sequence of analysed frames); the cost model of a fold is
applied when the evaluation is actually entered (exec audit event), not when the text is merely handed over."""
import ast
import json
import os
import sys

EMPTY, REGULAR, UNSOLVED, UNINIT, ANYTHING = 0, 1, 2, 3, 4
UNKNOWN_TYPES = (UNSOLVED, ANYTHING)
STATE_TYPE_NAMES = {0: "EMPTY", 1: "REGULAR", 2: "UNSOLVED", 3: "UNINIT", 4: "ANYTHING"}
PRIMITIVE_TYPES = {"%int": "int", "%string": "str", "%float": "float", "%bool": "bool", "%null": "none"}


def check_constants():
    """The numbers above are lian's own (config.constants.STATE_TYPE_KIND); a renumbering must not go unnoticed."""
    from lian.config.constants import STATE_TYPE_KIND as K, LIAN_INTERNAL as L
    ok = (K.EMPTY, K.REGULAR, K.UNSOLVED, K.UNINIT, K.ANYTHING) == (EMPTY, REGULAR, UNSOLVED, UNINIT, ANYTHING)
    ok = ok and L.INT == "%int" and L.STRING == "%string"
    return ok


# ---------------------------------------------------------------------------------------------------------------
# Part 1: reader

def _jl(v, default):
    if v is None:
        return default
    if isinstance(v, (list, dict)):
        return v
    if hasattr(v, "tolist"):
        return v.tolist()
    if isinstance(v, float):
        return default
    try:
        return json.loads(v)
    except Exception:
        return default


def _rows(df):
    """DataFrame -> dicts; list-valued cells (numpy arrays) become lists, NaN/None cells are dropped."""
    cols = list(df.columns)
    out = []
    for tup in df.itertuples(index=False, name=None):
        d = {}
        for c, v in zip(cols, tup):
            if v is None:
                continue
            if hasattr(v, "tolist") and not isinstance(v, (str, bytes)):
                v = v.tolist()
                if isinstance(v, float) and v != v:
                    continue
            elif isinstance(v, float) and v != v:
                continue
            d[c] = v
        out.append(d)
    return out


class Space:
    """One entry method's arena plus the statement statuses of all frames analysed under it."""

    def __init__(self, entry_id):
        self.entry_id = entry_id
        self.rows = {}           # index -> row dict
        self.contexts = {}       # context hash -> {stmt_id: status}
        self.first_stmt_of_state_id = {}

    def add_row(self, r):
        idx = int(r["index"])
        self.rows[idx] = r
        if int(r.get("symbol_or_state", 0)) != 0:
            sid = int(r.get("state_id", -1))
            if sid not in self.first_stmt_of_state_id or idx < self.first_stmt_of_state_id[sid][0]:
                self.first_stmt_of_state_id[sid] = (idx, int(r["stmt_id"]))

    def is_symbol(self, idx):
        r = self.rows.get(idx)
        return r is not None and int(r.get("symbol_or_state", 0)) == 0

    def alloc_stmt(self, state_row):
        sid = int(state_row.get("state_id", -1))
        ent = self.first_stmt_of_state_id.get(sid)
        return ent[1] if ent else int(state_row["stmt_id"])

    def version_stmts(self, state_row):
        sid = int(state_row.get("state_id", -1))
        return {int(r["stmt_id"]) for r in self.rows.values()
                if int(r.get("symbol_or_state", 0)) != 0 and int(r.get("state_id", -2)) == sid}

    def resolve(self, indexes, bits):
        """Replace every state index by the reaching copies of the same state_id (lian's 'newest states')."""
        out = []
        seen = set()
        by_id = {}
        for b in bits:
            by_id.setdefault(int(b["state_id"]), []).append(int(b["index"]))
        for idx in indexes:
            idx = int(idx)
            r = self.rows.get(idx)
            if r is None or int(r.get("symbol_or_state", 0)) == 0:
                if idx not in seen:
                    seen.add(idx)
                    out.append(idx)
                continue
            newest = [i for i in by_id.get(int(r.get("state_id", -1)), []) if i != -1 and i in self.rows]
            for i in (newest or [idx]):
                if i not in seen:
                    seen.add(i)
                    out.append(i)
        return out

    def describe(self, idx, bits, depth=2, _path=()):
        """Abstract value descriptor of one state index (after resolution by the caller)."""
        r = self.rows.get(int(idx))
        if r is None:
            return {"kind": "dangling", "index": int(idx)}
        if int(r.get("symbol_or_state", 0)) == 0:
            return {"kind": "symbol-row", "index": int(idx)}
        st = r.get("state_type")
        st = int(st) if st is not None and st == st else REGULAR
        dt = r.get("data_type")
        dt = "" if dt is None or dt != dt else str(dt)
        val = r.get("value")
        val = None if val is None or val != val else str(val)
        fields = _jl(r.get("fields"), {})
        array = _jl(r.get("array"), [])
        tang = _jl(r.get("tangping_elements"), [])
        d = {"index": int(idx), "state_type": st, "data_type": dt, "value": val, "stmt_id": int(r["stmt_id"]),
             "state_id": int(r.get("state_id", -1)), "alloc_stmt": self.alloc_stmt(r)}
        if st in UNKNOWN_TYPES:
            d["kind"] = "unknown"
        elif st != REGULAR:
            d["kind"] = "not-a-value"          # EMPTY / UNINIT
        elif dt in PRIMITIVE_TYPES and not fields and not array and not tang:
            d["kind"] = "const"
        elif dt in ("%method_decl", "%class_decl", "%unit", "%namespace_decl"):
            d["kind"] = "decl"
        elif fields or array or tang or dt not in PRIMITIVE_TYPES:
            d["kind"] = "object" if (fields or array or tang or dt) else "blank"
        else:
            d["kind"] = "const"
        if d["kind"] in ("object", "unknown") and depth > 0 and int(idx) not in _path:
            fm = {}
            for k, v in (fields or {}).items():
                fm[str(k)] = [self.describe(i, bits, depth - 1, _path + (int(idx),)) for i in self.resolve(v, bits)]
            d["fields"] = fm
            am = []
            for cell in (array or []):
                am.append([self.describe(i, bits, depth - 1, _path + (int(idx),)) for i in self.resolve(cell or [], bits)])
            d["array"] = am
            d["elements"] = [self.describe(i, bits, depth - 1, _path + (int(idx),)) for i in self.resolve(tang or [], bits)]
        return d

    def values_of_symbol_row(self, sym_index, bits, depth=2, resolve_top=True):
        r = self.rows.get(int(sym_index))
        if r is None or int(r.get("symbol_or_state", 0)) != 0:
            if r is not None:                      # a literal operand is a bare State row
                return [self.describe(i, bits, depth) for i in self.resolve([sym_index], bits)]
            return []
        states = [int(i) for i in _jl(r.get("states"), []) if int(i) != -1]
        if resolve_top:
            states = self.resolve(states, bits)
        return [self.describe(i, bits, depth) for i in states]

    # ---- queries ----------------------------------------------------------------------------------------------
    def contexts_of_stmt(self, stmt_id):
        return [c for c, sts in self.contexts.items() if stmt_id in sts]

    def defined(self, ctx, stmt_id, depth=2):
        """(name, [abstract values]) of the symbol defined by the statement in that frame, resolved with the
        statement's out_state_bits; None when the statement defines nothing / was not analysed."""
        st = self.contexts.get(ctx, {}).get(stmt_id)
        if st is None:
            return None
        di = st["defined_symbol"]
        if di is None or di < 0 or not self.is_symbol(di):
            return None
        return self.rows[di].get("name"), self.values_of_symbol_row(di, st["out_state_bits"], depth)

    def used(self, ctx, stmt_id, name, depth=2):
        """abstract values of the used symbol `name` at the statement; None if absent.  The states of a used Symbol row
        are the statement's in-states (complete_in_states_and_check_continue_flag stores the already resolved and fused
        set there), so they are taken as they are; members are resolved with in_state_bits."""
        st = self.contexts.get(ctx, {}).get(stmt_id)
        if st is None:
            return None
        for ui in st["used_symbols"] + st["implicitly_used_symbols"]:
            if ui is None or ui < 0 or not self.is_symbol(ui):
                continue
            if self.rows[ui].get("name") == name:
                return self.values_of_symbol_row(ui, st["in_state_bits"], depth, resolve_top=False)
        return None


def _status_of_row(r):
    return {"stmt_id": int(r["stmt_id"]),
            "defined_symbol": int(r["defined_symbol"]) if r.get("defined_symbol") is not None else -1,
            "used_symbols": [int(x) for x in _jl(r.get("used_symbols"), [])],
            "implicitly_used_symbols": [int(x) for x in _jl(r.get("implicitly_used_symbols"), [])],
            "implicitly_defined_symbols": [int(x) for x in _jl(r.get("implicitly_defined_symbols"), [])],
            "in_state_bits": _jl(r.get("in_state_bits"), []),
            "out_state_bits": _jl(r.get("out_state_bits"), []),
            "defined_states": [int(x) for x in _jl(r.get("defined_states"), [])]}


def _status_digest(sts):
    out = {}
    for sid, st in sts.items():
        out[sid] = (st["defined_symbol"], tuple(st["used_symbols"]), tuple(sorted(st["implicitly_used_symbols"])),
                    tuple(sorted((b["index"], b["state_id"]) for b in st["in_state_bits"])),
                    tuple(sorted((b["index"], b["state_id"]) for b in st["out_state_bits"])))
    return out


class Tables:
    """All persisted P3 tables of one workspace joined with the GIR (statement id -> unit, source row, operation)."""

    def __init__(self, wsd, live_saves=None):
        from lib import lianrun
        import pandas as pd
        self.wsd = wsd
        gir = lianrun.read_bundles(wsd, "frontend", "gir")
        self.gir = lianrun.rows_as_dicts(gir) if gir is not None else []
        self.stmt = {}
        for r in self.gir:
            if r.get("operation") in ("block_start", "block_end"):
                continue
            self.stmt[int(r["stmt_id"])] = r
        self.unit_of_stmt = {int(r["stmt_id"]): int(r["unit_id"]) for r in self.gir if r.get("unit_id") is not None}
        ms_path = os.path.join(wsd, "frontend", "module_symbols")
        self.unit_by_file = {}
        if os.path.exists(ms_path):
            for r in lianrun.rows_as_dicts(pd.read_feather(ms_path)):
                if r.get("unit_id") is not None and r.get("unit_path") and not r.get("is_extern"):
                    self.unit_by_file[os.path.basename(str(r["unit_path"]))] = int(r["unit_id"])
        self.spaces = {}
        sp = lianrun.read_bundles(wsd, "semantic_p3", "s2space_p3")
        self.space_rows = 0
        if sp is not None:
            for r in _rows(sp):
                e = int(r["method_id"])
                self.spaces.setdefault(e, Space(e)).add_row(r)
                self.space_rows += 1
        ss = lianrun.read_bundles(wsd, "semantic_p3", "stmt_status_p3")
        self.status_rows = 0
        self._ctx_rows = {}
        if ss is not None:
            for r in _rows(ss):
                st = _status_of_row(r)
                self._ctx_rows.setdefault(int(r["method_id"]), {})[st["stmt_id"]] = st
                self.status_rows += 1
        # frames whose context id was saved more than once: the table keeps the last save only (same call site reached
        # through different callers); the earlier saves, recorded live in the same format, are attached as extra contexts,
        # and the last live save of every context is cross-checked against the persisted rows
        self.live_frames = 0
        self.live_overwritten = 0
        self.live_crosscheck_ok = 0
        self.live_crosscheck_bad = []
        if live_saves:
            last = {}
            for seq, (ctx, rows) in enumerate(live_saves):
                if rows is None:
                    continue
                self.live_frames += 1
                sts = {}
                for r in rows:
                    st = _status_of_row(r)
                    sts[st["stmt_id"]] = st
                if ctx in last:
                    self.live_overwritten += 1
                    self._ctx_rows[("live", last[ctx][0], ctx)] = last[ctx][1]
                last[ctx] = (seq, sts)
            for ctx, (seq, sts) in last.items():
                per = self._ctx_rows.get(int(ctx))
                if per is None:
                    self.live_crosscheck_bad.append((ctx, "context missing in stmt_status_p3"))
                    continue
                if _status_digest(per) == _status_digest(sts):
                    self.live_crosscheck_ok += 1
                else:
                    self.live_crosscheck_bad.append((ctx, "persisted rows differ from the last live save"))

    def method_id(self, unit_id, name):
        for r in self.gir:
            if r.get("operation") == "method_decl" and r.get("name") == name and int(r.get("unit_id", -1)) == unit_id:
                return int(r["stmt_id"])
        return None

    def space_for_entry(self, entry_method_id, unit_id):
        """The entry's arena with every frame context whose statements lie in the same unit attached."""
        sp = self.spaces.get(entry_method_id)
        if sp is None:
            return None
        if not sp.contexts:
            for ctx, sts in self._ctx_rows.items():
                any_stmt = next(iter(sts))
                if self.unit_of_stmt.get(any_stmt) == unit_id:
                    sp.contexts[ctx] = sts
        return sp

    def stmts_at_row(self, unit_id, row):
        return [s for s, r in self.stmt.items() if int(r.get("unit_id", -1)) == unit_id and r.get("start_row") is not None
                and int(r["start_row"]) == row]


# ---------------------------------------------------------------------------------------------------------------
# value comparison helpers (shared by C08 and C09)

def decode_raw(text):
    """lian keeps a string literal as the source text between the quotes; decode Python escape sequences."""
    if "\\" not in text:
        return text
    try:
        import codecs
        import warnings
        with warnings.catch_warnings():
            warnings.simplefilter("ignore")
            return codecs.decode(text.encode("latin-1", "backslashreplace"), "unicode_escape")
    except Exception:
        return text


def const_matches(av, c):
    """Does the abstract constant `av` (descriptor of kind const) denote the concrete Python constant c?"""
    v, dt = av.get("value"), av.get("data_type", "")
    cls = PRIMITIVE_TYPES.get(dt)
    if v is None:
        return False
    if isinstance(c, bool):
        return cls in ("bool", "int", None) and v in (str(c), str(int(c)), str(c).lower())
    if isinstance(c, int):
        if cls not in ("int", None):
            return False
        try:
            return int(v, 0) == c if not v.lstrip("+-").isdigit() else int(v) == c
        except ValueError:
            return False
    if isinstance(c, float):
        try:
            return cls in ("float", "int", None) and float(v) == c
        except ValueError:
            return False
    if c is None:
        return cls in ("none", None) and v in ("None", "null")
    if isinstance(c, str):
        if cls not in ("str", None):
            return False
        return v == c or decode_raw(v) == c
    return False


def const_key(av):
    """Canonical (type class, python value) of an abstract constant, or None when it is not a clean constant."""
    v, dt = av.get("value"), av.get("data_type", "")
    cls = PRIMITIVE_TYPES.get(dt)
    if v is None:
        return None
    if cls == "int":
        try:
            return ("int", int(v))
        except ValueError:
            if v in ("True", "False"):
                return ("bool", v == "True")
            return ("int?", v)
    if cls == "str":
        return ("str", decode_raw(v))
    if cls == "float":
        try:
            return ("float", float(v))
        except ValueError:
            return ("float?", v)
    if cls == "bool":
        return ("bool", v in ("True", "true", "1"))
    if cls == "none":
        return ("none", None)
    return (dt or "?", v)


# ---------------------------------------------------------------------------------------------------------------
# Part 2: monitors

BIG_BITS = 10 ** 6           # predicted size of a folded constant above which folding counts as unbounded
ABORT_BITS = 10 ** 8         # above this the child is stopped by the monitor instead of being left to the watchdog


def _bits(v):
    if isinstance(v, bool):
        return 1
    if isinstance(v, int):
        return max(v.bit_length(), 1)
    if isinstance(v, (str, bytes)):
        return 8 * len(v)
    if isinstance(v, (list, tuple)):
        return 64 * len(v)
    return 64


def _const_of(node):
    if isinstance(node, ast.UnaryOp) and isinstance(node.op, (ast.USub, ast.UAdd)) and isinstance(node.operand, ast.Constant):
        return node.operand.value
    if isinstance(node, ast.Constant):
        return node.value
    if isinstance(node, (ast.List, ast.Tuple)):
        return [0] * len(node.elts)
    return None


def predict_bits(text):
    """(operator name, predicted result size in bits) of the most expensive literal operation in the text; the
    prediction uses operand sizes only (never evaluates)."""
    try:
        tree = ast.parse(text, mode="eval")
    except Exception:
        return None, 0
    worst = (None, 0)
    sizes = {}

    def size(node):
        if id(node) in sizes:
            return sizes[id(node)]
        c = _const_of(node)
        if c is not None or isinstance(node, ast.Constant):
            s = (_bits(c), c)
        elif isinstance(node, ast.BinOp):
            (lb, lv), (rb, rv) = size(node.left), size(node.right)
            b = max(lb, rb) + 1
            if isinstance(node.op, ast.Pow):
                e = rv if isinstance(rv, int) and not isinstance(rv, bool) else (1 << min(rb, 64))
                b = lb * max(e, 1) if e > 0 else 64
            elif isinstance(node.op, ast.LShift):
                e = rv if isinstance(rv, int) else (1 << min(rb, 64))
                b = lb + max(e, 0)
            elif isinstance(node.op, ast.Mult):
                if isinstance(lv, (str, bytes, list)) and isinstance(rv, int):
                    b = lb * max(rv, 0)
                elif isinstance(rv, (str, bytes, list)) and isinstance(lv, int):
                    b = rb * max(lv, 0)
                else:
                    b = lb + rb
            elif isinstance(node.op, ast.Add):
                b = lb + rb if isinstance(lv, (str, bytes, list)) or lv is None else max(lb, rb) + 1
            s = (b, None)
            nonlocal worst
            if b > worst[1]:
                worst = (type(node.op).__name__, b)
        else:
            s = (64, None)
        sizes[id(node)] = s
        return s

    for n in ast.walk(tree):
        if isinstance(n, ast.BinOp):
            size(n)
    return worst


def predict_operands(a, op, b):
    """Predicted result size in bits of `a op b` from the operand values alone."""
    la, lb = _bits(a), _bits(b)
    if op == "**" and isinstance(b, int) and not isinstance(b, bool):
        return la * max(b, 1) if b > 0 else 64
    if op == "<<" and isinstance(b, int):
        return la + max(b, 0)
    if op == "*":
        if isinstance(a, str) and isinstance(b, int):
            return la * max(b, 0)
        if isinstance(b, str) and isinstance(a, int):
            return lb * max(a, 0)
        return la + lb
    if op == "+":
        return la + lb
    return max(la, lb) + 1


OP_NAMES = {"+": "Add", "-": "Sub", "*": "Mult", "/": "Div", "//": "FloorDiv", "%": "Mod", "**": "Pow", "<<": "LShift",
            ">>": "RShift", "|": "BitOr", "&": "BitAnd", "^": "BitXor", "==": "Eq", "!=": "NotEq", "<": "Lt", "<=": "LtE",
            ">": "Gt", ">=": "GtE", "and": "And", "or": "Or", "in": "In", "not in": "NotIn", "is": "Is", "is not": "IsNot"}


def char_class(s):
    """Character class of a literal's content (mechanism signatures)."""
    s = str(s)
    if s == "":
        return "empty-string"
    if '"' in s:
        return "double-quote-in-string"
    if "\\" in s:
        return "backslash-in-string"
    if "'" in s:
        return "single-quote-in-string"
    if "\n" in s or "\r" in s or "\t" in s:
        return "control-character-in-string"
    if "(" in s and ")" in s:
        return "call-lookalike-in-string"
    if s.isdigit():
        return "digits-only-string"
    if s.lstrip("+-").replace(".", "", 1).isdigit() or s.strip() != s and s.strip().isdigit():
        return "number-lookalike-string"
    if any(ch in s for ch in "+-*/%<>=&|^~#"):
        return "operator-character-in-string"
    if s in ("True", "False", "None") or s.isidentifier():
        return "identifier-like-string"
    if " " in s:
        return "plain-string-with-space"
    return "plain-string"


class Monitors:
    """Installed once in the forked child (before any lian object is constructed)."""

    def __init__(self, side_file=None, abort_big=True):
        self.side_file = side_file
        self.abort_big = abort_big
        self.evals = []             # dicts: site, text, result/exception, operands (when inside compute_two_states)
        self.compiles = []          # (site, text[:200]) of compile events outside strict_eval
        self.execs = 0
        self.big = []               # predicted blow-ups actually entered
        self.frames = []            # (method_id, caller_id, call_stmt_id) in creation order
        self.stmt_state_calls = 0
        self.stmt_state_calls_by_op = {}
        self.stmt_state_calls_by_stmt = {}
        self.two_states = []        # fold records
        self.status_saves = []      # (context id, [persisted-format rows]) for every completed P3 frame, in order
        self._cur_fold = None
        self._cur_eval = None
        self._in_lian = 0
        self.wrapped = {}

    # -- plumbing
    def _side(self, obj):
        if self.side_file:
            try:
                with open(self.side_file, "a") as f:
                    f.write(json.dumps(obj, default=str) + "\n")
                    f.flush()
                    os.fsync(f.fileno())
            except OSError:
                pass

    def install(self):
        import lian.util.util as util
        import lian.core.stmt_states as ss
        import lian.core.prelim_semantics as ps
        import lian.common_structs as cs
        import lian.lang.common_parser as cp
        mon = self

        orig_strict = util.strict_eval

        def strict_eval(content):
            rec = {"site": "strict_eval", "text": content if isinstance(content, str) else repr(content), "entered": False,
                   "fold": mon._cur_fold is not None, "frontend": mon._cur_eval == "common_eval"}
            mon.evals.append(rec)
            prev = mon._cur_eval
            mon._cur_eval = rec
            try:
                r = orig_strict(content)
                rec["ok"] = True
                rec["result_type"] = type(r).__name__
                try:
                    rec["result"] = r if isinstance(r, (int, float, bool, str, type(None))) and _bits(r) < 8000 else "<%s of %d bits>" % (type(r).__name__, _bits(r))
                except Exception:
                    rec["result"] = "<unprintable>"
                return r
            except SystemExit as e:
                rec["ok"] = False
                rec["exception"] = "SystemExit"
                mon._side({"event": "eval-quit", "text": rec["text"][:300]})
                raise
            except BaseException as e:
                rec["ok"] = False
                rec["exception"] = type(e).__name__
                raise
            finally:
                mon._cur_eval = prev
        util.strict_eval = strict_eval
        self.wrapped["strict_eval"] = True

        orig_common = cp.Parser.common_eval

        def common_eval(self_, input_string):
            prev = mon._cur_eval
            if prev is None:
                mon._cur_eval = "common_eval"
            try:
                before = len(mon.evals)
                r = orig_common(self_, input_string)
                for rec in mon.evals[before:]:
                    rec["frontend"] = True
                    rec["frontend_result"] = r if isinstance(r, str) and len(r) < 1000 else str(type(r))
                return r
            finally:
                mon._cur_eval = prev
        cp.Parser.common_eval = common_eval
        self.wrapped["common_eval"] = True

        orig_two = ss.StmtStates.compute_two_states

        def compute_two_states(self_, stmt, state1, state2, defined_symbol):
            fold = {"stmt_id": int(stmt.stmt_id), "operator": str(stmt.operator),
                    "v1": _plain(getattr(state1, "value", None)), "t1": str(getattr(state1, "data_type", "")),
                    "v2": _plain(getattr(state2, "value", None)), "t2": str(getattr(state2, "data_type", "")),
                    "st1": int(getattr(state1, "state_type", -1)), "st2": int(getattr(state2, "state_type", -1)),
                    "evals": [], "result": None}
            mon.two_states.append(fold)
            prev = mon._cur_fold
            mon._cur_fold = fold
            n0 = len(mon.evals)
            # cost model on the operands, before anything is computed (works for any implementation of the fold)
            big = None
            try:
                if fold["st1"] == REGULAR and fold["st2"] == REGULAR and fold["t1"] in PRIMITIVE_TYPES and fold["t2"] in PRIMITIVE_TYPES:
                    a = getattr(state1, "value", None)
                    b = getattr(state2, "value", None)
                    a = int(a) if fold["t1"] == "%int" and not isinstance(a, int) and str(a).lstrip("-").isdigit() else a
                    b = int(b) if fold["t2"] == "%int" and not isinstance(b, int) and str(b).lstrip("-").isdigit() else b
                    bits = predict_operands(a, fold["operator"], b)
                    if bits > BIG_BITS:
                        big = {"event": "big-fold-attempted", "operator": OP_NAMES.get(fold["operator"], fold["operator"]), "bits": bits,
                               "text": f"{_plain(a)!r} {fold['operator']} {_plain(b)!r}"[:300]}
                        mon._side(big)
            except Exception:
                pass
            try:
                res = orig_two(self_, stmt, state1, state2, defined_symbol)
                if big is not None:
                    for idx in (res or ()):
                        v = getattr(self_.frame.symbol_state_space[idx], "value", None)
                        if _bits(v) > BIG_BITS:
                            ev = dict(big, event="big-fold-produced", result_bits=_bits(v))
                            mon.big.append(ev)
                            mon._side(ev)
                out = []
                for idx in (res or ()):
                    s = self_.frame.symbol_state_space[idx]
                    out.append({"value": _plain(getattr(s, "value", None)), "pytype": type(getattr(s, "value", None)).__name__,
                                "data_type": str(getattr(s, "data_type", "")), "state_type": int(getattr(s, "state_type", -1))})
                fold["result"] = out
                return res
            finally:
                fold["evals"] = list(range(n0, len(mon.evals)))
                mon._cur_fold = prev
        ss.StmtStates.compute_two_states = compute_two_states
        self.wrapped["compute_two_states"] = True

        orig_css = ps.P2PrelimSemanticAnalysis.compute_stmt_states

        def compute_stmt_states(self_, stmt_id, stmt, frame):
            mon.stmt_state_calls += 1
            op = getattr(stmt, "operation", "?")
            mon.stmt_state_calls_by_op[op] = mon.stmt_state_calls_by_op.get(op, 0) + 1
            try:
                sid = int(stmt_id)
                mon.stmt_state_calls_by_stmt[sid] = mon.stmt_state_calls_by_stmt.get(sid, 0) + 1
            except Exception:
                pass
            return orig_css(self_, stmt_id, stmt, frame)
        ps.P2PrelimSemanticAnalysis.compute_stmt_states = compute_stmt_states
        self.wrapped["compute_stmt_states"] = True

        orig_frame_init = cs.ComputeFrame.__init__

        def frame_init(self_, method_id, *a, **k):
            orig_frame_init(self_, method_id, *a, **k)
            try:
                mon.frames.append((int(method_id), int(getattr(self_, "caller_id", -1)), int(getattr(self_, "call_stmt_id", -1))))
            except Exception:
                mon.frames.append((str(method_id), -1, -1))
        cs.ComputeFrame.__init__ = frame_init
        self.wrapped["ComputeFrame"] = True

        import lian.util.loader as ld
        orig_save_status = ld.Loader.save_stmt_status_p3

        def save_stmt_status_p3(self_, context_id, status):
            try:
                rows = [st.to_dict(context_id) for st in status.values()]
                mon.status_saves.append((context_id, rows))
            except Exception as e:
                mon.status_saves.append((context_id, None))
            return orig_save_status(self_, context_id, status)
        ld.Loader.save_stmt_status_p3 = save_stmt_status_p3
        self.wrapped["save_stmt_status_p3"] = True

        lian_src = os.path.join(os.path.dirname(os.path.dirname(os.path.abspath(util.__file__))), "")

        def hook(event, args):
            if mon._in_lian:           # events raised by the monitor's own ast.parse
                return
            if event == "compile":
                try:
                    src, fname = args[0], args[1]
                except Exception:
                    return
                cur = mon._cur_eval
                if isinstance(cur, dict) and fname in ("", "<string>"):
                    cur["compiled"] = True       # strict_eval compiles once to inspect the bytecode, eval() compiles again
                    return
                if src is None:
                    return
                site = _lian_site(lian_src)
                if site is None:
                    return
                if isinstance(src, bytes):
                    src = src.decode("utf-8", "replace")
                if mon._cur_fold is not None and isinstance(src, str) and fname in ("", "<string>", "<unknown>"):
                    # text compiled during a fold by something other than util.strict_eval (eval / compile / ast.parse in the
                    # fold itself): judged like any other evaluated text
                    mon.evals.append({"site": site, "text": src, "entered": fname != "<unknown>", "fold": True,
                                      "frontend": False, "compiled": True, "ok": True})
                if len(mon.compiles) < 5000:
                    mon.compiles.append((site, str(src)[:300]))
            elif event == "exec":
                code = args[0] if args else None
                cur = mon._cur_eval
                if isinstance(cur, dict) and getattr(code, "co_filename", None) in ("", "<string>") and not cur["entered"]:
                    cur["entered"] = True
                    mon.execs += 1
                    mon._in_lian = 1
                    try:
                        op, bits = predict_bits(cur["text"])
                    finally:
                        mon._in_lian = 0
                    cur["predicted_bits"] = bits
                    if bits > BIG_BITS:
                        ev = {"event": "big-fold-entered", "operator": op, "bits": bits, "text": cur["text"][:300]}
                        mon.big.append(ev)
                        mon._side(ev)
                        if mon.abort_big and bits > ABORT_BITS:
                            mon._side({"event": "child-stopped-by-monitor", "bits": bits})
                            os._exit(77)
        sys.addaudithook(hook)
        self.wrapped["audit"] = True
        return self

    def summary(self):
        return {"evals": self.evals, "two_states": self.two_states, "compiles": self.compiles[:200], "execs": self.execs,
                "big": self.big, "frames": self.frames, "stmt_state_calls": self.stmt_state_calls,
                "stmt_state_calls_by_op": self.stmt_state_calls_by_op, "stmt_state_calls_by_stmt": self.stmt_state_calls_by_stmt,
                "status_saves": len(self.status_saves),
                "wrapped": self.wrapped}


def _plain(v):
    if isinstance(v, (int, float, bool, type(None))):
        if isinstance(v, int) and not isinstance(v, bool) and v.bit_length() > 8000:
            return "<int of %d bits>" % v.bit_length()
        return v
    s = str(v)
    return s if len(s) < 2000 else s[:2000] + "…"


def _lian_site(lian_src):
    f = sys._getframe(2)
    depth = 0
    while f is not None and depth < 12:
        fn = f.f_code.co_filename
        if fn.startswith(lian_src):
            return os.path.basename(fn) + ":" + f.f_code.co_name
        f = f.f_back
        depth += 1
    return None


def limit_child(mem_bytes=4 << 30, cpu_seconds=None):
    """Address-space cap for children that analyse potentially explosive literals."""
    import resource
    try:
        resource.setrlimit(resource.RLIMIT_AS, (mem_bytes, mem_bytes))
    except (ValueError, OSError):
        pass
    if cpu_seconds:
        try:
            resource.setrlimit(resource.RLIMIT_CPU, (cpu_seconds, cpu_seconds + 5))
        except (ValueError, OSError):
            pass


# ---------------------------------------------------------------------------------------------------------------
# judging a fold record against "literal text is data" (used by C08; C09 only counts folds)

def expected_fold(fold):
    """What CPython computes for <operand1> <operator> <operand2> when the operands are the *data* lian holds
    (ints for %int, the decoded text for %string).  Returns (ok, value) — ok False when CPython raises."""
    def data(v, t):
        if t == "%string":
            return decode_raw(str(v))
        if t == "%int":
            return v if isinstance(v, int) else int(str(v), 0)
        if t == "%float":
            return v if isinstance(v, float) else float(str(v))
        if t == "%bool":
            return v if isinstance(v, bool) else str(v) in ("True", "true")
        raise ValueError(t)
    import operator as o
    ops = {"+": o.add, "-": o.sub, "*": o.mul, "//": o.floordiv, "%": o.mod, "/": o.truediv, "==": o.eq, "!=": o.ne,
           "<": o.lt, "<=": o.le, ">": o.gt, ">=": o.ge, "&": o.and_, "|": o.or_, "^": o.xor}
    try:
        a, b = data(fold["v1"], fold["t1"]), data(fold["v2"], fold["t2"])
    except Exception:
        return None
    op = fold["operator"]
    if op in ("**", "<<"):
        if isinstance(a, int) and isinstance(b, int) and 0 <= b <= 64 and abs(a) < 1 << 64:
            return (True, a ** b if op == "**" else a << b)
        return None
    if op == "*" and ((isinstance(a, str) and isinstance(b, int) and b > 10 ** 4) or (isinstance(b, str) and isinstance(a, int) and a > 10 ** 4)):
        return None
    if op == "and":
        return (True, a and b)
    if op == "or":
        return (True, a or b)
    f = ops.get(op)
    if f is None:
        return None
    try:
        return (True, f(a, b))
    except Exception as e:
        return (False, type(e).__name__)


# ---------------------------------------------------------------------------------------------------------------
# compensation switch "unknown-result-tag" (DESIGN 3.7), used by C08

def install_unknown_result_switch():
    """assign_stmt_state tags the ANYTHING state it creates for `y = -x` / an undecided binary operation with the symbol id
    of the OPERAND; when such a state is stored into a field of `this` / a parameter inside a callee, summary application
    (resolve_anything_in_summary_generation) replaces it by the operand's own value (y = -x; o = KC(y) gives o.f1 = {x's
    value}).  proposed/C08-unknown-result-tagged-with-operand.diff tags it with the TARGET symbol instead; this switch does the
    same inside a forked child so that a failing definition can be attributed to exactly this mechanism."""
    import lian.core.stmt_states as ss
    orig_assign = ss.StmtStates.assign_stmt_state
    orig_create = ss.StmtStates.create_state_and_add_space

    def assign_stmt_state(self, stmt_id, stmt, status, in_states):
        prev = getattr(self, "_verif_assign_target", None)
        self._verif_assign_target = status.defined_symbol
        try:
            return orig_assign(self, stmt_id, stmt, status, in_states)
        finally:
            self._verif_assign_target = prev

    def create_state_and_add_space(self, status, stmt_id, *a, **k):
        tgt = getattr(self, "_verif_assign_target", None)
        if tgt is not None and k.get("state_type") == ANYTHING and "source_symbol_id" in k:
            sym = self.frame.symbol_state_space[tgt]
            if sym is not None and hasattr(sym, "symbol_id") and hasattr(sym, "name"):
                k["source_symbol_id"] = sym.symbol_id
        return orig_create(self, status, stmt_id, *a, **k)

    ss.StmtStates.assign_stmt_state = assign_stmt_state
    ss.StmtStates.create_state_and_add_space = create_state_and_add_space
    return True
