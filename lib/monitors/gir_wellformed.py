"""C03 monitor: structural well-formedness of the flattened GIR that the `lang` phase wrote to
`frontend/gir.bundle*`, plus per-file attribution of exceptions raised while one file is being lowered.

Child-side only (imports pandas lazily).  Two parts:

* `install(rec, contain)` wraps, before any lian object exists,
    - `GIRParser.deal_with_file_unit`  (the per-file entry `LangAnalysis.run` calls): records per unit whether it
      produced GIR / nothing / raised; with contain=True an exception is recorded (type + innermost lian function)
      and the batch goes on as if the file had produced nothing — the unwrapped code would have died there;
    - `Parser.parse_gir`               (records the row/column ranges of the root's children of the tree that is
      actually lowered, i.e. after lian's own source preprocessing) for the source-order part of I6;
    - `GIRProcessing.flatten`          (records the ids flatten handed out) for the "nothing lost while gathering
      top-level code" part of I6.
    - `GIRParser.translate_file_unit`  (when the tree has lian's own per-file containment): records the exception
      lian is about to swallow (evidence: which files end without GIR because of a contained failure), re-raises;
    - `util.error_and_quit`            (keeps the diagnostic of a deliberate exit); a SystemExit that leaves the
      per-file entry is recorded as status "quit" with the innermost lian function that asked for it — it ends the
      phase for the whole project, which the check confirms with an unwrapped probe before reporting it;
    - `DataFrame.to_feather`           (records write failures that DataModel.save swallows).
  `Parser.parse_gir` also records how many statements the frontend produced (0 = a file that lowers to nothing).
  None of the wrappers changes an argument, a return value or the exception that propagates.
* `judge(df, rec, units)` evaluates I1..I6 over the rows read back from the bundle.

The invariants are stated exactly as the healthy tree realises them (learnt from dumps of all languages):
  I1  every stmt_id occurs once project-wide, except that one block_start and one block_end row of the same unit
      share the block's id;
  I2  [min id, max id] of different units are disjoint;
  I3  block_start/block_end obey stack discipline inside a unit, one start + one end per block id;
  I4  parent_stmt_id of a statement row = id of the innermost open block (0 outside every block); parent_stmt_id of
      both marker rows of a block = id of the statement row that directly precedes the block at the same nesting
      level (flatten_stmt appends the statement row first and then its blocks), i.e. its owner;
  I5  every non-null value of a body-valued column names a block of the same unit whose parent is that row, and every
      block is named by some column of its parent row (no orphan).  Body-valued columns = the documented list
      + every other numeric column that the data shows to be used that way (at least two values and at least half
      of its non-null values name a block owned by their row).  For the (operation, attribute) pairs that
      docs/en/03.frontend/3-2.gir.md documents as bodies, a non-null, non-empty, non-numeric value (flatten_stmt
      stringifies a list that is not GIR-shaped, e.g. "['a', 'b']") is a violation too: it names no block.  An empty
      body legitimately reads back as null (flatten stores None for an empty list) or as an empty block (method
      bodies);
  I6  rows with parent 0 are `*_decl` or import/export/type-alias rows (add_main_func's own classification);
      at most one `%unit_init` per unit; every other row has among its ancestors a `method_decl` (the class
      initialisers `%class_init/%class_sinit/%static_init_class%` are method_decl rows) or a block named by the
      `init`/`static_init` attribute of a class-like declaration (the documented class-initialiser blocks of
      the TypeScript/Ruby/smali frontends), unless it is itself a declaration (`*_decl`, `enum_constant`:
      field/parameter/nested type declarations live in `fields`/`parameters`/`nested`/... blocks of their owner).
      The signature names the innermost enclosing declaration whose body was lowered without a method;
      direct children of `%unit_init`, mapped through their start position to the root child of the syntax tree
      that contains them, come in non-decreasing child order (rows of sub-expressions precede their statement
      but stay inside the same root child); the ids in the bundle are exactly the ids flatten produced plus the
      two ids of the synthetic `%unit_init` (nothing lost, nothing invented)."""
import os
import sys
import traceback

MARKERS = ("block_start", "block_end")
TOP_EXCLUDE = ("import_stmt", "from_import_stmt", "export_stmt", "type_alias_decl")   # basic.add_main_func
UNIT_INIT = "%unit_init"

# body-valued attributes as documented in docs/en/03.frontend/3-2.gir.md (operation -> attributes holding a body)
_CLASS_LIKE = ("static_init", "init", "fields", "methods", "nested")
DOCUMENTED_BODY_PAIRS = {
    "namespace_decl": ("body",), "class_decl": _CLASS_LIKE, "record_decl": _CLASS_LIKE,
    "interface_decl": _CLASS_LIKE, "enum_decl": _CLASS_LIKE, "annotation_type_decl": _CLASS_LIKE,
    "struct_decl": ("fields",), "method_decl": ("parameters", "body"), "if_stmt": ("then_body", "else_body"),
    "dowhile_stmt": ("body",), "while_stmt": ("body", "else_body"),
    "for_stmt": ("init_body", "condition_prebody", "update_body", "body"), "forin_stmt": ("body",),
    "for_value_stmt": ("body",), "switch_stmt": ("body",), "case_stmt": ("body",), "default_stmt": ("body",),
    "try_stmt": ("body", "catch_body", "else_body", "final_body"), "catch_stmt": ("body",),
    "catch_clause": ("body",), "unsafe_block": ("body",), "block": ("body",), "switch_type_stmt": ("body",),
}
# column names that hold block ids whenever they hold a number (documented ones + those every frontend dump showed)
DOCUMENTED_BODY_COLUMNS = {c for cols in DOCUMENTED_BODY_PAIRS.values() for c in cols} | {
    "member_methods", "enum_constants", "annotation_type_elements",
}
# columns that are numeric but are positions / cross references, never block ids
NEVER_BODY = {"operation", "stmt_id", "parent_stmt_id", "unit_id", "start_row", "start_col", "end_row", "end_col",
              "original_stmt", "decorators", "index"}


# rows that declare something although their operation is not spelled *_decl
DECLARATIVE_EXTRA = ("enum_constant",)
# blocks named by these attributes of a class-like declaration are the documented class-initialiser blocks
INITIALISER_COLUMNS = ("init", "static_init")


def is_decl_like(op):
    """add_main_func's own classification of what may stay at top level."""
    return op.endswith("_decl") or op in TOP_EXCLUDE


def is_declarative(op):
    return is_decl_like(op) or op in DECLARATIVE_EXTRA


# ---------------------------------------------------------------------------------------------------
# recording wrappers (child side)

class UnitRecord:
    __slots__ = ("unit_id", "path", "lang", "status", "nrows", "sig_exc", "sig_fn", "where", "message", "tb",
                 "top", "has_error", "flat_ids", "flat_ops", "calls", "rows", "n_statements", "contained")

    def __init__(self, unit_id, path, lang):
        self.unit_id, self.path, self.lang = unit_id, path, lang
        self.status = "started"      # gir | nogir | crash | quit
        self.nrows = 0
        self.sig_exc = self.sig_fn = self.where = self.message = self.tb = None
        self.top = None              # [(srow, scol, erow, ecol)] of the root's children
        self.has_error = False
        self.flat_ids = None
        self.flat_ops = None
        self.calls = 0
        self.rows = None             # the row dicts handed to the loader (kept only when asked for)
        self.n_statements = None     # len(statements) when Parser.parse_gir returned (None: never returned)
        self.contained = None        # (exception type, innermost lian function, where, message) of an exception
        #                              that lian itself caught inside the per-file entry (evidence only)


class Recorder:
    def __init__(self):
        self.units = {}
        self.order = []
        self.cur = None
        self.wrapper_calls = 0
        self.parse_gir_calls = 0
        self.flatten_calls = 0
        self.save_errors = []        # (path, "Type: message") of feather writes that raised (lian swallows them)
        self.last_quit_message = None   # diagnostic of the latest util.error_and_quit call


def innermost_lian_frame(tb, src_root):
    """(function name, 'file.py:line') of the innermost traceback frame that belongs to lian itself."""
    best = None
    for fs in traceback.extract_tb(tb):
        fn = os.path.realpath(fs.filename)
        if fn.startswith(src_root):
            best = (fs.name, f"{os.path.basename(fn)}:{fs.lineno}")
    return best or ("(outside lian)", "?")


def exception_signature(lang, exc_type_name, fn):
    if exc_type_name == "RecursionError":
        fn = "(recursion)"          # the frame that happens to hit the limit is not a mechanism
    return f"crash:{lang}:{exc_type_name}@{fn}"


def install(rec, contain=True, repo=None, keep_rows=False):
    from lian.lang import lang_analysis, common_parser
    src_root = os.path.realpath(os.path.join(repo, "src", "lian")) if repo else \
        os.path.dirname(os.path.dirname(os.path.realpath(lang_analysis.__file__)))
    orig_deal = lang_analysis.GIRParser.deal_with_file_unit
    orig_parse_gir = common_parser.Parser.parse_gir
    orig_flatten = lang_analysis.GIRProcessing.flatten

    def deal_with_file_unit(self, current_node_id, unit_info, file_unit, *a, **kw):
        rec.wrapper_calls += 1
        try:
            uid = int(unit_info.module_id)
        except Exception:
            uid = -rec.wrapper_calls
        lang = lang_analysis.determine_lang_by_path(file_unit) or "unknown"
        u = UnitRecord(uid, str(file_unit), lang)
        rec.units[uid] = u
        rec.order.append(uid)
        rec.cur = u
        try:
            res = orig_deal(self, current_node_id, unit_info, file_unit, *a, **kw)
        except SystemExit as e:
            fn, where = innermost_quit_frame(sys.exc_info()[2], src_root)
            u.status, u.sig_exc, u.sig_fn, u.where = "quit", "SystemExit", fn, where
            u.message = f"SystemExit({e.code!r})" + (f" after '[ERROR]: {rec.last_quit_message}'"
                                                      if rec.last_quit_message else "")
            rec.last_quit_message = None
            rec.cur = None
            if not contain:
                raise
            return (current_node_id, None)
        except Exception as e:
            tb = sys.exc_info()[2]
            fn, where = innermost_lian_frame(tb, src_root)
            u.status, u.sig_exc, u.sig_fn, u.where = "crash", type(e).__name__, fn, where
            u.message = str(e)[:300]
            u.tb = "".join(traceback.format_exception(type(e), e, tb))[-2500:]
            rec.cur = None
            if not contain:
                raise
            return (current_node_id, None)
        rec.cur = None
        rows = res[1] if isinstance(res, tuple) and len(res) == 2 else None
        if rows:
            u.status, u.nrows = "gir", len(rows)
            if keep_rows:
                u.rows = rows
        else:
            u.status = "nogir"
        return res

    def innermost_quit_frame(tb, root):
        best = None
        for fs in traceback.extract_tb(tb):
            fn = os.path.realpath(fs.filename)
            if fn.startswith(root) and fs.name not in ("error_and_quit", "error_and_quit_with_stmt_info"):
                best = (fs.name, f"{os.path.basename(fn)}:{fs.lineno}")
        return best or ("(outside lian)", "?")

    def parse_gir(self, node, statements):
        rec.parse_gir_calls += 1
        u = rec.cur
        if u is not None:
            try:
                u.top = [(c.start_point[0], c.start_point[1], c.end_point[0], c.end_point[1]) for c in node.children]
                u.has_error = bool(node.has_error)
            except Exception:
                u.top = None
        res = orig_parse_gir(self, node, statements)
        if u is not None:
            try:
                u.n_statements = len(statements)
            except Exception:
                pass
        return res

    orig_translate = getattr(lang_analysis.GIRParser, "translate_file_unit", None)

    def translate_file_unit(self, *a, **kw):
        """lian's own containment sits between deal_with_file_unit and this method: what it is about to swallow is
        recorded (evidence: which files end without GIR because of a contained failure) and re-raised unchanged."""
        try:
            return orig_translate(self, *a, **kw)
        except Exception as e:
            u = rec.cur
            if u is not None:
                fn, where = innermost_lian_frame(sys.exc_info()[2], src_root)
                u.contained = (type(e).__name__, fn, where, str(e)[:200])
            raise

    def flatten(self, stmts):
        rec.flatten_calls += 1
        res = orig_flatten(self, stmts)
        u = rec.cur
        if u is not None and isinstance(res, tuple) and len(res) == 2 and res[1]:
            try:
                u.flat_ids = [r.get("stmt_id") for r in res[1]]
                u.flat_ops = [r.get("operation") for r in res[1]]
            except Exception:
                u.flat_ids = None
        return res

    from lian.util import util as lian_util
    orig_quit = lian_util.error_and_quit

    def error_and_quit(*msg):
        rec.last_quit_message = " ".join(str(m) for m in msg)[:200]
        return orig_quit(*msg)

    lian_util.error_and_quit = error_and_quit
    import pandas as pd
    orig_to_feather = pd.DataFrame.to_feather

    def to_feather(self, path, *a, **kw):
        try:
            return orig_to_feather(self, path, *a, **kw)
        except Exception as e:
            rec.save_errors.append((str(path), f"{type(e).__name__}: {e}"[:400]))
            raise

    pd.DataFrame.to_feather = to_feather
    lang_analysis.GIRParser.deal_with_file_unit = deal_with_file_unit
    if orig_translate is not None:
        lang_analysis.GIRParser.translate_file_unit = translate_file_unit
    common_parser.Parser.parse_gir = parse_gir
    lang_analysis.GIRProcessing.flatten = flatten
    return rec


# ---------------------------------------------------------------------------------------------------
# the structural checker

def _as_int(v):
    """int value of an id cell, or None when the cell is null / not integral."""
    if v is None:
        return None
    try:
        if v != v:
            return None
        i = int(v)
        if i != v:
            return None
        return i
    except (TypeError, ValueError, OverflowError):
        return None


class Verdicts:
    def __init__(self):
        self.violations = []         # dicts: inv, unit_id, construct, detail, stmt_id
        self.stats = {}
        self.ops = {}                # lang -> set(op)
        self.body_cols = set()       # "op.column" pairs observed
        self.derived_cols = set()
        self.per_unit = {}           # unit_id -> dict(rows, blocks, unit_init, groups)

    def add(self, key, n=1):
        self.stats[key] = self.stats.get(key, 0) + n

    def violate(self, inv, unit_id, construct, detail, stmt_id=None):
        self.violations.append({"inv": inv, "unit_id": unit_id, "construct": construct, "detail": detail,
                                "stmt_id": stmt_id})


def _construct(op, name):
    if op == "method_decl" and isinstance(name, str) and name.startswith("%") and not name[1:3] == "mm":
        return f"{op}[{name}]"
    return op


def judge(df, rec, unit_lang):
    """df: the concatenated gir bundle (pandas DataFrame).  rec: Recorder (may be None).  unit_lang: unit_id -> lang.
    Returns Verdicts."""
    import numpy as np
    V = Verdicts()
    n = len(df)
    cols = list(df.columns)
    for need in ("operation", "stmt_id", "parent_stmt_id", "unit_id"):
        if need not in cols:
            V.violate("I1", None, "bundle", f"column {need} missing from the bundle")
            return V
    op = df["operation"].tolist()
    sid = [_as_int(v) for v in df["stmt_id"].tolist()]
    par = [_as_int(v) for v in df["parent_stmt_id"].tolist()]
    uid = [_as_int(v) for v in df["unit_id"].tolist()]
    name = df["name"].tolist() if "name" in cols else [None] * n
    srow = df["start_row"].tolist() if "start_row" in cols else [None] * n
    scol = df["start_col"].tolist() if "start_col" in cols else [None] * n

    def lang_of(u):
        return unit_lang.get(u, "unknown")

    # ---- numeric candidate columns: (row index -> [(column, int value)]) ------------------------------------
    refs = {}
    nonblock = {}      # row index -> [(documented body attribute, non-numeric value)]
    col_nonnull = {}
    for c in cols:
        if c in NEVER_BODY:
            continue
        s = df[c]
        kind = s.dtype.kind
        if kind in "iuf":
            arr = s.to_numpy()
            idx = np.flatnonzero(~np.isnan(arr)) if kind == "f" else np.arange(n)
            vals = arr[idx].tolist()
            idx = idx.tolist()
        elif kind == "O":
            lst = s.tolist()
            idx, vals = [], []
            doc = c in DOCUMENTED_BODY_COLUMNS
            for i, v in enumerate(lst):
                if isinstance(v, (int, float)) and not isinstance(v, bool):
                    if v == v:
                        idx.append(i)
                        vals.append(v)
                elif doc and v is not None and not (isinstance(v, str) and v == ""):
                    # a non-numeric value in a column documented as body-valued: judged below for the
                    # documented (operation, attribute) pairs only
                    if c in DOCUMENTED_BODY_PAIRS.get(op[i], ()):
                        nonblock.setdefault(i, []).append((c, v))
        else:
            continue
        if not idx:
            continue
        col_nonnull[c] = len(idx)
        for i, v in zip(idx, vals):
            refs.setdefault(i, []).append((c, _as_int(v), v))

    # ---- group by unit (order of appearance preserved) -----------------------------------------------------
    units = {}
    for i in range(n):
        units.setdefault(uid[i], []).append(i)

    # ---- I1: project-wide uniqueness ----------------------------------------------------------------------
    seen = {}          # id -> [row indexes]
    for i in range(n):
        if sid[i] is None or sid[i] <= 0:
            V.violate("I1", uid[i], _construct(str(op[i]), name[i]),
                      f"row {i} ({op[i]}) has no positive integral stmt_id: {df['stmt_id'].iloc[i]!r}")
            continue
        seen.setdefault(sid[i], []).append(i)
    V.add("I1 ids checked for project-wide uniqueness", len(seen))
    for k, rows_ in seen.items():
        if len(rows_) == 1:
            if op[rows_[0]] in MARKERS:
                pass      # a lone marker is I3's business
            continue
        ok = (len(rows_) == 2 and op[rows_[0]] == "block_start" and op[rows_[1]] == "block_end"
              and uid[rows_[0]] == uid[rows_[1]])
        if ok:
            continue
        # I3 reports pure marker multiplicity problems inside one unit; I1 is about different rows sharing an id
        ops_ = [op[r] for r in rows_]
        units_ = sorted({uid[r] for r in rows_}, key=lambda x: (x is None, x))
        if all(o in MARKERS for o in ops_) and len(units_) == 1:
            continue
        off = rows_[-1]
        V.violate("I1", uid[off], _construct(str(op[off]), name[off]),
                  f"stmt_id {k} is carried by {len(rows_)} rows: "
                  + ", ".join(f"{op[r]}@unit{uid[r]}" for r in rows_[:6]), k)

    # ---- I2: unit id ranges disjoint ----------------------------------------------------------------------
    ranges = []
    for u, rows_ in units.items():
        ids = [(sid[i], i) for i in rows_ if sid[i] is not None]
        if not ids:
            continue
        lo, hi = min(ids), max(ids)
        ranges.append((lo[0], hi[0], u, lo[1], hi[1]))
    ranges.sort()
    V.add("I2 unit id ranges compared", max(0, len(ranges) - 1))
    for a, b in zip(ranges, ranges[1:]):
        if b[0] <= a[1]:
            off = a[4]
            V.violate("I2", a[2], _construct(str(op[off]), name[off]),
                      f"ids of unit {a[2]} span [{a[0]}, {a[1]}] and overlap unit {b[2]} which spans [{b[0]}, {b[1]}]",
                      a[1])

    # ---- per unit: I3, I4, I5, I6 -------------------------------------------------------------------------
    # first pass over everything: which ids are blocks, who owns them
    block_parent = {}      # (unit, block id) -> parent id of the start row
    for i in range(n):
        if op[i] == "block_start" and sid[i] is not None:
            block_parent.setdefault((uid[i], sid[i]), par[i])

    # derive body-valued columns from the data
    good = {}
    for i, lst in refs.items():
        if op[i] in MARKERS:
            continue
        for c, iv, raw in lst:
            if iv is not None and block_parent.get((uid[i], iv), -1) == sid[i]:
                good[c] = good.get(c, 0) + 1
    body_cols = set()
    for c, total in col_nonnull.items():
        g = good.get(c, 0)
        if c in DOCUMENTED_BODY_COLUMNS:
            body_cols.add(c)
        elif g >= 2 and 2 * g >= total:
            body_cols.add(c)
            V.derived_cols.add(c)

    for u, rows_ in units.items():
        lang = lang_of(u)
        ops_seen = V.ops.setdefault(lang, set())
        info = {"rows": len(rows_), "blocks": 0, "unit_init": 0, "groups": 0}
        V.per_unit[u] = info
        if u is None:
            V.violate("I2", None, str(op[rows_[0]]), f"{len(rows_)} rows carry no unit_id")
            continue
        stack = []            # frames: [block id, in_method flag, owner row index]
        last_stmt = [None]    # per nesting level: row index of the latest statement row
        started, ended = set(), set()
        row_of_id = {}
        broken = False
        unit_init_rows = []
        # I3 / I4 / I6 (top-level class, method ancestry)
        for i in rows_:
            o = op[i]
            ops_seen.add(o)
            if o == "block_start":
                V.add("I3 marker rows checked")
                b = sid[i]
                if b in started:
                    V.violate("I3", u, "block_start", f"block {b} is started twice", b)
                    broken = True
                    break
                started.add(b)
                owner = last_stmt[-1]
                V.add("I4 parent links checked")
                if owner is None or sid[owner] != par[i]:
                    oc = _construct(str(op[owner]), name[owner]) if owner is not None else "(none)"
                    V.violate("I4", u, f"block_start<{oc}>",
                              f"block {b} has parent_stmt_id {par[i]} but the statement preceding it at its level is "
                              f"{(sid[owner], op[owner]) if owner is not None else None}", b)
                    broken = True
                    break
                col = None
                for c, iv, raw in refs.get(owner, ()):
                    if iv == b:
                        col = c
                        break
                in_m = ((stack[-1][1] if stack else False) or op[owner] == "method_decl"
                        or (col in INITIALISER_COLUMNS and str(op[owner]).endswith("_decl")))
                stack.append([b, in_m, owner, col])
                last_stmt.append(None)
                info["blocks"] += 1
            elif o == "block_end":
                V.add("I3 marker rows checked")
                b = sid[i]
                if not stack or stack[-1][0] != b:
                    V.violate("I3", u, "block_end",
                              f"block_end {b} while the innermost open block is {stack[-1][0] if stack else None}", b)
                    broken = True
                    break
                if b in ended:
                    V.violate("I3", u, "block_end", f"block {b} is ended twice", b)
                    broken = True
                    break
                ended.add(b)
                owner = stack[-1][2]
                V.add("I4 parent links checked")
                if par[i] != sid[owner]:
                    V.violate("I4", u, f"block_end<{_construct(str(op[owner]), name[owner])}>",
                              f"end marker of block {b} has parent_stmt_id {par[i]}, its start marker {sid[owner]}", b)
                    broken = True
                    break
                stack.pop()
                last_stmt.pop()
            else:
                V.add("I4 parent links checked")
                want = stack[-1][0] if stack else 0
                cons = _construct(str(o), name[i])
                if par[i] != want:
                    V.violate("I4", u, cons,
                              f"{o} {sid[i]} has parent_stmt_id {par[i]} but the innermost open block is {want}", sid[i])
                    broken = True
                    break
                last_stmt[-1] = i
                row_of_id[sid[i]] = i
                V.add("I6 placement checks")
                if not stack:
                    if not is_decl_like(str(o)):
                        V.violate("I6", u, cons, f"{o} {sid[i]} sits at top level (parent 0) outside every method",
                                  sid[i])
                    if o == "method_decl" and name[i] == UNIT_INIT:
                        unit_init_rows.append(i)
                elif not stack[-1][1] and not is_declarative(str(o)):
                    chain = "/".join(f"{op[f[2]]}.{f[3]}" for f in stack)
                    # the construct whose body the frontend lowered without wrapping it into a method:
                    # the innermost enclosing declaration
                    encl = stack[0]
                    for f in reversed(stack):
                        if is_decl_like(str(op[f[2]])):
                            encl = f
                            break
                    V.violate("I6", u, f"{op[encl[2]]}.{encl[3]}",
                              f"{o} {sid[i]} lies in no method and no class-initialiser block "
                              f"(enclosing constructs: {chain})", sid[i])
        if not broken and stack:
            b = stack[-1][0]
            owner = stack[-1][2]
            V.violate("I3", u, f"block_start<{_construct(str(op[owner]), name[owner])}>",
                      f"block {b} is never ended ({len(stack)} blocks open at the end of the unit)", b)
            broken = True
        if broken:
            V.add("units whose nesting is broken (later invariants skipped)")
            continue
        # I5
        owned = {}        # owner row index -> set(block ids)
        for i in rows_:
            if op[i] == "block_start":
                owned.setdefault(row_of_id.get(par[i]), set()).add(sid[i])
        for i in rows_:
            if op[i] in MARKERS:
                continue
            mine = owned.get(i, ())
            named = set()
            for c, raw in nonblock.get(i, ()):
                V.add("I5 body-valued attributes checked")
                V.violate("I5", u, f"{_construct(str(op[i]), name[i])}.{c}",
                          f"{op[i]} {sid[i]}: attribute {c} is documented to hold a body but holds "
                          f"{str(raw)[:80]!r}, which names no block", sid[i])
            for c, iv, raw in refs.get(i, ()):
                if c in body_cols:
                    V.add("I5 body-valued attributes checked")
                    V.body_cols.add(f"{op[i]}.{c}")
                    if iv is None or iv not in mine:
                        V.violate("I5", u, f"{_construct(str(op[i]), name[i])}.{c}",
                                  f"{op[i]} {sid[i]}: attribute {c} = {raw!r} does not name a block owned by this row "
                                  f"(blocks owned: {sorted(mine)})", sid[i])
                    else:
                        if iv in named:
                            V.violate("I5", u, f"{_construct(str(op[i]), name[i])}.{c}",
                                      f"{op[i]} {sid[i]}: block {iv} is named by two attributes", sid[i])
                        named.add(iv)
                elif iv is not None and iv in mine:
                    named.add(iv)      # an unknown column that does name an owned block: not an orphan
            for b in mine:
                V.add("I5 blocks checked for an owner attribute")
                if b not in named:
                    V.violate("I5", u, f"{_construct(str(op[i]), name[i])}:orphan-block",
                              f"block {b} has parent {op[i]} {sid[i]} but no attribute of that row names it", b)
        # I6: unit_init
        if len(unit_init_rows) > 1:
            V.violate("I6", u, "method_decl[%unit_init]", f"{len(unit_init_rows)} %unit_init methods in one unit",
                      sid[unit_init_rows[1]])
        r = rec.units.get(u) if rec is not None else None
        if unit_init_rows:
            info["unit_init"] = 1
            V.add("units with a %unit_init")
            ui = unit_init_rows[0]
            body = None
            for c, iv, raw in refs.get(ui, ()):
                if c == "body":
                    body = iv
            children = [i for i in rows_ if par[i] == body and op[i] not in MARKERS] if body is not None else []
            V.add("I6 %unit_init direct children seen", len(children))
            if r is not None and r.top:
                top = r.top
                groups = []
                for i in children:
                    a, b = _as_int(srow[i]), _as_int(scol[i])
                    if a is None or b is None:
                        continue
                    g = _locate(top, a, b)
                    if g is None:
                        V.add("I6 children whose position lies in no root child (skipped)")
                        continue
                    groups.append((g, i))
                info["groups"] = len({g for g, _ in groups})
                V.add("I6 source-order comparisons", max(0, len(groups) - 1))
                for (g1, i1), (g2, i2) in zip(groups, groups[1:]):
                    if g2 < g1:
                        V.violate("I6", u, f"{op[i2]}:order",
                                  f"in %unit_init, {op[i2]} {sid[i2]} from top-level node #{g2} (line {srow[i2]}) "
                                  f"comes after {op[i1]} {sid[i1]} from top-level node #{g1} (line {srow[i1]})",
                                  sid[i2])
                        break
        # I6: nothing lost / invented between flatten and the bundle
        if r is not None and r.flat_ids is not None:
            V.add("I6 flatten-vs-bundle id multisets compared")
            want = {}
            for k in r.flat_ids:
                want[k] = want.get(k, 0) + 1
            got = {}
            for i in rows_:
                got[sid[i]] = got.get(sid[i], 0) + 1
            synth = set()
            if unit_init_rows:
                ui = unit_init_rows[0]
                synth.add(sid[ui])
                for c, iv, raw in refs.get(ui, ()):
                    if c == "body":
                        synth.add(iv)
            flat_op = None
            for k, cnt in want.items():
                if got.get(k, 0) < cnt:
                    if flat_op is None:
                        flat_op = dict(zip(r.flat_ids, r.flat_ops))
                    V.violate("I6", u, f"{flat_op.get(k)}:lost",
                              f"{flat_op.get(k)} {k} was produced by flatten but is not in the bundle "
                              f"({cnt} row(s) expected, {got.get(k, 0)} found)", k)
                    break
            for k, cnt in got.items():
                if k in synth:
                    continue
                if want.get(k, 0) < cnt:
                    i = row_of_id.get(k)
                    o = op[i] if i is not None else "block"
                    V.violate("I6", u, f"{o}:invented",
                              f"{o} {k} is in the bundle ({cnt} row(s)) but flatten produced {want.get(k, 0)}", k)
                    break
    V.add("rows checked", n)
    V.add("blocks checked", sum(x["blocks"] for x in V.per_unit.values()))
    V.add("units checked", len(units))
    return V


def _locate(top, row, col):
    """index of the root child whose [start, end) contains (row, col); None if there is none."""
    lo, hi = 0, len(top) - 1
    pos = (row, col)
    while lo <= hi:
        mid = (lo + hi) // 2
        a = (top[mid][0], top[mid][1])
        b = (top[mid][2], top[mid][3])
        if pos < a:
            hi = mid - 1
        elif pos >= b:
            # zero-width nodes (MISSING) never contain anything
            lo = mid + 1
        else:
            return mid
    return None
