"""C15 monitor: the real `Loader` (lian.util.loader) driven through save / get / export / export-indexing /
restore histories with a dict `id -> last saved content` as oracle.

What lives here
  * workspace/options/configuration helpers that build the loader the way lian does (`Loader(options)` on a
    workspace with the sub-directories `preparation.WorkspaceBuilder` creates);
  * the table of loader *families* reachable through the public Loader API: for each one how to save and read an
    item, how to build small realistic values from the repo's own classes, and a canonical form of the content that
    is computed by this file from the objects themselves (never through lian's flatten/to_dict code, so that a field
    dropped by a to_dict/flatten/unflatten is visible);
  * `run_history`: the reference-model interpreter for one history on one family under one cache/bundle
    configuration, including the independent pandas reader of `*.bundleN` / `*.indexing` files and the
    fresh-`Loader(options).restore()` comparison;
  * fault injection (n-th `DataFrame.to_feather` raises, or the target path is occupied) and the `DataModel.save`
    swallow recorder;
  * post-conditions (icontract) on `LRUCache.get/put/remove` and `GeneralLoader.get_raw_item_by_id` that stay on during
    histories and real runs;
  * the comparison, after a real analysis, of what every `GeneralLoader.save` received with what the live loader and
    a fresh restored loader return, and the digest used to compare the same analysis under two loader configurations;
  * the same history machinery (`run_map_history`) for the in-memory map loaders (no caches, one file each).

Canonical forms are JSON-able Python values; numbers are compared with Python equality (3.0 == 3), missing values
(None/NaN) are dropped from row dictionaries, sets are sorted.  `ABSENT` is the canonical form of "no such item"
(a read returning None); an empty item is *not* absent."""
import dataclasses
import json
import math
import os
import shutil
import sys
import types

ABSENT = "<absent>"
LIST_NOT_ITEM = "<a plain list instead of the item>"
IDS = (1, 2, 3)


# ---------------------------------------------------------------------------------------------------
# workspace / loader construction

def make_workspace(root):
    """The directories lian's preparation.WorkspaceBuilder.run creates before any loader writes."""
    from lian.config import config
    subdirs = [config.SOURCE_CODE_DIR, config.EXTERNS_DIR, config.FRONTEND_DIR, config.SEMANTIC_P1_DIR,
               config.SEMANTIC_P2_DIR, config.SEMANTIC_P3_DIR, config.STATE_FLOW_GRAPH_P2_DIR,
               config.STATE_FLOW_GRAPH_P3_DIR, config.TAINT_OUTPUT_DIR]
    for s in subdirs:
        os.makedirs(os.path.join(root, s), exist_ok=True)
    return root


def make_options(ws):
    from lian import args_parser
    opt = args_parser.ArgsParser().obtain_default_options()
    opt.workspace = ws
    opt.quiet = True
    opt.lang = ["python"]
    opt.lang_extensions = [".py"]
    opt.in_path = []
    return opt


def configure(cfg):
    """cfg = (item_cache_capacity, bundle_cache_capacity, max_rows). Set inside a forked child only: the capacities
    are read from lian.config.config when Loader.__init__ runs, MAX_ROWS at every save."""
    from lian.config import config
    item_cap, bundle_cap, max_rows = cfg
    config.LRU_CACHE_CAPACITY = item_cap
    config.MIN_CACHE_CAPACITY = item_cap
    config.GIR_CACHE_CAPACITY = item_cap
    config.BUNDLE_CACHE_CAPACITY = bundle_cap
    config.MAX_ROWS = max_rows


def new_loader(ws):
    from lian.util.loader import Loader
    return Loader(make_options(ws))


# ---------------------------------------------------------------------------------------------------
# canonical forms

def _isnull(v):
    if v is None:
        return True
    if isinstance(v, float):
        return v != v
    try:
        import numpy as np
        if isinstance(v, np.floating):
            return bool(v != v)
    except Exception:
        pass
    return False


def norm(v):
    """Plain-Python, order-insensitive-for-sets, JSON-able normal form of a value as lian stores/returns it."""
    import numpy as np
    if v is None:
        return None
    if isinstance(v, (bool, np.bool_)):
        return bool(v)
    if isinstance(v, (int, np.integer)):
        return int(v)
    if isinstance(v, (float, np.floating)):
        f = float(v)
        if f != f:
            return None
        if f.is_integer():
            return int(f)
        return f
    if isinstance(v, str):
        return v
    if isinstance(v, (set, frozenset)):
        items = [norm(x) for x in v]
        return sorted(items, key=lambda x: json.dumps(x, sort_keys=True, default=str))
    if isinstance(v, np.ndarray):
        return [norm(x) for x in v.tolist()]
    if isinstance(v, (list, tuple, range)):
        return [norm(x) for x in v]
    if isinstance(v, dict):
        return {str(norm(k)) if not isinstance(k, str) else k: norm(x) for k, x in v.items()}
    cs = _cs()
    if isinstance(v, cs.CallSite):
        return ["CallSite", norm(v.caller_id), norm(v.call_stmt_id), norm(v.callee_id)]
    if isinstance(v, cs.CallPath):
        return ["CallPath", [norm(x) for x in v.path]]
    if isinstance(v, cs.SFGNode):
        return ["SFGNode", {"node_type": norm(v.node_type), "def_stmt_id": norm(v.def_stmt_id), "index": norm(v.index),
                            "node_id": norm(v.node_id), "context_id": norm(v.context_id), "name": norm(v.name),
                            "line_no": norm(v.line_no), "operation": norm(v.operation), "access_path": norm(v.access_path)}]
    if isinstance(v, cs.SymbolNodeInImportGraph):
        return ["ImportNode", norm(v.scope_id), norm(v.symbol_type), norm(v.symbol_id), norm(v.symbol_name), norm(v.unit_id)]
    if dataclasses.is_dataclass(v) and not isinstance(v, type):
        return [type(v).__name__, {f.name: norm(getattr(v, f.name)) for f in dataclasses.fields(v)}]
    if hasattr(v, "to_dict") and hasattr(v, "_schema"):       # data_model.Row
        return row_dict(v.to_dict())
    return repr(v)


def row_dict(d):
    return {k: norm(x) for k, x in d.items() if not _isnull(x)}


def rows_of(obj):
    """A DataModel (or `[]`, which query_index_column_value returns for 'no rows') as a list of row dicts."""
    if obj is None:
        return ABSENT
    if isinstance(obj, (list, tuple)) and len(obj) == 0:
        return []
    if hasattr(obj, "_data"):
        df = obj._data
        if df is None:
            return []
        cols = list(df.columns)
        out = []
        for tup in df.itertuples(index=False, name=None):
            out.append(row_dict(dict(zip(cols, tup))))
        return out
    return ["<unexpected %s>" % type(obj).__name__, repr(obj)[:200]]


def _sorted(items):
    return sorted(items, key=lambda x: json.dumps(x, sort_keys=True, default=str))


def graph_canon(g, node=norm, weight=norm, attrs=False):
    """Edge list with multiplicity (sorted); isolated nodes do not exist in lian's stored graphs."""
    if g is None:
        return ABSENT
    if isinstance(g, (list, tuple)):
        return LIST_NOT_ITEM
    if hasattr(g, "graph") and not hasattr(g, "edges"):
        g = g.graph
    out = []
    if attrs:
        for u, v, d in g.edges(data=True):
            out.append([node(u), node(v), norm(d)])
    else:
        for u, v, w in g.edges(data="weight", default=None):
            out.append([node(u), node(v), weight(w)])
    return _sorted(out)


def dict_canon(d, value=norm):
    if d is None:
        return ABSENT
    if isinstance(d, (list, tuple)):
        return LIST_NOT_ITEM
    return {str(norm(k)): value(v) for k, v in d.items()}


def as_set(v):
    """Canonical form of a collection that the loader stores as a set (a list passed to save counts as its set)."""
    if isinstance(v, (set, frozenset, list, tuple)) or hasattr(v, "tolist"):
        items = [norm(x) for x in (v.tolist() if hasattr(v, "tolist") else v)]
        uniq = []
        for x in _sorted(items):
            if not uniq or uniq[-1] != x:
                uniq.append(x)
        return uniq
    return norm(v)


def dict_of_sets(d):
    return dict_canon(d, value=as_set)


def _cs():
    from lian import common_structs
    return common_structs


# ---------------------------------------------------------------------------------------------------
# value builders (realistic small values built with the repo's classes). variant: 'A' (3-4 rows), 'B' (different,
# overlapping with A, 2 rows), 'E' (empty item). Content depends on the id so that items cannot be confused.

def _n(variant):
    return {"A": 4, "B": 2, "E": 0}[variant]


ONE_OF = "one-of"
FOREIGN_ROWS = [0]       # unit-level rows compared whose own unit_id differed from the key they were saved under


def own_unit_ids(i, variant):
    """The unit_id each row of a unit-level item brings along, by row position: the save key itself, the id of another
    saved unit, none at all, an id nobody is saved under. (Callers of lian always bring the key; the loader's contract on the
    unchanged tree is that the rows belong to the key they are saved under whatever the column says, and that it overwrites
    the column with the key. What must survive is the row; for the column both the key and the row's own value are accepted.)"""
    other = i % 3 + 1
    return {"A": [i, other, None, 77], "B": [other, i], "E": []}[variant]


def _unit_id_expectation(i, own):
    allowed = sorted({i} | ({own} if own is not None else set()))
    return i if len(allowed) == 1 else {ONE_OF: allowed}


def reconcile_unit_rows(got, want):
    """Where the expectation admits several unit_id values for a row and the row read has one of them, take it as matched."""
    if not (isinstance(got, list) and isinstance(want, list) and len(got) == len(want)):
        return got
    out = []
    for g, w in zip(got, want):
        if isinstance(g, dict) and isinstance(w, dict) and isinstance(w.get("unit_id"), dict) and ONE_OF in w["unit_id"]:
            FOREIGN_ROWS[0] += 1
            if g.get("unit_id") in w["unit_id"][ONE_OF]:
                g = dict(g)
                g["unit_id"] = w["unit_id"]
        out.append(g)
    return out


def build_gir(i, variant):
    base = 100 * i
    rows = [
        {"operation": "method_decl", "stmt_id": base + 1, "parent_stmt_id": 0, "name": "f%d" % i, "parameters": base + 2, "body": base + 3},
        {"operation": "block_start", "stmt_id": base + 3, "parent_stmt_id": base + 1},
        {"operation": "assign_stmt", "stmt_id": base + 4, "parent_stmt_id": base + 3, "target": "x", "operand": "1", "operator": None},
        {"operation": "block_end", "stmt_id": base + 3, "parent_stmt_id": base + 1},
    ]
    if variant == "B":
        rows = [rows[0], {"operation": "return_stmt", "stmt_id": base + 9, "parent_stmt_id": base + 1, "name": "x"}]
    out = []
    for r, own in zip(rows[:_n(variant)], own_unit_ids(i, variant)):
        r = dict(r)
        if own is not None:
            r["unit_id"] = own
        out.append(r)
    return out


def canon_saved_gir(i, variant):
    out = []
    for r, own in zip(build_gir(i, variant), own_unit_ids(i, variant)):
        r = dict(r)
        r.pop("unit_id", None)
        r = row_dict(r)
        r["unit_id"] = _unit_id_expectation(i, own)
        out.append(r)
    return out


def build_scope(i, variant):
    cs = _cs()
    from lian.config.constants import LIAN_SYMBOL_KIND as K
    space = cs.ScopeSpace()
    base = 100 * i
    items = [
        cs.Scope(stmt_id=0, scope_id=-1, parent_stmt_id=-1, scope_kind=K.UNIT_KIND),
        cs.Scope(stmt_id=base + 1, scope_id=0, parent_stmt_id=0, scope_kind=K.METHOD_KIND, name="f%d" % i, attrs="['public']"),
        cs.Scope(stmt_id=base + 2, scope_id=base + 1, parent_stmt_id=base + 1, scope_kind=K.PARAMETER_DECL, name="p"),
        cs.Scope(stmt_id=base + 5, scope_id=0, parent_stmt_id=0, scope_kind=K.IMPORT_STMT, name="m", source="pkg", alias="m"),
    ]
    if variant == "B":
        items = [items[0], cs.Scope(stmt_id=base + 7, scope_id=0, parent_stmt_id=0, scope_kind=K.CLASS_KIND, name="C", supers="['B']")]
    for it, own in zip(items[:_n(variant)], own_unit_ids(i, variant)):
        if own is not None:
            it.unit_id = own        # else the dataclass default -1, which Scope.to_dict() emits
        space.add(it)
    return space


def canon_scope_saved(i, variant):
    """Canonical content of the ScopeSpace computed from the dataclass fields (not through Scope.to_dict)."""
    out = []
    for s in build_scope(i, variant):
        d = {f.name: getattr(s, f.name) for f in dataclasses.fields(s)}
        own = d.pop("unit_id")
        d = row_dict(d)
        d["unit_id"] = _unit_id_expectation(i, own)
        out.append(d)
    return out


def build_export_symbols(i, variant):
    cs = _cs()
    base = 100 * i
    items = [
        cs.SymbolNodeInImportGraph(0, 10, base + 1, "f%d" % i),
        cs.SymbolNodeInImportGraph(0, 11, base + 7, "C"),
        cs.SymbolNodeInImportGraph(base + 7, 10, base + 8, "m"),
        cs.SymbolNodeInImportGraph(0, 17, -(base + 9), "ext"),
    ]
    if variant == "B":
        items = [items[1], cs.SymbolNodeInImportGraph(0, 5, base + 11, "g")]
    for n, own in zip(items[:_n(variant)], own_unit_ids(i, variant)):
        n.unit_id = own if own is not None else -1       # to_dict() emits the unit_id only when it is positive
    return items[:_n(variant)]


def canon_export_symbols_saved(i, variant):
    out = []
    for n, own in zip(build_export_symbols(i, variant), own_unit_ids(i, variant)):
        d = row_dict({"scope_id": n.scope_id, "symbol_type": n.symbol_type, "symbol_id": n.symbol_id, "symbol_name": n.symbol_name})
        d["unit_id"] = _unit_id_expectation(i, own)
        out.append(d)
    return out


def build_name_to_ids(i, variant):
    base = 100 * i
    d = {"x": {base + 1, base + 2}, "y": {base + 3}, "f%d" % i: {base + 1}, "dup": {7, 8}}
    if variant == "B":
        d = {"x": {base + 2}, "z": {base + 5, 7}}
    return {k: set(d[k]) for k in list(d)[:_n(variant)]}


def build_scope_to_symbol_info(i, variant):
    base = 100 * i
    d = {0: {"f%d" % i: base + 1, "g": base + 2}, base + 1: {"p": base + 3}, base + 2: {"p": base + 4, "q": base + 5}, base + 9: {"t": 3}}
    if variant == "B":
        d = {0: {"g": base + 2}, base + 2: {"q": base + 6}}
    return {k: dict(d[k]) for k in list(d)[:_n(variant)]}


def build_scope_to_scopes(i, variant):
    base = 100 * i
    d = {0: {0}, base + 1: {0, base + 1}, base + 2: {0, base + 2}, base + 3: {0, base + 1, base + 3}}
    if variant == "B":
        d = {0: {0}, base + 1: {base + 1}}
    return {k: set(d[k]) for k in list(d)[:_n(variant)]}


def build_decl_summary(i, variant):
    cs = _cs()
    return cs.UnitSymbolDeclSummary(i, build_name_to_ids(i, variant), build_scope_to_symbol_info(i, variant),
                                    build_scope_to_scopes(i, variant))


def canon_decl_summary(s):
    if s is None:
        return ABSENT
    parts = [s.symbol_name_to_scope_ids, s.scope_id_to_symbol_info, s.scope_id_to_available_scope_ids]
    if all(p is None for p in parts):
        return ABSENT
    if any(isinstance(p, (list, tuple)) for p in parts):
        return LIST_NOT_ITEM
    return [norm(s.unit_id)] + [ABSENT if p is None else dict_canon(p) for p in parts]


def build_class_members(i, variant):
    d = {"a": {100 + i, 101}, "b": {7}, "c%d" % i: {1, 2, 3}, "d": {5}}
    if variant == "B":
        d = {"a": {101}, "e": {9, 10}}
    return {k: set(d[k]) for k in list(d)[:_n(variant)]}


def build_cfg(i, variant):
    cs = _cs()
    base = 100 * i
    g = cs.ControlFlowGraph(i)
    edges = [(base + 1, base + 2, 0), (base + 2, base + 3, 1), (base + 2, base + 4, 2), (base + 4, -1, 0)]
    if variant == "B":
        edges = [(base + 1, base + 2, 0), (base + 2, -1, 3)]
    for s, d, t in edges[:_n(variant)]:
        g.add_edge(s, d, t)
    return g.graph


def build_bit_vector(kind):
    def build(i, variant):
        cs = _cs()
        base = 100 * i
        m = cs.BitVectorManager()
        if kind == "symbol":
            ids = [cs.SymbolDefNode(0, base + 1, base + 2), cs.SymbolDefNode(1, base + 3, base + 4),
                   cs.SymbolDefNode(2, base + 1, base + 5), cs.SymbolDefNode(3, 7, base + 6)]
            if variant == "B":
                ids = [ids[2], cs.SymbolDefNode(5, base + 8, base + 9)]
        else:
            ids = [cs.StateDefNode(4, 200 + i, base + 2), cs.StateDefNode(5, 201, base + 4),
                   cs.StateDefNode(6, 200 + i, base + 5), cs.StateDefNode(7, 203, base + 6)]
            if variant == "B":
                ids = [ids[1], cs.StateDefNode(9, 209, base + 9)]
        m.init(ids[:_n(variant)])
        return m
    return build


def canon_bit_vector(m):
    if m is None:
        return ABSENT
    if isinstance(m, (list, tuple)):
        return LIST_NOT_ITEM
    return {"pos_to_id": {str(int(p)): norm(b) for p, b in m.bit_pos_to_id.items()},
            "id_to_pos": _sorted([[norm(b), int(p)] for b, p in m.id_to_bit_pos.items()])}


def build_stmt_status(i, variant):
    cs = _cs()
    base = 100 * i
    S, T = cs.SymbolDefNode, cs.StateDefNode
    items = [
        cs.StmtStatus(stmt_id=base + 1, defined_symbol=0, used_symbols=[1, 2], implicitly_defined_symbols=[3],
                      implicitly_used_symbols=[4, 5], in_symbol_bits={S(0, base + 1, base + 1)},
                      out_symbol_bits={S(0, base + 1, base + 1), S(1, 7, base + 2)}, defined_states={6, 7},
                      in_state_bits={T(6, 300, base + 1)}, out_state_bits={T(6, 300, base + 1), T(7, 301, base + 1)},
                      field_name="fld"),
        cs.StmtStatus(stmt_id=base + 2, defined_symbol=8, used_symbols=[0], in_symbol_bits={S(0, base + 1, base + 1)}),
        cs.StmtStatus(stmt_id=base + 3),
        cs.StmtStatus(stmt_id=base + 4, defined_symbol=9, used_symbols=[8, 8], out_state_bits={T(2, 302, base + 4)}),
    ]
    if variant == "B":
        items = [items[1], cs.StmtStatus(stmt_id=base + 1, defined_symbol=5, used_symbols=[], defined_states={1})]
    return {s.stmt_id: s for s in items[:_n(variant)]}


def build_space(i, variant):
    cs = _cs()
    from lian.config.constants import ACCESS_POINT_KIND as AK, STATE_TYPE_KIND as SK
    base = 100 * i
    sp = cs.SymbolStateSpace()
    items = [
        cs.Symbol(stmt_id=base + 1, name="x", default_data_type="int", states={1}, symbol_id=base + 1, source_unit_id=i),
        cs.State(stmt_id=base + 1, state_id=500 + i, data_type="int", value="3", state_type=SK.REGULAR,
                 source_symbol_id=base + 1, access_path=[cs.AccessPoint(kind=AK.TOP_LEVEL, key="x", state_id=500 + i)]),
        cs.Symbol(stmt_id=base + 2, name="o", states={3}, symbol_id=base + 2, source_unit_id=i),
        cs.State(stmt_id=base + 2, state_id=510 + i, data_type="C", value="", state_type=SK.ANYTHING,
                 fields={"f": {1}, "g": {1, 3}}, array=[{1}, {3}], tangping_flag=True, tangping_elements={1},
                 source_symbol_id=base + 2, source_state_id=500 + i,
                 access_path=[cs.AccessPoint(kind=AK.TOP_LEVEL, key="o", state_id=510 + i),
                              cs.AccessPoint(kind=AK.FIELD_NAME, key="f", state_id=-1)]),
    ]
    if variant == "B":
        items = [items[2], cs.State(stmt_id=base + 5, state_id=520 + i, data_type="str", value="'a b'", source_symbol_id=base + 2)]
    for it in items[:_n(variant)]:
        sp.add(it)
    return sp


def canon_space(sp):
    if sp is None:
        return ABSENT
    if isinstance(sp, (list, tuple)):
        return LIST_NOT_ITEM
    out = []
    for el in sp.space:
        d = {f.name: getattr(el, f.name) for f in dataclasses.fields(el)}
        d.pop("data_type_ids", None)       # analysis-time scratch, documented as not stored (never in to_dict)
        if "value" in d:
            d["value"] = str(d["value"])    # State.value is text by the definition of the storage format
        out.append([type(el).__name__, norm(d)])
    return out


def build_defined_symbols(i, variant):
    cs = _cs()
    base = 100 * i
    S = cs.SymbolDefNode
    d = {base + 1: {S(0, base + 1, base + 2), S(2, base + 1, base + 5)}, base + 3: {S(1, base + 3, base + 4)},
         7: {S(3, 7, base + 6)}, base + 8: {S(4, base + 8, base + 9), S(5, base + 8, base + 9)}}
    if variant == "B":
        d = {base + 1: {S(2, base + 1, base + 5)}, 9: {S(6, 9, base + 2)}}
    return {k: set(d[k]) for k in list(d)[:_n(variant)]}


def build_defined_states(i, variant):
    cs = _cs()
    base = 100 * i
    T = cs.StateDefNode
    d = {300 + i: {T(0, 300 + i, base + 2), T(2, 300 + i, base + 5)}, 301: {T(1, 301, base + 4)},
         302: {T(3, 302, base + 6)}, 303: {T(4, 303, base + 9), T(5, 303, base + 9)}}
    if variant == "B":
        d = {300 + i: {T(2, 300 + i, base + 5)}, 309: {T(6, 309, base + 2)}}
    return {k: set(d[k]) for k in list(d)[:_n(variant)]}


def build_used_symbols(i, variant):
    base = 100 * i
    d = {base + 1: {base + 2, base + 5}, base + 3: {base + 4}, 7: {base + 6, 1}, base + 8: {base + 9}}
    if variant == "B":
        d = {base + 1: {base + 5}, 9: {base + 2, base + 3}}
    return {k: set(d[k]) for k in list(d)[:_n(variant)]}


def build_symbol_graph(i, variant):
    cs = _cs()
    base = 100 * i
    S = cs.SymbolDefNode
    g = cs.SymbolGraph(i)
    edges = [(base + 1, S(0, base + 1, base + 1), 1), (S(0, base + 1, base + 1), base + 2, 2),
             (base + 2, S(1, 7, base + 2), 1), (S(1, 7, base + 2), base + 3, 2)]
    if variant == "B":
        edges = [(S(0, base + 1, base + 1), base + 4, 2), (base + 4, S(3, 8, base + 4), 1)]
    for s, d, w in edges[:_n(variant)]:
        g.add_edge(s, d, w)
    return g.graph


def build_sfg(i, variant):
    cs = _cs()
    from lian.config.constants import SFG_NODE_KIND as NK, SFG_EDGE_KIND as EK
    base = 100 * i
    g = cs.StateFlowGraph(i)
    N, E = cs.SFGNode, cs.SFGEdge
    stmt = N(node_type=NK.STMT, def_stmt_id=base + 1, name="call_stmt")
    sym = N(node_type=NK.SYMBOL, def_stmt_id=base + 1, index=0, node_id=base + 1, name="x", context=cs.CallSite(1, base + 7, i))
    st = N(node_type=NK.STATE, def_stmt_id=base + 1, index=1, node_id=500 + i, name="", access_path=[])
    st2 = N(node_type=NK.STATE, def_stmt_id=base + 2, index=2, node_id=510 + i, name="")
    edges = [(stmt, sym, E(EK.SYMBOL_IS_DEFINED, base + 1, 0, -1, "")), (sym, st, E(EK.SYMBOL_STATE, base + 1, 0, 0, "")),
             (st, st2, E(EK.STATE_INCLUSION, base + 2, 1, 0, "f")), (sym, stmt, E(EK.SYMBOL_IS_USED, base + 1, 0, 1, ""))]
    if variant == "B":
        edges = [(stmt, sym, E(EK.SYMBOL_IS_DEFINED, base + 1, 1, -1, "")), (sym, st2, E(EK.SYMBOL_STATE, base + 2, 1, 0, ""))]
    for s, d, w in edges[:_n(variant)]:
        g.add_edge(s, d, w)
    return g


def build_parameter_mapping(i, variant):
    cs = _cs()
    from lian.config.constants import ACCESS_POINT_KIND as AK, LIAN_INTERNAL as LI
    base = 100 * i
    P, A = cs.ParameterMapping, cs.AccessPoint
    items = [
        P(arg_index_in_space=1, arg_state_id=500 + i, arg_source_symbol_id=base + 1, parameter_symbol_id=base + 11,
          arg_access_path=[A(AK.TOP_LEVEL, "x", 500 + i)], parameter_type=LI.PARAMETER_DECL,
          parameter_access_path=A(AK.TOP_LEVEL, "p", -1)),
        P(arg_index_in_space=3, arg_state_id=510 + i, arg_source_symbol_id=base + 2, parameter_symbol_id=base + 12,
          arg_access_path=[A(AK.TOP_LEVEL, "o", 510 + i), A(AK.FIELD_NAME, "f", 1)], parameter_access_path=None, is_default_value=True),
        P(arg_index_in_space=1, arg_state_id=500 + i, arg_source_symbol_id=base + 1, parameter_symbol_id=base + 13),
        P(arg_index_in_space=5, arg_state_id=7, parameter_symbol_id=base + 14, parameter_access_path=A(AK.ARRAY_INDEX, "0", 2)),
    ]
    if variant == "B":
        items = [items[1], P(arg_index_in_space=2, arg_state_id=9, parameter_symbol_id=base + 11)]
    return items[:_n(variant)]


def key_callsite(i):
    return _cs().CallSite(10 + i, 100 * i + 7, 20 + i)


def key_int(i):
    return i


# ---------------------------------------------------------------------------------------------------
# families on GeneralLoader (item cache + bundle cache + active bundle + index)

class Family:
    """One loader family reachable through the public Loader API."""

    def __init__(self, name, attr, save, get, build, canon, subdir, idcol, kind="bundle", key=key_int,
                 canon_saved=None, rowkey=None, idval=None, attrs=None, reconcile=None):
        self.name = name            # also the signature prefix: the loader class name + instance
        self.attr = attr            # Loader attribute holding the concrete loader (for paths / cache inspection)
        self.attrs = attrs or [attr]
        self.save = save            # (L, key, value) -> None
        self.get = get              # (L, key) -> object
        self.build = build          # (i, variant) -> value
        self.canon = canon          # object read (or value saved) -> canonical form
        self.canon_saved = canon_saved   # optional (i, variant) -> canonical expectation when it is not canon(build())
        self.subdir = subdir
        self.idcol = idcol          # id column inside the bundle files
        self.idval = idval or (lambda k: k)     # value of the id column for key k
        self.kind = kind
        self.key = key
        self.reconcile = reconcile  # optional (got, want) -> got with admissible alternatives resolved

    def adjust(self, got, want):
        return self.reconcile(got, want) if self.reconcile is not None else got

    def matches(self, got, want):
        return self.adjust(got, want) == want

    def expected(self, i, variant):
        if self.canon_saved is not None:
            return self.canon_saved(i, variant)
        return self.canon(self.build(i, variant))


def _general_families():
    F = []

    def add(*a, **k):
        F.append(Family(*a, **k))

    add("UnitGIRLoader", "_gir_loader",
        lambda L, k, v: L.save_unit_gir(k, v), lambda L, k: L.get_unit_gir(k),
        build_gir, rows_of, "frontend", "unit_id", canon_saved=canon_saved_gir, reconcile=reconcile_unit_rows)
    add("ScopeHierarchyLoader", "_scope_hierarchy_loader",
        lambda L, k, v: L.save_unit_scope_hierarchy(k, v), lambda L, k: L.get_unit_scope_hierarchy(k),
        build_scope, rows_of, "semantic_p1", "unit_id",
        canon_saved=canon_scope_saved, reconcile=reconcile_unit_rows)
    add("UnitIDToExportSymbolsLoader", "_unit_id_to_export_symbols_loader",
        lambda L, k, v: L.save_unit_export_symbols(k, v), lambda L, k: L.get_unit_export_symbols(k),
        build_export_symbols, rows_of, "semantic_p1", "unit_id", canon_saved=canon_export_symbols_saved, reconcile=reconcile_unit_rows)
    add("UnitSymbolDeclSummaryLoader", "_symbol_name_to_scope_ids_loader",
        lambda L, k, v: L.save_unit_symbol_decl_summary(k, v), lambda L, k: L.get_unit_symbol_decl_summary(k),
        build_decl_summary, canon_decl_summary, "semantic_p1", "unit_id",
        attrs=["_symbol_name_to_scope_ids_loader", "_scope_id_to_symbol_info_loader", "_scope_id_to_available_scope_ids_loader"])
    add("SymbolNameToDeclIDsLoader", "_symbol_name_to_decl_ids_loader",
        lambda L, k, v: L.save_unit_symbol_name_to_decl_ids(k, v), lambda L, k: L.get_unit_symbol_name_to_decl_ids(k),
        build_name_to_ids, dict_of_sets, "semantic_p1", "unit_id")
    add("ClassIDToMembersLoader", "_class_id_to_members_loader",
        lambda L, k, v: L.save_class_id_to_members(k, v), lambda L, k: L._class_id_to_members_loader.get_item_by_id(k),
        build_class_members, dict_of_sets, "semantic_p2", "class_id")
    add("CFGLoader", "_cfg_loader",
        lambda L, k, v: L.save_method_cfg(k, v), lambda L, k: L.get_method_cfg(k),
        build_cfg, graph_canon, "semantic_p1", "method_id")
    for ph, kind in (("p1", "symbol"), ("p2", "symbol"), ("p3", "symbol")):
        add("BitVectorManagerLoader[symbol_%s]" % ph, "_symbol_bit_vector_manager_%s_loader" % ph,
            (lambda ph: lambda L, k, v: getattr(L, "save_symbol_bit_vector_" + ph)(k, v))(ph),
            (lambda ph: lambda L, k: getattr(L, "get_symbol_bit_vector_" + ph)(k))(ph),
            build_bit_vector(kind), canon_bit_vector, "semantic_" + ph, "method_id")
    for ph in ("p2", "p3"):
        add("BitVectorManagerLoader[state_%s]" % ph, "_state_bit_vector_manager_%s_loader" % ph,
            (lambda ph: lambda L, k, v: getattr(L, "save_state_bit_vector_" + ph)(k, v))(ph),
            (lambda ph: lambda L, k: getattr(L, "get_state_bit_vector_" + ph)(k))(ph),
            build_bit_vector("state"), canon_bit_vector, "semantic_" + ph, "method_id")
    for ph in ("p1", "p2", "p3"):
        add("StmtStatusLoader[%s]" % ph, "_stmt_status_%s_loader" % ph,
            (lambda ph: lambda L, k, v: getattr(L, "save_stmt_status_" + ph)(k, v))(ph),
            (lambda ph: lambda L, k: getattr(L, "get_stmt_status_" + ph)(k))(ph),
            build_stmt_status, dict_canon, "semantic_" + ph, "method_id")
    for nm, attr, sub in (("p1", "_symbol_state_space_p1_loader", "semantic_p1"), ("p2", "_symbol_state_space_p2_loader", "semantic_p2"),
                          ("summary_p2", "_symbol_state_space_summary_p2_loader", "semantic_p2"),
                          ("p3", "_symbol_state_space_p3_loader", "semantic_p3"),
                          ("summary_p3", "_symbol_state_space_summary_p3_loader", "semantic_p3")):
        add("SymbolStateSpaceLoader[%s]" % nm, attr,
            (lambda nm: lambda L, k, v: getattr(L, "save_symbol_state_space_" + nm)(k, v))(nm),
            (lambda nm: lambda L, k: getattr(L, "get_symbol_state_space_" + nm)(k))(nm),
            build_space, canon_space, sub, "method_id")
    for ph in ("p1", "p2", "p3"):
        add("MethodSymbolToDefinedLoader[%s]" % ph, "_defined_symbols_%s_loader" % ph,
            (lambda ph: lambda L, k, v: getattr(L, "save_method_defined_symbols_" + ph)(k, v))(ph),
            (lambda ph: lambda L, k: getattr(L, "get_method_defined_symbols_" + ph)(k))(ph),
            build_defined_symbols, dict_of_sets, "semantic_" + ph, "method_id")
    for ph in ("p1", "p2"):
        add("MethodStateToDefinedLoader[%s]" % ph, "_defined_states_%s_loader" % ph,
            (lambda ph: lambda L, k, v: getattr(L, "save_method_defined_states_" + ph)(k, v))(ph),
            (lambda ph: lambda L, k: getattr(L, "get_method_defined_states_" + ph)(k))(ph),
            build_defined_states, dict_of_sets, "semantic_" + ph, "method_id")
    add("MethodSymbolToUsedLoader", "_used_symbols_loader",
        lambda L, k, v: L.save_method_used_symbols(k, v), lambda L, k: L.get_method_used_symbols(k),
        build_used_symbols, dict_of_sets, "semantic_p1", "method_id")
    add("SymbolGraphLoader[p2]", "_symbol_graph_p2_loader",
        lambda L, k, v: L.save_method_symbol_graph_p2(k, v), lambda L, k: L.get_method_symbol_graph_p2(k),
        build_symbol_graph, graph_canon, "semantic_p2", "method_id")
    add("SymbolGraphLoader[p3]", "_symbol_graph_p3_loader",
        lambda L, k, v: L.save_method_symbol_graph_p3(k, v), lambda L, k: L._symbol_graph_p3_loader.get_item_by_id(k),
        build_symbol_graph, graph_canon, "semantic_p3", "method_id")
    add("StateFlowGraphLoader[p2]", "_state_flow_graph_p2_loader",
        lambda L, k, v: L.save_method_sfg(k, v.graph), lambda L, k: L.get_method_sfg(k),
        build_sfg, graph_canon, "semantic_p2", "method_id")
    add("StateFlowGraphLoader[p3]", "_state_flow_graph_p3_loader",
        lambda L, k, v: L.save_global_sfg_by_entry_point(k, v), lambda L, k: L.get_global_sfg_by_entry_point(k),
        build_sfg, graph_canon, "semantic_p3", "method_id")
    for ph in ("p2", "p3"):
        add("CalleeParameterMapping[%s]" % ph, "_callee_parameter_mapping_%s_loader" % ph,
            (lambda ph: lambda L, k, v: getattr(L, "save_parameter_mapping_" + ph)(k, v))(ph),
            (lambda ph: lambda L, k: getattr(L, "get_parameter_mapping_" + ph)(k))(ph),
            build_parameter_mapping, lambda o: ABSENT if o is None else norm(o), "semantic_p2", "hash_id",
            key=key_callsite, idval=lambda k: hash(k))
    return F


_FAMILIES = None


def families():
    global _FAMILIES
    if _FAMILIES is None:
        _FAMILIES = {f.name: f for f in _general_families()}
    return _FAMILIES


# ---------------------------------------------------------------------------------------------------
# independent file reader: expected key projection of an item's rows inside a bundle file

def _edge_rows_cfg(i, variant):
    g = build_cfg(i, variant)
    return sorted((int(u), int(v), int(w or 0)) for u, v, w in g.edges(data="weight", default=0))


FILEKEYS = {
    # family name prefix -> (columns, fn(i, variant) -> sorted list of tuples expected under those columns)
    "UnitGIRLoader": (["stmt_id", "operation"], lambda i, v: sorted((r["stmt_id"], r["operation"]) for r in build_gir(i, v))),
    "ScopeHierarchyLoader": (["stmt_id", "scope_kind"], lambda i, v: sorted((s.stmt_id, s.scope_kind) for s in build_scope(i, v))),
    "UnitIDToExportSymbolsLoader": (["symbol_id", "symbol_name"], lambda i, v: sorted((n.symbol_id, n.symbol_name) for n in build_export_symbols(i, v))),
    "SymbolNameToDeclIDsLoader": (["symbol_name"], lambda i, v: sorted((k,) for k in build_name_to_ids(i, v))),
    "ClassIDToMembersLoader": (["field_name"], lambda i, v: sorted((k,) for k in build_class_members(i, v))),
    "CFGLoader": (["src_stmt_id", "dst_stmt_id", "control_flow_type"], _edge_rows_cfg),
    "BitVectorManagerLoader": (["bit_pos"], lambda i, v: sorted((p,) for p in range(1, _n(v) + 1))),
    "StmtStatusLoader": (["stmt_id", "defined_symbol"], lambda i, v: sorted((s.stmt_id, s.defined_symbol) for s in build_stmt_status(i, v).values())),
    "SymbolStateSpaceLoader": (["index", "symbol_or_state"], lambda i, v: sorted((n, el.symbol_or_state) for n, el in enumerate(build_space(i, v).space))),
    "MethodSymbolToDefinedLoader": (["symbol_id"], lambda i, v: sorted((k,) for k in build_defined_symbols(i, v))),
    "MethodStateToDefinedLoader": (["state_id"], lambda i, v: sorted((k,) for k in build_defined_states(i, v))),
    "MethodSymbolToUsedLoader": (["symbol_id"], lambda i, v: sorted((k,) for k in build_used_symbols(i, v))),
    "SymbolGraphLoader": (["stmt_id", "edge_type"], lambda i, v: sorted(
        ((u if isinstance(u, int) else w_), t) for u, w_, t in build_symbol_graph(i, v).edges(data="weight"))),
    "StateFlowGraphLoader": ([], lambda i, v: [()] * _n(v)),
    "CalleeParameterMapping": (["parameter_symbol_id", "arg_index_in_space"], lambda i, v: sorted(
        (p.parameter_symbol_id, p.arg_index_in_space) for p in build_parameter_mapping(i, v))),
    "UnitSymbolDeclSummaryLoader": (["unit_id"], lambda i, v: [(i,)] * _n(v)),
}


def filekeys(fam):
    return FILEKEYS[fam.name.split("[")[0]]


def read_index_file(path):
    """item -> bundle id, read with pandas only. Keys: ints stay ints, 3-sequences become tuples."""
    import pandas as pd
    df = pd.read_feather(path)
    out = {}
    for item, bundle in zip(df["item_id"].tolist(), df["bundle_id"].tolist()):
        if hasattr(item, "tolist"):
            item = item.tolist()
        if isinstance(item, (list, tuple)):
            item = tuple(int(x) for x in item)
        elif isinstance(item, float) and item.is_integer():
            item = int(item)
        out[item] = int(bundle)
    return out


def index_key(fam, i):
    k = fam.key(i)
    return k.to_tuple() if hasattr(k, "to_tuple") else k


def check_files(L, fam, model, ever_saved=None):
    """After export + export_indexing: every item of `model` (i -> variant) must be found by an independent
    pandas reader in the bundle file that the index file names. Returns list of (class, detail, i)."""
    import pandas as pd
    problems = []
    stats = {"items": 0, "bundles": set()}
    orphan_checked = set()
    cols, fn = filekeys(fam)
    for attr in fam.attrs:
        gl = getattr(L, attr)
        ipath = gl.loader_indexing_path
        try:
            index = read_index_file(ipath)
        except Exception as e:
            for i in model:
                problems.append(("index-file-unreadable[%s]" % type(e).__name__, "%s: %s" % (ipath, str(e)[:200]), i))
            continue
        bundles = {}
        for i, variant in sorted(model.items()):
            stats["items"] += 1
            b = index.get(index_key(fam, i))
            if b is None:
                problems.append(("item-not-in-index-file", "item %r missing from %s" % (index_key(fam, i), os.path.basename(ipath)), i))
                continue
            if b < 0:
                problems.append(("index-names-no-bundle", "index file maps item %r to bundle %d" % (index_key(fam, i), b), i))
                continue
            stats["bundles"].add((attr, b))
            if b not in bundles:
                p = gl.get_bundle_path(b)
                try:
                    bundles[b] = pd.read_feather(p)
                except Exception as e:
                    bundles[b] = e
            df = bundles[b]
            if isinstance(df, Exception):
                problems.append(("bundle-file-unreadable[%s]" % type(df).__name__,
                                 "%s: %s" % (os.path.basename(gl.get_bundle_path(b)), str(df)[:200]), i))
                continue
            if ever_saved is not None and (attr, b) not in orphan_checked and fam.idcol in df.columns:
                orphan_checked.add((attr, b))
                try:
                    filed = {norm(x) for x in df[fam.idcol].tolist()}
                    orphans = sorted(x for x in filed if x not in ever_saved)
                except Exception:
                    orphans = []
                if orphans:
                    problems.append(("rows-filed-under-a-key-never-saved", "bundle %d holds rows under %s = %s; saved keys are %s"
                                     % (b, fam.idcol, orphans[:4], sorted(ever_saved)[:6]), i))
            want = fn(i, variant)
            if fam.idcol not in df.columns:
                if len(want) == 0:
                    continue
                problems.append(("rows-not-in-named-bundle", "bundle %d has no column %s" % (b, fam.idcol), i))
                continue
            sub = df[df[fam.idcol] == fam.idval(fam.key(i))]
            if attr != fam.attr or not cols:
                got = [()] * len(sub) if not cols or attr != fam.attr else None
                want_n = len(want)
                if len(sub) != want_n:
                    problems.append(("rows-not-in-named-bundle", "bundle %d holds %d rows of item %r, %d were saved"
                                     % (b, len(sub), index_key(fam, i), want_n), i))
                continue
            try:
                got = sorted(tuple(norm(x) for x in t) for t in sub[cols].itertuples(index=False, name=None))
            except Exception as e:
                problems.append(("rows-not-in-named-bundle", "cannot project %s: %s" % (cols, e), i))
                continue
            if got != [tuple(norm(x) for x in t) for t in want]:
                problems.append(("rows-not-in-named-bundle", "bundle %d rows of item %r under %s are %s, saved %s"
                                 % (b, index_key(fam, i), cols, str(got)[:160], str(want)[:160]), i))
    stats["bundles"] = len(stats["bundles"])
    return problems, stats


# ---------------------------------------------------------------------------------------------------
# history interpreter

UNSPEC = "<unspecified>"


def source_class(L, fam, key):
    """Where the next read of `key` will be served from (inspection only, used for signatures and coverage)."""
    gl = getattr(L, fam.attr)
    try:
        if gl.item_cache.contain(key):
            return "item-cache"
        b = gl.item_id_to_bundle_id.get(key, None)
        if b is None:
            return "unindexed"
        if b == -1:
            return "active-bundle"
        if gl.bundle_cache.contain(b):
            return "bundle-cache"
        return "bundle-file"
    except Exception:
        return "unknown"


class Capture:
    """Python-level stdout/stderr capture (lian reports through print / sys.stderr.write)."""

    def __enter__(self):
        import io
        self.buf = io.StringIO()
        self.old = (sys.stdout, sys.stderr)
        sys.stdout = sys.stderr = self.buf
        return self

    def __exit__(self, *a):
        sys.stdout, sys.stderr = self.old
        return False

    def text(self):
        return self.buf.getvalue()


def innermost_lian_frame(tb):
    name = "?"
    while tb is not None:
        fn = tb.tb_frame.f_code.co_filename
        if "/lian/" in fn:
            name = "%s:%s" % (os.path.basename(fn), tb.tb_frame.f_code.co_name)
        tb = tb.tb_next
    return name


def leaf_diff(a, b, path="", out=None):
    """Names of the leaf fields where two canonical forms differ (positions and numeric keys dropped)."""
    if out is None:
        out = set()
    if isinstance(a, dict) and isinstance(b, dict):
        for k in set(a) | set(b):
            if k not in a or k not in b:
                out.add(_fieldname(path, k) + ("?missing" if k not in a else "?extra"))
            else:
                leaf_diff(a[k], b[k], _fieldname(path, k), out)
        return out
    if isinstance(a, list) and isinstance(b, list):
        if len(a) != len(b):
            out.add((path or "item") + "#len")
            return out
        for x, y in zip(a, b):
            leaf_diff(x, y, path, out)
        return out
    if a != b:
        if type(a) != type(b) and not isinstance(a, (list, dict)) and not isinstance(b, (list, dict)) and str(a) == str(b):
            out.add((path or "item") + "~type")
        else:
            out.add(path or "item")
    return out


def _fieldname(path, k):
    if k.lstrip("-").isdigit():      # numeric dictionary keys (ids) are data, not field names
        return path
    return k


def is_empty_canon(c):
    if c == ABSENT:
        return False
    if isinstance(c, (list, dict)) and len(c) == 0:
        return True
    if isinstance(c, dict) and all(isinstance(v, (list, dict)) and len(v) == 0 for v in c.values()):
        return True
    if isinstance(c, list) and len(c) == 4 and all(isinstance(v, dict) and len(v) == 0 for v in c[1:]):
        return True     # decl summary: [unit_id, {}, {}, {}]
    return False


def row_membership(got, want):
    """For items that are lists of rows: which rows (identified by everything but the unit_id column) are missing from or
    foreign to the read. None when the row sets agree (or the values are no row lists)."""
    import collections
    if not (isinstance(got, list) and isinstance(want, list) and got + want and all(isinstance(r, dict) for r in got + want)):
        return None

    def ident(r):
        return json.dumps({k: v for k, v in r.items() if k != "unit_id"}, sort_keys=True, default=str)
    g, w = collections.Counter(ident(r) for r in got), collections.Counter(ident(r) for r in want)
    lost, gained = w - g, g - w
    if not lost and not gained:
        return None
    tags = []
    if lost:
        foreign = all(isinstance(r.get("unit_id"), dict) for r in want if ident(r) in lost)
        tags.append("rows-lost[%s]" % ("own-unit_id-differs-from-the-save-key" if foreign else "any"))
    if gained:
        tags.append("rows-of-another-save-gained")
    return "+".join(tags)


def stage_of(src, read):
    """The shortest operation sequence that reaches the place the wrong value came from."""
    if read == "freshget":
        return "save-export+index-restore-get"
    if src in ("item-cache", "active-bundle"):
        return "save-get"
    return "save-export-get"


class HistoryRun:
    """Interprets one history on the real loader with the dict model as oracle."""

    def __init__(self, fam, ws, cfg):
        self.fam = fam
        self.ws = ws
        self.cfg = cfg
        self.L = new_loader(ws)
        self.model = {}          # i -> variant | UNSPEC    (content a read must return)
        self.flushed = {}        # i -> True once an export happened after its last save
        self.snap = {}           # i -> variant | UNSPEC    (what the files promise since the last export_indexing)
        self.versions = {}       # i -> every variant saved so far, oldest first
        self.cache_survived_save = {}   # i -> the item cache still held the item right after its last save
        self.got_since_save = {}  # i -> was the item read since its last save (this loader)
        self.failures = []
        self.reads = 0
        self.sources = {}
        self.output = []
        self.nbundles = 0
        self.auto_exports = 0
        self.wm = install_write_monitor()
        self.nfail0 = len(self.wm.failed)

    def failed_write_of(self, L, i):
        """The recorded failure of lian's own write of the bundle that the index of L names for item i, if any."""
        try:
            gl = getattr(L, self.fam.attr)
            b = gl.item_id_to_bundle_id.get(self.fam.key(i), None)
            if b is None or b < 0:
                return None
            p = gl.get_bundle_path(b)
        except Exception:
            return None
        for f in reversed(self.wm.failed[self.nfail0:]):
            if f["path"] == p and not f["injected"]:
                return f
        return None

    def fail(self, cls, famname, triple, detail, i, step, **kw):
        d = {"class": cls, "signature": "%s:%s:%s" % (famname, triple, cls), "detail": detail, "id": i, "step": step}
        d.update(kw)
        self.failures.append(d)

    # -- operations -----------------------------------------------------------------------------
    def op_save(self, i, variant):
        fam = self.fam
        with Capture() as cap:
            fam.save(self.L, fam.key(i), fam.build(i, variant))
        self.output.append(cap.text())
        self.model[i] = variant
        self.flushed[i] = False
        self.versions.setdefault(i, []).append(variant)
        gl = getattr(self.L, fam.attr)
        try:
            # an item-cache entry that outlives the save of its item is, from now on, older than the item
            self.cache_survived_save[i] = bool(gl.item_cache.contain(fam.key(i)))
        except Exception:
            self.cache_survived_save[i] = False
        if gl.item_id_to_bundle_id.get(fam.key(i), None) not in (-1, None):
            # MAX_ROWS overflow: save() exported the active bundle itself
            self.auto_exports += 1
            for j in self.model:
                self.flushed[j] = True

    def read(self, L, i):
        """Returns (canonical form | ('raised', type, innermost lian function, message), source class)."""
        fam = self.fam
        src = source_class(L, fam, fam.key(i))
        self.sources[src] = self.sources.get(src, 0) + 1
        self.reads += 1
        with Capture() as cap:
            try:
                got = fam.canon(fam.get(L, fam.key(i)))
            except BaseException as e:
                if isinstance(e, KeyboardInterrupt):
                    raise
                got = ("raised", type(e).__name__, innermost_lian_frame(e.__traceback__), str(e)[:200])
        self.output.append(cap.text())
        return got, src

    def judge(self, i, want_variant, got, src, read, step, L=None):
        if want_variant == UNSPEC:
            return
        want = self.fam.expected(i, want_variant)
        got = self.fam.adjust(got, want)
        if got == want:
            return
        if src == "bundle-file":
            f = self.failed_write_of(L or self.L, i)
            if f is not None:
                return self.fail("feather-write-failed[%s]" % f["type"], self.fam.name.split("[")[0], "save-export",
                                 "the write of %s failed (%s); item %d cannot be read back: %s" % (
                                     os.path.basename(f["path"]), f["message"][:160], i, json.dumps(got, default=str)[:160]), i, step, source=src)
        self.classify(i, want_variant, want, got, src, read, step)

    def op_get(self, i, step):
        got, src = self.read(self.L, i)
        if i in self.model:
            self.judge(i, self.model[i], got, src, "get", step)

    def op_export(self):
        with Capture() as cap:
            for attr in self.fam.attrs:
                getattr(self.L, attr).export()
        self.output.append(cap.text())
        for j in self.model:
            self.flushed[j] = True

    def op_index(self):
        with Capture() as cap:
            for attr in self.fam.attrs:
                getattr(self.L, attr).export_indexing()
        self.output.append(cap.text())
        self.snap = {j: (self.model[j] if self.flushed.get(j) else UNSPEC) for j in self.model}

    def op_restore(self, step, adopt=True):
        with Capture() as cap:
            L2 = new_loader(self.ws)
            L2.restore()
        self.output.append(cap.text())
        for i in sorted(self.snap):
            got, src = self.read(L2, i)
            self.judge(i, self.snap[i], got, src, "freshget", step, L=L2)
        if adopt:
            self.L = L2
            self.model = dict(self.snap)
            self.flushed = {j: True for j in self.model}
            self.cache_survived_save = {}
        return L2

    def closing(self, step):
        """Every history ends with: read everything live, export + export_indexing, the independent file reader,
        read everything live again (now from bundles), and a fresh Loader(options).restore() read of everything."""
        for i in sorted(self.model):
            self.op_get(i, step)
        self.op_export()
        self.op_index()
        spec = {i: v for i, v in self.model.items() if v != UNSPEC}
        with Capture():
            problems, stats = check_files(self.L, self.fam, spec,
                                          ever_saved={norm(self.fam.idval(self.fam.key(j))) for j in self.versions})
        self.nbundles = stats["bundles"]
        famname = self.fam.name.split("[")[0]
        for cls, detail, i in problems:
            fn = famname
            if cls == "index-names-no-bundle" and spec.get(i) == "E":
                cls, fn = "empty-item-never-exported", "*"
            if cls.startswith("bundle-file-unreadable"):
                f = self.failed_write_of(self.L, i)
                if f is not None:
                    self.fail("feather-write-failed[%s]" % f["type"], famname, "save-export",
                              "the write of %s failed (%s); no file holds item %d" % (os.path.basename(f["path"]), f["message"][:160], i), i, step)
                    continue
            self.fail(cls, fn, "save-export+index-fileread", detail, i, step)
        for i in sorted(self.model):
            self.op_get(i, step)
        self.op_restore(step, adopt=False)

    # -- classification -------------------------------------------------------------------------
    def classify(self, i, want_variant, want, got, src, read, step):
        """Mechanism class of one wrong read, computed from the case alone (history, source of the read, values)."""
        fam = self.fam
        famname = fam.name.split("[")[0]
        stage = stage_of(src, read)
        wj = json.dumps(want, default=str)[:300]
        if isinstance(got, tuple) and got and got[0] == "raised":
            if is_empty_canon(want) and got[1] == "SystemExit":
                return self.fail("empty-item-read-quits", "*", "save-resave-export-get",
                                 "read of empty item %d (%s) raised SystemExit: %s" % (i, src, self.output[-1].strip()[:200]), i, step, source=src)
            return self.fail("read-raised[%s@%s]" % (got[1], got[2]), famname, stage,
                             "read of item %d (%s) raised %s: %s %s" % (i, src, got[1], got[3], self.output[-1].strip()[:200]), i, step, source=src)
        gj = json.dumps(got, default=str)[:300]
        detail = "item %d read from %s is %s, last saved %s" % (i, src, gj, wj)
        if got == ABSENT and is_empty_canon(want):
            if read == "freshget":
                return self.fail("empty-item-never-exported", "*", stage, detail, i, step, source=src)
            return self.fail("empty-item-reads-absent", "*", stage, detail, i, step, source=src)
        if got == ABSENT:
            return self.fail("item-lost[%s]" % src, famname, stage, detail, i, step, source=src)
        if got == LIST_NOT_ITEM and is_empty_canon(want):
            return self.fail("empty-item-reads-as-list", "*", "save-export-get", detail, i, step, source=src)
        if src == "item-cache" and read == "get" and self.cache_survived_save.get(i):
            return self.fail("stale-item-cache", "*", "save-get-resave-get", detail, i, step, source=src)
        # exactly an older saved version of the same item?
        vers = self.versions.get(i, [])
        for v in reversed(vers[:-1]):
            if v != want_variant and fam.matches(got, fam.expected(i, v)):
                return self.fail("stale-content[%s]" % src, famname, "save-resave-" + stage[5:], detail, i, step, source=src)
        if is_empty_canon(got) and not is_empty_canon(want):
            return self.fail("item-emptied", famname, stage, detail, i, step, source=src)
        for j in IDS:
            if j != i and any(fam.matches(got, fam.expected(j, v)) for v in ("A", "B")):
                return self.fail("other-items-content[%s]" % src, famname, stage, detail, i, step, source=src)
        rows = row_membership(got, want)
        if rows is not None:
            return self.fail(rows, famname, stage, detail, i, step, source=src)
        leaves = sorted(leaf_diff(got, want))
        self.fail("fields-differ[%s]" % ",".join(leaves[:6]), famname, stage, detail, i, step, source=src)


def run_history(fam_name, cfg, history, ws_root, keep=False, before_op=None):
    """Run one history (list of ops) for one family under cfg in a fresh workspace. Returns a plain dict."""
    fam = families()[fam_name]
    ws = make_workspace(os.path.join(ws_root, "ws"))
    configure(cfg)
    run = None
    crashed = None
    famname = fam.name.split("[")[0]
    try:
        run = HistoryRun(fam, ws, cfg)
        for step, op in enumerate(history):
            kind = op[0]
            try:
                if before_op:
                    before_op(run, step, op)
                if kind == "save":
                    run.op_save(op[1], op[2])
                elif kind == "get":
                    run.op_get(op[1], step)
                elif kind == "export":
                    run.op_export()
                elif kind == "index":
                    run.op_index()
                elif kind == "restore":
                    run.op_restore(step)
                else:
                    raise ValueError(kind)
            except BaseException as e:
                if isinstance(e, KeyboardInterrupt):
                    raise
                crashed = {"class": "op-raised", "signature": "%s:%s:op-raised[%s@%s]" % (
                    famname, kind, type(e).__name__, innermost_lian_frame(e.__traceback__)),
                    "detail": "%s raised %s: %s" % (op, type(e).__name__, str(e)[:200]), "id": op[1] if len(op) > 1 else 0, "step": step}
                break
        if crashed is None:
            try:
                run.closing(len(history))
            except BaseException as e:
                if isinstance(e, KeyboardInterrupt):
                    raise
                crashed = {"class": "op-raised", "signature": "%s:closing:op-raised[%s@%s]" % (
                    famname, type(e).__name__, innermost_lian_frame(e.__traceback__)),
                    "detail": "closing battery raised %s: %s" % (type(e).__name__, str(e)[:200]), "id": 0, "step": len(history)}
    finally:
        if not keep:
            shutil.rmtree(ws, ignore_errors=True)
    fails = list(run.failures) if run else []
    if crashed:
        fails.append(crashed)
    return {"failures": fails, "reads": run.reads if run else 0, "sources": run.sources if run else {},
            "bundles": run.nbundles if run else 0, "auto_exports": run.auto_exports if run else 0,
            "output": "".join(run.output)[-2000:] if run else ""}


# ---------------------------------------------------------------------------------------------------
# write monitor: every DataFrame.to_feather call, every exception it raises, every exception DataModel.save swallows;
# optional fault injection at the n-th call

TOKEN = "C15-injected-write-fault"


class _Tee:
    def __init__(self, under):
        self.under, self.parts = under, []

    def write(self, s):
        self.parts.append(s)
        return self.under.write(s)

    def flush(self):
        return self.under.flush()

    def __getattr__(self, name):
        return getattr(self.under, name)


class WriteMonitor:
    def __init__(self):
        self.calls = 0
        self.paths = []            # path of every to_feather call, in order
        self.failed = []           # dicts: path, type, message, injected
        self.swallowed = []        # failed writes after which DataModel.save returned normally: + printed text
        self.fail_at = None        # 1-based index of the call that must raise

    def failed_paths(self):
        return {f["path"] for f in self.failed}


_WM = None


def install_write_monitor():
    """Idempotent per process. Returns the monitor."""
    global _WM
    if _WM is not None:
        return _WM
    import pandas as pd
    import lian.util.data_model as dmod
    mon = WriteMonitor()
    orig_tf = pd.DataFrame.to_feather

    def to_feather(df, path, *a, **k):
        mon.calls += 1
        mon.paths.append(str(path))
        if mon.fail_at is not None and mon.calls == mon.fail_at:
            e = OSError(28, "No space left on device (%s)" % TOKEN)
            mon.failed.append({"path": str(path), "type": "OSError", "message": str(e), "injected": True})
            raise e
        try:
            return orig_tf(df, path, *a, **k)
        except Exception as e:
            mon.failed.append({"path": str(path), "type": type(e).__name__, "message": str(e), "injected": False})
            raise
    pd.DataFrame.to_feather = to_feather
    orig_save = dmod.DataModel.save

    def save(self, path):
        n = len(mon.failed)
        tee_o, tee_e = _Tee(sys.stdout), _Tee(sys.stderr)
        old = sys.stdout, sys.stderr
        sys.stdout, sys.stderr = tee_o, tee_e
        try:
            r = orig_save(self, path)
        finally:
            sys.stdout, sys.stderr = old
        if len(mon.failed) > n:        # the write raised and save() came back normally: it swallowed the exception
            f = dict(mon.failed[-1])
            f["printed"] = ("".join(tee_o.parts) + "".join(tee_e.parts))[-600:]
            f["reported"] = was_reported(f, f["printed"], raised=False)
            mon.swallowed.append(f)
        return r
    dmod.DataModel.save = save
    _WM = mon
    return mon


def was_reported(failure, output, raised):
    """A failed write counts as reported when an exception reached the caller or a diagnostic carrying the failure's
    own message (or at least its first 25 characters) was written to stdout/stderr."""
    if raised:
        return True
    msg = failure["message"].strip()
    if not msg:
        return False
    probe = msg if len(msg) <= 25 else msg[:25]
    return probe in output or TOKEN in output and failure.get("injected")


def run_fault_history(fam_name, cfg, history, ws_root, mode, n):
    """History with one write fault. mode 'raise': the n-th to_feather call raises OSError(ENOSPC);
    mode 'block': the path of the n-th write of the clean run is occupied by a directory (the native writer fails).
    Returns dict(outcome=..., ...). outcome in: no-fault-reached | reported | not-reported."""
    fam = families()[fam_name]
    mon = install_write_monitor()
    famname = fam.name.split("[")[0]
    state = {"calls0": mon.calls, "failed0": len(mon.failed)}
    ws = make_workspace(os.path.join(ws_root, "ws"))
    configure(cfg)
    result = {"outcome": "no-fault-reached", "failures": [], "lost_later": False, "writes": 0}
    try:
        run = HistoryRun(fam, ws, cfg)
        if mode == "raise":
            mon.fail_at = mon.calls + n
        else:
            # learn the n-th path from the deterministic layout: clean paths are passed in by the caller through n
            os.makedirs(n, exist_ok=True)
        fault = None
        ops = list(history) + [["export"], ["index"]]
        for step, op in enumerate(ops):
            before = len(mon.failed)
            raised = None
            with Capture() as cap:
                try:
                    kind = op[0]
                    if kind == "save":
                        run.op_save(op[1], op[2])
                    elif kind == "get":
                        if fault is None:
                            run.op_get(op[1], step)
                        else:
                            run.read(run.L, op[1])
                    elif kind == "export":
                        run.op_export()
                    elif kind == "index":
                        run.op_index()
                    elif kind == "restore":
                        if fault is not None:
                            break
                        run.op_restore(step)
                except BaseException as e:
                    if isinstance(e, KeyboardInterrupt):
                        raise
                    raised = e
            text = cap.text() + "".join(run.output[-3:])
            if len(mon.failed) > before and fault is None:
                fault = dict(mon.failed[before])
                fault["op"] = op[0]
                fault["reported"] = was_reported(fault, text, raised is not None)
                fault["raised"] = type(raised).__name__ if raised is not None else None
                fault["printed"] = text[-300:]
                mon.fail_at = None
                if raised is not None:
                    break
            elif raised is not None and fault is None:
                result["failures"].append({"signature": "%s:%s:op-raised[%s@%s]" % (famname, op[0], type(raised).__name__, innermost_lian_frame(raised.__traceback__)),
                                           "detail": "%s raised %s: %s" % (op, type(raised).__name__, str(raised)[:200])})
                break
        result["writes"] = mon.calls - state["calls0"]
        result["failures"] += [{"signature": f["signature"], "detail": f["detail"]} for f in run.failures]
        if fault is not None:
            # what a later reader sees (observation only: once the failure was reported nothing more is demanded)
            lost = []
            with Capture():
                for i in sorted(run.model):
                    if run.model[i] == UNSPEC:
                        continue
                    for L in (run.L,):
                        try:
                            got = fam.canon(fam.get(L, fam.key(i)))
                        except BaseException as e:
                            if isinstance(e, KeyboardInterrupt):
                                raise
                            got = "raised"
                        if got != "raised" and not fam.matches(got, fam.expected(i, run.model[i])):
                            lost.append(i)
                try:
                    L2 = new_loader(ws)
                    L2.restore()
                    for i in sorted(run.model):
                        if run.model[i] == UNSPEC:
                            continue
                        try:
                            got = fam.canon(fam.get(L2, fam.key(i)))
                        except BaseException as e:
                            if isinstance(e, KeyboardInterrupt):
                                raise
                            got = "raised"
                        if got != "raised" and not fam.matches(got, fam.expected(i, run.model[i])):
                            lost.append(i)
                except BaseException as e:
                    if isinstance(e, KeyboardInterrupt):
                        raise
            result["lost_later"] = bool(lost)
            result["fault"] = fault
            result["outcome"] = "reported" if fault["reported"] else "not-reported"
            if not fault["reported"]:
                result["failures"].append({
                    "signature": "%s:%s:write-failure-not-reported[%s]" % (famname, fault["op"], fault["type"]),
                    "detail": "the write of %s failed with %s (%s) during %s; no exception reached the caller and nothing naming it was printed%s"
                              % (os.path.basename(fault["path"]), fault["type"], fault["message"][:120], fault["op"],
                                 "; a later read silently returns other content for item(s) %s" % sorted(set(lost)) if lost else "")})
    finally:
        mon.fail_at = None
        shutil.rmtree(ws, ignore_errors=True)
    return result


# ---------------------------------------------------------------------------------------------------
# post-conditions that stay on while real analyses run (icontract.ensure with named conditions and explicit error=)

class ContractBroken(Exception):
    def __init__(self, name, detail, result):
        Exception.__init__(self, "%s: %s" % (name, detail))
        self.name, self.detail, self.result = name, detail, result


class ContractStats:
    def __init__(self):
        self.evaluated = {}
        self.failures = []

    def hit(self, name):
        self.evaluated[name] = self.evaluated.get(name, 0) + 1


_CS = None


def _lru_walk(cache):
    """ids in list order head -> tail, or None when the links are inconsistent."""
    out = []
    node = cache.head.next
    prev = cache.head
    guard = 0
    while node is not cache.tail:
        if node is None or node.prev is not prev:
            return None
        out.append(node._id)
        prev, node = node, node.next
        guard += 1
        if guard > len(cache.cache) + 2:
            return None
    if cache.tail.prev is not prev:
        return None
    return out


def install_contracts():
    """Attach post-conditions to LRUCache.get/put/remove and GeneralLoader.get_item_by_id / get_raw_item_by_id."""
    global _CS
    if _CS is not None:
        return _CS
    import collections
    import icontract
    from lian.util import util as lutil
    import lian.util.loader as lmod
    stats = ContractStats()
    shadows = {}      # id(cache) -> OrderedDict key -> last put value, least recently used first
    C = lutil.LRUCache

    def shadow(cache):
        sh = shadows.get(id(cache))
        if sh is None or sh[0] is not cache:
            sh = (cache, collections.OrderedDict((k, n._data) for k, n in ((k, cache.cache[k]) for k in (_lru_walk(cache) or []))))
            shadows[id(cache)] = sh
        return sh[1]

    # ---- condition functions (named; each counts its evaluations) ----
    def size_within_capacity(self):
        stats.hit("LRUCache: size <= capacity")
        return len(self.cache) <= self.capacity

    def list_matches_dict(self):
        stats.hit("LRUCache: linked list == dict")
        order = _lru_walk(self)
        return order is not None and len(order) == len(self.cache) and set(order) == set(self.cache) and \
            all(self.cache[k]._id == k for k in self.cache)

    def keys_follow_lru_rule(self):
        stats.hit("LRUCache: resident keys and order follow the LRU rule")
        return _lru_walk(self) == list(shadow(self).keys())

    def hit_returns_last_put(self, _id, result):
        stats.hit("LRUCache.get: a hit returns the last put, a miss None")
        sh = shadow(self)
        if _id in sh:
            return result is sh[_id]
        return result is None

    def err(name):
        def make(self, result):
            walk = _lru_walk(self)
            return ContractBroken(name, "capacity=%r resident=%r list=%r expected by the LRU rule=%r" % (
                getattr(self, "capacity", None), list(getattr(self, "cache", {}))[:6], "<broken links>" if walk is None else walk[:6],
                list(shadow(self).keys())[:6]), result)
        return make

    o_put, o_get, o_remove, o_clean = C.put, C.get, C.remove, C.clean

    def put_shadowed(self, _id, _data):
        sh = shadow(self)
        r = o_put(self, _id, _data)
        sh.pop(_id, None)
        sh[_id] = _data
        while len(sh) > self.capacity:
            sh.popitem(last=False)
        return r

    def get_shadowed(self, _id):
        sh = shadow(self)
        r = o_get(self, _id)
        if _id in sh:
            sh.move_to_end(_id)
        return r

    def remove_shadowed(self, _id):
        sh = shadow(self)
        r = o_remove(self, _id)
        sh.pop(_id, None)
        return r

    def clean_shadowed(self):
        r = o_clean(self)
        shadows.pop(id(self), None)
        return r

    put_c = icontract.ensure(size_within_capacity, error=err("LRUCache.put: size <= capacity"))(
        icontract.ensure(list_matches_dict, error=err("LRUCache.put: linked list == dict"))(
            icontract.ensure(keys_follow_lru_rule, error=err("LRUCache.put: LRU rule"))(put_shadowed)))
    get_c = icontract.ensure(hit_returns_last_put, error=err("LRUCache.get: hit returns last put"))(
        icontract.ensure(list_matches_dict, error=err("LRUCache.get: linked list == dict"))(
            icontract.ensure(keys_follow_lru_rule, error=err("LRUCache.get: LRU rule"))(get_shadowed)))
    remove_c = icontract.ensure(list_matches_dict, error=err("LRUCache.remove: linked list == dict"))(
        icontract.ensure(keys_follow_lru_rule, error=err("LRUCache.remove: LRU rule"))(remove_shadowed))

    def guard(fn):
        def guarded(self, *a, **k):
            try:
                return fn(self, *a, **k)
            except ContractBroken as e:
                if len(stats.failures) < 50:
                    stats.failures.append((e.name, e.detail))
                return e.result
        return guarded

    C.put, C.get, C.remove, C.clean = guard(put_c), guard(get_c), guard(remove_c), clean_shadowed

    # ---- GeneralLoader: an indexed item is readable; repeated reads agree; caches stay within capacity ----
    G = lmod.GeneralLoader
    o_raw = G.get_raw_item_by_id

    def indexed_item_is_found(self, _id, result):
        stats.hit("GeneralLoader.get_raw_item_by_id: an indexed item is found")
        b = self.item_id_to_bundle_id.get(_id, None)
        if b is None or (b == -1 and _id not in self.active_bundle):
            return True         # never saved here, or an index restored from files that names the unexported active bundle
        return result is not None

    def caches_within_capacity(self):
        stats.hit("GeneralLoader: item/bundle cache sizes <= capacity")
        return len(self.item_cache.cache) <= self.item_cache.capacity and len(self.bundle_cache.cache) <= self.bundle_cache.capacity

    def gerr(name):
        def make(self, _id, result):
            return ContractBroken(name, "%s item %r -> bundle %r" % (type(self).__name__, _id, self.item_id_to_bundle_id.get(_id, None)), result)
        return make

    raw_c = icontract.ensure(indexed_item_is_found, error=gerr("GeneralLoader.get_raw_item_by_id: indexed item found"))(
        icontract.ensure(caches_within_capacity, error=gerr("GeneralLoader: cache sizes <= capacity"))(o_raw))
    G.get_raw_item_by_id = guard(raw_c)
    _CS = stats
    return stats


# ---------------------------------------------------------------------------------------------------
# real analyses: what every GeneralLoader.save received, versus what the live loader and a fresh restored loader return

def _cfg_weight(w):
    return 0 if w is None else norm(w)      # "no label" is stored as 0 by CFGLoader/SymbolGraphLoader by design


def _rows_stamped(idcol):
    def canon(key, content):
        out = []
        for item in content:
            if isinstance(item, dict):
                d = dict(item)
            elif dataclasses.is_dataclass(item):
                d = {f.name: getattr(item, f.name) for f in dataclasses.fields(item)}
            elif hasattr(item, "symbol_name") and hasattr(item, "scope_id"):
                d = {"scope_id": item.scope_id, "symbol_type": item.symbol_type, "symbol_id": item.symbol_id, "symbol_name": item.symbol_name}
            else:
                d = dict(item.to_dict())
            d[idcol] = key
            out.append(row_dict(d))
        return out
    return canon


def _plain(fn):
    return lambda key, content: fn(content)


CANON_BY_CLASS = {
    # class name -> (canonical form of what save() received, canonical form of what get_item_by_id() returns)
    "UnitGIRLoader": (_rows_stamped("unit_id"), rows_of),
    "ScopeHierarchyLoader": (_rows_stamped("unit_id"), rows_of),
    "UnitIDToExportSymbolsLoader": (_rows_stamped("unit_id"), rows_of),
    "ClassIDToMethodInfoLoader": (_rows_stamped("unit_id"), rows_of),
    "ClassIDToMembersLoader": (_plain(dict_of_sets), dict_of_sets),
    "SymbolNameToScopeIDsLoader": (_plain(dict_of_sets), dict_of_sets),
    "ScopeIDToSymbolInfoLoader": (_plain(dict_canon), dict_canon),
    "ScopeIDToAvailableScopeIDsLoader": (_plain(dict_of_sets), dict_of_sets),
    "SymbolNameToDeclIDsLoader": (_plain(dict_of_sets), dict_of_sets),
    "CFGLoader": (_plain(lambda g: graph_canon(g, weight=_cfg_weight)), lambda g: graph_canon(g, weight=_cfg_weight)),
    "BitVectorManagerLoader": (_plain(canon_bit_vector), canon_bit_vector),
    "StmtStatusLoader": (_plain(dict_canon), dict_canon),
    "SymbolStateSpaceLoader": (_plain(canon_space), canon_space),
    "CalleeParameterMapping": (_plain(lambda o: norm(o)), lambda o: ABSENT if o is None else norm(o)),
    "MethodSymbolToDefinedLoader": (_plain(dict_of_sets), dict_of_sets),
    "MethodStateToDefinedLoader": (_plain(dict_of_sets), dict_of_sets),
    "MethodSymbolToUsedLoader": (_plain(dict_of_sets), dict_of_sets),
    "SymbolGraphLoader": (_plain(lambda g: graph_canon(g, weight=_cfg_weight)), lambda g: graph_canon(g, weight=_cfg_weight)),
    "StateFlowGraphLoader": (_plain(graph_canon), graph_canon),
}


class SaveRecorder:
    def __init__(self):
        self.saved = {}        # id(loader object) -> key -> canonical form of the content of the last save
        self.survived = {}     # id(loader object) -> key -> the item cache still held the key right after its last save
        self.count = 0
        self.uncanon = 0
        self.keep = []         # keep loader objects alive so that id() stays unique


_SR = None


def install_save_recorder():
    global _SR
    if _SR is not None:
        return _SR
    import lian.util.loader as lmod
    rec = SaveRecorder()
    G = lmod.GeneralLoader
    o_save = G.save

    def save(self, _id, item_content):
        fns = CANON_BY_CLASS.get(type(self).__name__)
        if fns is not None:
            try:
                c = fns[0](_id, item_content)
                if id(self) not in rec.saved:
                    rec.saved[id(self)] = {}
                    rec.keep.append(self)
                rec.saved[id(self)][_id] = c
                rec.count += 1
            except Exception:
                rec.uncanon += 1
        r = o_save(self, _id, item_content)
        try:
            rec.survived.setdefault(id(self), {})[_id] = bool(self.item_cache.contain(_id))
        except Exception:
            pass
        return r
    G.save = save
    _SR = rec
    return rec


def saved_digest(loader, rec):
    """attribute name -> {"class": loader class, "items": {repr(key): zlib(json of the canonical content its last save() received)}}
    for the GeneralLoader members."""
    import zlib
    import lian.util.loader as lmod
    out = {}
    for attr, gl in vars(loader).items():
        if isinstance(gl, lmod.GeneralLoader) and id(gl) in rec.saved:
            out[attr] = {"class": type(gl).__name__,
                         "items": {repr(k): zlib.compress(json.dumps(c, sort_keys=True, default=str).encode(), 6)
                                   for k, c in rec.saved[id(gl)].items()}}
    return out


def digest_difference(a, b):
    """Leaf names where two compressed canonical contents differ (None when equal)."""
    import zlib
    if a == b:
        return None
    if a is None or b is None:
        return ["item?missing"]
    x, y = json.loads(zlib.decompress(a)), json.loads(zlib.decompress(b))
    if x == y:
        return None
    return sorted(leaf_diff(x, y))[:6]


def classify_plain(famname, want, got, stage, src=""):
    """(class, detail) for a wrong read when no history is known (real runs)."""
    wj = json.dumps(want, default=str)[:240]
    if isinstance(got, tuple) and got and got[0] == "raised":
        if is_empty_canon(want) and got[1] == "SystemExit":
            return "*", "empty-item-read-quits", "read of an empty item raised SystemExit"
        return famname, "read-raised[%s@%s]" % (got[1], got[2]), "read raised %s: %s" % (got[1], got[3])
    gj = json.dumps(got, default=str)[:240]
    detail = "read returns %s, saved was %s" % (gj, wj)
    if got == ABSENT and is_empty_canon(want):
        return "*", "empty-item-never-exported" if stage != "save-get" else "empty-item-reads-absent", detail
    if got == ABSENT:
        return famname, "item-lost", detail
    if got == LIST_NOT_ITEM and is_empty_canon(want):
        return "*", "empty-item-reads-as-list", detail
    if is_empty_canon(got) and not is_empty_canon(want):
        return famname, "item-emptied", detail
    leaves = sorted(leaf_diff(got, want))
    return famname, "fields-differ[%s]" % ",".join(leaves[:6]), detail


def _safe_read(gl, key, canon):
    with Capture() as cap:
        try:
            return canon(gl.get_item_by_id(key))
        except BaseException as e:
            if isinstance(e, KeyboardInterrupt):
                raise
            return ("raised", type(e).__name__, innermost_lian_frame(e.__traceback__), (str(e) + " " + cap.text())[:200])


MAP_ATTRS_SKIP = {"path", "schema", "options", "EdgeNodePair", "import_graph_nodes_save_path", "import_deps_save_path"}


def _loose(x):
    """For the generic view of map loaders: missing values dropped, flat collections compared as multisets."""
    if isinstance(x, dict):
        return {k: _loose(v) for k, v in x.items() if v is not None}
    if isinstance(x, list):
        ys = [_loose(v) for v in x]
        if len(ys) == 2 and isinstance(ys[0], str) and isinstance(ys[1], dict):
            return ys          # ["ClassName", {fields}]
        return _sorted(ys)
    return x


def map_loader_view(obj):
    """Canonical view of the data attributes of a non-bundle loader (dicts, sets, lists, graphs, tables, scalars)."""
    import networkx as nx
    out = {}
    for k, v in vars(obj).items():
        if k in MAP_ATTRS_SKIP or k.endswith("_loader") or callable(v) and not hasattr(v, "_data"):
            continue
        try:
            if isinstance(v, nx.Graph):
                out[k] = graph_canon(v, attrs=True)
            elif hasattr(v, "graph") and isinstance(getattr(v, "graph"), nx.Graph):
                out[k] = graph_canon(v.graph, attrs=True)
            elif hasattr(v, "_data"):
                out[k] = rows_of(v)
            elif isinstance(v, dict):
                out[k] = {str(norm(a)): _loose(norm(b)) for a, b in v.items()}
            elif isinstance(v, (set, frozenset)):
                out[k] = norm(v)
            elif isinstance(v, list) and v and hasattr(v[0], "to_dict") and not dataclasses.is_dataclass(v[0]) and not hasattr(v[0], "_schema"):
                out[k] = [row_dict(x.to_dict()) for x in v]
            else:
                out[k] = _loose(norm(v))
        except Exception as e:
            out[k] = "<uncanonical %s>" % type(e).__name__
    return out


def compare_live_and_restored(app, rec, wm, max_fail=80):
    """After a real analysis: every item of every GeneralLoader member of the live loader, and of a fresh
    Loader(options).restore(), against the content its last save received. Returns plain data."""
    import lian.util.loader as lmod
    live = app.loader
    with Capture() as cap:
        fresh = lmod.Loader(app.options)
        fresh.restore()
    restore_output = cap.text()
    out = {"items_live": 0, "items_fresh": 0, "items_files": 0, "loaders": {}, "failures": [], "maps_compared": 0,
           "restore_output": restore_output[-600:], "bundles": 0}
    failed = wm.failed_paths() if wm else set()

    def add(sig, detail, extra=None):
        if len(out["failures"]) < max_fail:
            out["failures"].append((sig, detail, extra or {}))

    for attr, gl in sorted(vars(live).items()):
        if not isinstance(gl, lmod.GeneralLoader):
            continue
        cname = type(gl).__name__
        fns = CANON_BY_CLASS.get(cname)
        if fns is None:
            continue
        gf = getattr(fresh, attr)
        saved = rec.saved.get(id(gl), {}) if rec else {}
        survived = rec.survived.get(id(gl), {}) if rec else {}
        keys = list(gl.item_id_to_bundle_id.keys())
        info = out["loaders"].setdefault(attr, {"class": cname, "items": 0, "bundles": gl.bundle_count})
        out["bundles"] += gl.bundle_count
        # independent look at the files: the index file must name an existing, readable bundle for every item
        index = None
        if keys:
            try:
                index = read_index_file(gl.loader_indexing_path)
            except Exception as e:
                add("%s:real-run:index-file-unreadable[%s]" % (cname, type(e).__name__), "%s: %s" % (gl.loader_indexing_path, str(e)[:160]))
        readable = {}
        for key in keys:
            info["items"] += 1
            want = saved.get(key)
            bpath = gl.get_bundle_path(gl.item_id_to_bundle_id.get(key))
            wfail = bpath in failed
            if index is not None:
                out["items_files"] += 1
                ik = key.to_tuple() if hasattr(key, "to_tuple") else key
                b = index.get(ik)
                if b is None or b < 0:
                    if want is not None and is_empty_canon(want):
                        add("*:save-export+index-fileread:empty-item-never-exported", "%s item %r: index file maps it to %r" % (attr, ik, b))
                    else:
                        add("%s:real-run:index-names-no-bundle" % cname, "%s item %r: index file maps it to %r" % (attr, ik, b))
                else:
                    p = gl.get_bundle_path(b)
                    if p not in readable:
                        try:
                            import pandas as pd
                            readable[p] = len(pd.read_feather(p))
                        except Exception as e:
                            readable[p] = e
                    if isinstance(readable[p], Exception):
                        if p in failed:
                            f = [x for x in wm.failed if x["path"] == p][-1]
                            add("%s:save-export:feather-write-failed[%s]" % (cname, f["type"]),
                                "%s: the write of %s failed (%s) and the item exists in no file" % (attr, os.path.basename(p), f["message"][:160]))
                        else:
                            add("%s:real-run:bundle-file-unreadable[%s]" % (cname, type(readable[p]).__name__), "%s %s" % (p, str(readable[p])[:160]))
            try:
                in_cache_before = bool(gl.item_cache.contain(key))
            except Exception:
                in_cache_before = False
            got_live = _safe_read(gl, key, fns[1])
            out["items_live"] += 1
            got_fresh = _safe_read(gf, key, fns[1])
            out["items_fresh"] += 1
            if want is None:
                want = got_live if not (isinstance(got_live, tuple) and got_live[:1] == ("raised",)) else None
                if want is None:
                    continue
            for got, stage, label in ((got_live, "save-get", "live loader"), (got_fresh, "save-export+index-restore-get", "fresh restored loader")):
                if got == want:
                    continue
                if wfail and (stage != "save-get" or (isinstance(got, tuple) and got[:1] == ("raised",))):
                    f = [x for x in wm.failed if x["path"] == bpath][-1]
                    add("%s:save-export:feather-write-failed[%s]" % (cname, f["type"]),
                        "%s item %r: the write of %s failed (%s); the %s cannot return it" % (attr, key, os.path.basename(bpath), f["message"][:120], label))
                    continue
                fam, cls, detail = classify_plain(cname, want, got, stage)
                if cls == "item-lost":
                    cls = "item-lost[%s]" % ("unindexed" if key not in (gl if stage == "save-get" else gf).item_id_to_bundle_id else "indexed")
                sig_stage = stage
                if stage == "save-get" and survived.get(key) and in_cache_before:
                    fam, sig_stage, cls = "*", "save-get-resave-get", "stale-item-cache"
                elif cls == "empty-item-reads-as-list":
                    sig_stage = "save-export-get"       # one stage for every place it shows
                add("%s:%s:%s" % (fam, sig_stage, cls), "%s item %r, %s: %s" % (attr, key, label, detail))
    # non-bundle loaders: the live object's data against the restored object's data
    for attr, obj in sorted(vars(live).items()):
        if isinstance(obj, lmod.GeneralLoader) or not attr.startswith("_") or not hasattr(obj, "export"):
            continue
        if not hasattr(obj, "restore"):
            continue
        a, b = map_loader_view(obj), map_loader_view(getattr(fresh, attr))
        out["maps_compared"] += 1
        if a != b:
            leaves = sorted(k for k in set(a) | set(b) if a.get(k) != b.get(k))
            detail = "; ".join("%s: live %s restored %s" % (k, json.dumps(a.get(k), default=str)[:120], json.dumps(b.get(k), default=str)[:120]) for k in leaves[:3])
            # the map loaders are judged by their own save/export/restore histories; on real data the difference is
            # recorded as an observation, and only fails for a loader class those histories do not cover
            covered = {n.split("[")[0] for n in map_families()}
            out.setdefault("map_differences", []).append({"loader": attr, "class": type(obj).__name__, "attributes": leaves[:5], "detail": detail[:300]})
            if type(obj).__name__ not in covered:
                add("%s:save-export-restore-get:restored-differs[%s]" % (type(obj).__name__, ",".join(leaves[:5])), "%s: %s" % (attr, detail), {"attr": attr})
    return out


# ---------------------------------------------------------------------------------------------------
# in-memory map loaders (one file per loader, no caches, no bundles): save / export / restore histories

def _ids(i, variant, lo=1):
    base = 100 * i
    return {"A": [base + lo, base + lo + 1, base + lo + 2], "B": [base + lo + 1, base + lo + 8], "E": []}[variant]


class MapFamily:
    def __init__(self, name, attr, save, read, build, canon=norm, single=False, mode="replace", empties=True, update=None):
        self.name, self.attr, self.save, self.read, self.build, self.canon = name, attr, save, read, build, canon
        self.single = single        # one global item (id 1 only)
        self.mode = mode            # replace: the last save of an id wins; union: the item is the union of all saves
        self.empties = empties      # False: the loader defines a save of an empty collection as "nothing to record"
        self.update = update

    def ids(self):
        return (1,) if self.single else IDS

    def expected(self, versions):
        """versions: list of (i, variant) saved so far for this id (replace) / for all ids (union)."""
        raise NotImplementedError


def _build_methods_in_class(i, v):
    cs = _cs()
    return [cs.MethodInClass(unit_id=1, class_id=i, name="m%d" % k, stmt_id=k) for k in _ids(i, v)]


def _build_call_format(i, v):
    return {"A": {"unit_id": 1, "method_id": 50 + i, "stmt_id": i, "target_name": "%vv1", "target_symbol_id": 100 * i, "callee_name": "f",
                  "callee_symbol_id": -1, "positional_args": "[{'index': 0}]", "packed_positional_args": "[]", "packed_named_args": "[]", "named_args": "[]"},
            "B": {"unit_id": 1, "method_id": 50 + i, "stmt_id": i, "target_name": None, "target_symbol_id": 7, "callee_name": "g.h",
                  "callee_symbol_id": 100 * i + 3, "positional_args": "[]", "packed_positional_args": "[]", "packed_named_args": "[]", "named_args": "[{'k': 1}]"}}[v]


def _build_decl_format(i, v):
    return {"A": {"unit_id": 1, "method_id": i, "name": "f%d" % i, "data_type": "int", "parameters": "[{'stmt_id': 5, 'name': 'p', 'data_type': None}]"},
            "B": {"unit_id": 1, "method_id": i, "name": "g%d" % i, "data_type": None, "parameters": "[]"}}[v]


def _build_callees(i, v):
    cs = _cs()
    return {cs.MethodInternalCallee(method_id=i, callee_type=k % 3, stmt_id=k, callee_symbol_id=k + 1, callee_symbol_index=k % 5) for k in _ids(i, v)}


def _build_def_use(i, v):
    cs = _cs()
    ids = _ids(i, v)
    return cs.MethodDefUseSummary(method_id=i, parameter_symbol_ids={(k, -1) for k in ids[:2]}, local_symbol_ids=set(ids),
                                  defined_external_symbol_ids=set(ids[:1]), used_external_symbol_ids=set(ids[1:]),
                                  return_symbol_ids=set(ids[-1:]), this_symbol_id=(ids[0] if ids else -1))


def _build_template(i, v):
    cs = _cs()
    ids = _ids(i, v)
    return cs.MethodSummaryTemplate(key=i, parameter_symbols={k: {k + 1, k + 2} for k in ids[:2]},
                                    defined_external_symbols={k: {k + 3} for k in ids[:1]}, used_external_symbols={k: {k + 4} for k in ids[1:]},
                                    return_symbols={k: {k + 5} for k in ids[-1:]}, key_dynamic_content={}, dynamic_call_stmts=set(ids[:1]),
                                    this_symbols={k: {k + 6} for k in ids[:1]}, external_symbol_to_state={k: k + 7 for k in ids[:1]})


def _build_instance(i, v):
    cs = _cs()
    ids = _ids(i, v)
    return cs.MethodSummaryInstance(key=cs.CallSite(10 + i, 100 * i + 7, 20 + i), parameter_symbols={k: {k + 1} for k in ids[:2]},
                                    defined_external_symbols={k: {k + 3} for k in ids[:1]}, used_external_symbols={k: {k + 4} for k in ids[1:]},
                                    return_symbols={k: {k + 5} for k in ids[-1:]}, key_dynamic_content={}, dynamic_call_stmts=set(ids[:1]),
                                    this_symbols={})


def _canon_summary(s):
    if s is None:
        return ABSENT
    d = {f.name: norm(getattr(s, f.name)) for f in dataclasses.fields(s)}
    d.pop("raw_to_new_index", None)
    d.pop("index_to_default_value", None)
    return [type(s).__name__, d]


def _build_call_graph(i, v):
    cs = _cs()
    g = cs.CallGraph()
    ids = _ids(i, v)
    for a, b in zip(ids, ids[1:]):
        g.add_edge(a, b, a + 50)
    if ids:
        g.add_edge(ids[0], ids[-1], ids[0] + 60)
        g.add_edge(ids[0], ids[-1], ids[0] + 61)
    return g


def _build_call_paths(i, v):
    cs = _cs()
    ids = _ids(i, v)
    out = set()
    for k in range(len(ids)):
        out.add(cs.CallPath(tuple(cs.CallSite(a, a + 50, a + 1) for a in ids[:k + 1])))
    return out


def _build_grouped(i, v):
    cs = _cs()
    ids = _ids(i, v)
    return cs.SimplyGroupedMethodTypes(set(ids[:1]), set(ids[1:2]), set(ids[2:]), set(), {7} if v == "A" else set(), set())


def _build_import_graph(i, v):
    import networkx as nx
    cs = _cs()
    ids = _ids(i, v)
    g = nx.DiGraph()
    deps = nx.DiGraph()
    nodes = {}
    for k in ids:
        nodes[k] = cs.SymbolNodeInImportGraph(0, 10, k, "s%d" % k, 1)
    for a, b in zip(ids, ids[1:]):
        g.add_edge(a, b, weight=a % 3, site=a + 70, real_name="s%d" % b, symbol_type=10)
        deps.add_edge(a, b)
    return g, nodes, deps


def _save_import_graph(L, k, val):
    g, nodes, deps = val
    L.save_import_graph(g)
    L.save_import_graph_nodes(nodes)
    L.save_import_deps(deps)


def _read_import_graph(L, k):
    g = L.get_import_graph()
    if g is None:
        return None
    return (g, L.get_import_graph_nodes(), L.get_import_deps())


def _canon_import_graph(t):
    if t is None:
        return ABSENT
    g, nodes, deps = t
    ns = []
    for n in (nodes if nodes is not None else []):
        ns.append(norm(n) if not hasattr(n, "_schema") else ["ImportNode", norm(n.scope_id), norm(n.symbol_type), norm(n.symbol_id), norm(n.symbol_name),
                                                              norm(n.unit_id) if n.unit_id is not None else -1])
    return {"graph": graph_canon(g, attrs=True), "nodes": ns, "deps": ABSENT if deps is None else _sorted([[norm(a), norm(b)] for a, b in deps.edges])}


def _build_type_graph(i, v):
    cs = _cs()
    g = cs.BasicGraph()
    ids = _ids(i, v)
    for a, b in zip(ids, ids[1:]):
        g.add_edge(a, b, cs.TypeGraphEdge(parent_name="P%d" % b, name="C%d" % a, parent_pos=a % 2))
    return g


def _build_module_symbols(i, v):
    ids = _ids(i, v)
    rows = [{"module_id": 100, "symbol_name": "src", "unit_ext": None, "lang": None, "parent_module_id": 0, "symbol_type": 0, "unit_path": None, "hash": None}]
    for k in ids:
        rows.append({"module_id": k, "symbol_name": "u%d" % k, "unit_ext": ".py", "lang": "python", "parent_module_id": 100,
                     "symbol_type": 1, "unit_path": "/w/src/u%d.py" % k, "hash": "h%d" % k})
    return rows


def _one_to_many(name, attr, save, read, lo=1):
    return MapFamily(name, attr, lambda L, k, v: getattr(L, save)(k, v), lambda L, k: getattr(L, read)(k),
                     lambda i, v: list(_ids(i, v, lo)), canon=lambda o: norm(list(o)) if o is not None else ABSENT, empties=False)


def _map_families():
    F = []
    F.append(_one_to_many("UnitIDToMethodIDLoader", "_unit_id_to_method_id_loader", "save_unit_id_to_method_ids", "convert_unit_id_to_method_ids"))
    F.append(_one_to_many("UnitIDToClassIDLoader", "_unit_id_to_class_id_loader", "save_unit_id_to_class_ids", "convert_unit_id_to_class_ids"))
    F.append(_one_to_many("ClassIDToStmtIDLoader", "_class_id_to_stmt_id_loader", "save_class_id_to_stmt_ids", "convert_class_id_to_stmt_ids"))
    F.append(_one_to_many("MethodIDToStmtIDLoader", "_method_id_to_stmt_id_loader", "save_method_id_to_stmt_ids", "convert_method_id_to_stmt_ids"))
    F.append(_one_to_many("UnitIDToNamespaceIDLoader", "_unit_id_to_namespace_id_loader", "save_unit_id_to_namespace_ids", "convert_unit_id_to_namespace_ids"))
    F.append(_one_to_many("UnitIDToVariableIDLoader", "_unit_id_to_variable_id_loader", "save_unit_id_to_variable_ids", "convert_unit_id_to_variable_ids"))
    F.append(_one_to_many("UnitIDToImportStmtIDLoader", "_unit_id_to_import_stmt_id_loader", "save_unit_id_to_import_stmt_ids", "convert_unit_id_to_import_stmt_ids"))
    F.append(_one_to_many("MethodIDToParameterIDLoader", "_method_id_to_parameter_id_loader", "save_method_id_to_parameter_ids", "convert_method_id_to_parameter_ids"))
    F.append(_one_to_many("ClassIDToMethodIDLoader", "_class_id_to_method_id_loader", "save_class_id_to_method_ids", "convert_class_id_to_method_ids"))
    F.append(_one_to_many("ClassIDToFieldIDLoader", "_class_id_to_field_id_loader", "save_class_id_to_field_ids", "convert_class_id_to_field_ids"))
    F.append(MapFamily("UnitIDToStmtIDLoader", "_unit_id_to_stmt_id_loader", lambda L, k, v: L.save_unit_id_to_stmt_ids(k, v),
                       lambda L, k: L.convert_unit_id_to_stmt_ids(k),
                       lambda i, v: list(range(100 * i + 1, 100 * i + {"A": 6, "B": 3, "E": 1}[v])), canon=lambda o: norm(list(o)), empties=False))
    F.append(MapFamily("ClassIdToNameLoader", "_class_id_to_class_name_loader", lambda L, k, v: L.save_class_id_to_class_name(k, v),
                       lambda L, k: L.convert_class_id_to_class_name(k), lambda i, v: {"A": "Cls%d" % i, "B": "Other"}[v],
                       canon=lambda o: ABSENT if o is None or o == -1 else norm(o), empties=False))
    F.append(MapFamily("MethodIDToMethodNameLoader", "_method_id_to_method_name_loader", lambda L, k, v: L.save_method_id_to_method_name(k, v),
                       lambda L, k: L.convert_method_id_to_method_name(k), lambda i, v: {"A": "meth%d" % i, "B": "dup"}[v],
                       canon=lambda o: ABSENT if o is None or o == -1 else norm(o), empties=False))
    F.append(MapFamily("ClassIDToMethodsLoader", "_class_id_to_methods_loader", lambda L, k, v: L.save_methods_in_class(k, v),
                       lambda L, k: L.get_methods_in_class(k), _build_methods_in_class, canon=lambda o: norm(list(o)), empties=False))
    F.append(MapFamily("CallStmtIDToCallFormatInfoLoader", "_call_stmt_id_to_call_format_info_loader",
                       lambda L, k, v: L.save_stmt_id_to_call_stmt_format(k, v), lambda L, k: L.convert_stmt_id_to_call_stmt_format(k),
                       _build_call_format, canon=lambda o: ABSENT if o is None else row_dict(o if isinstance(o, dict) else o.to_dict()), empties=False))
    F.append(MapFamily("MethodIDToMethodDeclFormatLoader", "_method_id_to_method_decl_format_loader",
                       lambda L, k, v: L.save_method_id_to_method_decl_format(k, v), lambda L, k: L.convert_method_id_to_method_decl_format(k),
                       _build_decl_format, canon=lambda o: ABSENT if o is None else row_dict(o if isinstance(o, dict) else o.to_dict()), empties=False))
    F.append(MapFamily("ExternalSymbolIDCollectionLoader", "_external_symbol_id_collection_loader",
                       lambda L, k, v: L.save_method_external_symbol_id_collection(k, v), lambda L, k: L.get_method_external_symbol_id_collection(k),
                       lambda i, v: {"n%d" % k: -k for k in _ids(i, v)}, canon=lambda o: as_set(o) if not isinstance(o, dict) else as_set(list(o.values())),
                       ))
    F[-1].canon_saved = lambda val: as_set(list(val.values()))
    F.append(MapFamily("EntryPointsLoader", "_entry_points_loader", lambda L, k, v: L.save_entry_points(v), lambda L, k: L.get_entry_points(),
                       lambda i, v: set(_ids(i, v)), canon=as_set, single=False, mode="union"))
    F.append(MapFamily("MethodInternalCalleesLoader", "_method_internal_callees_loader", lambda L, k, v: L.save_method_internal_callees(k, v),
                       lambda L, k: L.get_method_internal_callees(k), _build_callees, canon=lambda o: ABSENT if o is None else as_set(o)))
    F.append(MapFamily("MethodDefUseSummaryLoader", "_method_def_use_summary_loader", lambda L, k, v: L.save_method_def_use_summary(k, v),
                       lambda L, k: L._method_def_use_summary_loader.method_summary_records.get(k), _build_def_use,
                       canon=lambda o: ABSENT if o is None else ["MethodDefUseSummary", {f.name: as_set(getattr(o, f.name)) for f in dataclasses.fields(o)}]))
    F.append(MapFamily("MethodSummaryLoader[template]", "_method_summary_template_loader", lambda L, k, v: L.save_method_summary_template(k, v),
                       lambda L, k: L.get_method_summary_template(k), _build_template, canon=_canon_summary))
    F.append(MapFamily("MethodSummaryLoader[instance]", "_method_summary_template_instance",
                       lambda L, k, v: L.save_method_summary_instance(hash(v.key), v), lambda L, k: L.get_method_summary_instance(hash(key_callsite(k))),
                       _build_instance, canon=_canon_summary))
    F.append(MapFamily("CallGraphLoader[p1]", "_classified_method_call_loader", lambda L, k, v: L.save_classified_method_call(v),
                       lambda L, k: L.get_classified_method_call(), _build_call_graph, canon=lambda g: ABSENT if g is None else graph_canon(g), single=True))
    F.append(MapFamily("CallGraphLoader[p2]", "_prelim_call_graph_loader", lambda L, k, v: L.save_call_graph_p2(v),
                       lambda L, k: L.get_call_graph_p2(), _build_call_graph, canon=lambda g: ABSENT if g is None else graph_canon(g), single=True))
    F.append(MapFamily("CallPathLoader", "_global_call_path_loader", lambda L, k, v: L.save_call_paths_p3(v),
                       lambda L, k: L.get_call_paths_p3(), _build_call_paths, canon=as_set, single=True))
    F.append(MapFamily("GroupedMethodsLoader", "_grouped_methods_loader", lambda L, k, v: L.save_grouped_methods(v),
                       lambda L, k: L.get_grouped_methods(), _build_grouped, single=True,
                       canon=lambda o: ABSENT if o is None else {f.name: as_set(getattr(o, f.name)) for f in dataclasses.fields(o)}))
    F.append(MapFamily("ImportGraphLoader", "_import_graph_loader", _save_import_graph, _read_import_graph, _build_import_graph,
                       canon=_canon_import_graph, single=True))
    F[-1].canon_saved = lambda val: _canon_import_graph((val[0], sorted(val[1].values(), key=lambda n: (n.unit_id, n.symbol_id)), val[2]))
    F.append(MapFamily("TypeGraphLoader", "_type_graph_loader", lambda L, k, v: L.save_type_graph(v), lambda L, k: L.get_type_graph(),
                       _build_type_graph, canon=lambda g: ABSENT if g is None else graph_canon(g), single=True))
    F.append(MapFamily("StmtIDToScopeIDLoader", "_stmt_id_to_scope_id_loader", lambda L, k, v: L.save_stmt_id_to_scope_id(v),
                       lambda L, k: {s: L._stmt_id_to_scope_id_loader.get(s) for s in range(100 * k, 100 * k + 12) if L._stmt_id_to_scope_id_loader.get(s) != -1},
                       lambda i, v: {s: s % 7 + {"A": 0, "B": 50}[v] for s in _ids(i, v)}, canon=dict_canon, mode="update", empties=False))
    F.append(MapFamily("UniqueSymbolIDAssignerLoader", "_unique_symbol_id_assigner_loader", lambda L, k, v: L.save_max_gir_id(v),
                       lambda L, k: (L.get_max_gir_id(), L._unique_symbol_id_assigner_loader.positive_symbol_id, L._unique_symbol_id_assigner_loader.negative_symbol_id),
                       lambda i, v: {"A": 1234, "B": 20001}[v], single=True, empties=False,
                       canon=lambda t: norm(t) if isinstance(t, tuple) else norm(t)))
    F[-1].canon_saved = lambda val: [val, (val + 10000 + 9999) // 10000 * 10000, -120]
    F.append(MapFamily("ModuleSymbolsLoader", "_module_symbols_loader", lambda L, k, v: L.save_module_symbols(v),
                       lambda L, k: L.get_module_symbol_table(), _build_module_symbols, canon=rows_of, single=True))
    F[-1].canon_saved = lambda val: [row_dict(r) for r in val]
    return F


_MAPS = None


def map_families():
    global _MAPS
    if _MAPS is None:
        _MAPS = {f.name: f for f in _map_families()}
    return _MAPS


def _map_expected(fam, saves, i):
    """saves: list of (id, variant) in order. Canonical content a read of id i must return; None = not judged."""
    mine = [(j, v) for j, v in saves if (j == i or fam.mode == "union")]
    if fam.single:
        mine = list(saves)
    if not mine:
        return None
    cs = getattr(fam, "canon_saved", None) or fam.canon
    if fam.mode == "union":
        u = set()
        for j, v in saves:
            u |= set(fam.build(j, v))
        return as_set(u)
    if fam.mode == "update":
        d = {}
        for j, v in saves:
            if j == i:
                d.update(fam.build(j, v))
        return dict_canon(d)
    j, v = mine[-1]
    return cs(fam.build(j, v))


def run_map_history(fam_name, history, ws_root):
    """history ops: ['save', i, variant] | ['export'] | ['restore']. Closing: read all live, export, fresh restore, read all."""
    fam = map_families()[fam_name]
    mon = install_write_monitor()
    ws = make_workspace(os.path.join(ws_root, "ws"))
    famname = fam.name.split("[")[0]
    failures = []
    reads = 0
    L = new_loader(ws)
    saves = []        # what the live loader was given
    exported = []     # what the files hold (saves at the time of the last export)
    nfail0 = len(mon.failed)
    out_text = []
    restored = False
    resaved = set()

    def fail(stage, cls, detail, i, step, fam_override=None):
        failures.append({"signature": "%s:%s:%s" % (fam_override or famname, stage, cls), "detail": detail, "id": i, "step": step})

    def read_all(Lx, model, stage0, step):
        nonlocal reads
        for i in fam.ids():
            want = _map_expected(fam, model, i)
            if want is None:
                continue
            stage = stage0
            if stage0 == "save-get" and restored and i not in resaved and not fam.single and fam.mode == "replace":
                stage = "save-export-restore-get"      # the live loader is a restored one and the item came from the files
            elif stage0 == "save-get" and restored and not resaved:
                stage = "save-export-restore-get"
            reads += 1
            with Capture() as cap:
                try:
                    got = fam.canon(fam.read(Lx, i))
                except BaseException as e:
                    if isinstance(e, KeyboardInterrupt):
                        raise
                    got = ("raised", type(e).__name__, innermost_lian_frame(e.__traceback__), str(e)[:200])
            out_text.append(cap.text())
            if got == want:
                continue
            wf = [f for f in mon.failed[nfail0:]]
            if stage != "save-get" and wf:
                f = wf[-1]
                fail("save-export", "feather-write-failed[%s]" % f["type"],
                     "the write of %s failed (%s); the restored loader returns %s for item %d" % (os.path.basename(f["path"]), f["message"][:140], json.dumps(got, default=str)[:120], i), i, step)
                continue
            fo, cls, detail = classify_plain(famname, want, got, stage)
            if is_empty_canon(want) or want in ([], {}) or (isinstance(want, dict) and all(v in ([], {}) for v in want.values())):
                cls = "empty-item-not-exported" if stage != "save-get" else "empty-item-reads-absent"
            fail(stage, cls, "item %d: %s" % (i, detail), i, step)

    def do_export():
        with Capture() as cap:
            L.export()          # the public operation: every loader the Loader knows, bundles and indexes
        out_text.append(cap.text())

    try:
        for step, op in enumerate(history):
            try:
                if op[0] == "save":
                    if op[2] == "E" and not fam.empties:
                        continue
                    with Capture() as cap:
                        fam.save(L, op[1], fam.build(op[1], op[2]))
                    out_text.append(cap.text())
                    saves.append((op[1], op[2]))
                    resaved.add(op[1])
                elif op[0] == "export":
                    do_export()
                    if saves:
                        exported = list(saves)
                elif op[0] == "restore":
                    with Capture() as cap:
                        L2 = new_loader(ws)
                        L2.restore()
                    out_text.append(cap.text())
                    read_all(L2, exported, "save-export-restore-get", step)
                    L, saves = L2, list(exported)
                    restored, resaved = True, set()
            except BaseException as e:
                if isinstance(e, KeyboardInterrupt):
                    raise
                if restored:
                    fail("restore-" + op[0], "restored-loader-cannot-continue", "%s on a restored loader raised %s at %s: %s" % (
                        op, type(e).__name__, innermost_lian_frame(e.__traceback__), str(e)[:160]), 0, step)
                else:
                    fail(op[0], "op-raised[%s@%s]" % (type(e).__name__, innermost_lian_frame(e.__traceback__)), "%s raised %s: %s" % (op, type(e).__name__, str(e)[:160]), 0, step)
                return {"failures": failures, "reads": reads}
        step = len(history)
        read_all(L, saves, "save-get", step)
        try:
            do_export()
            if saves:
                exported = list(saves)
            with Capture() as cap:
                L2 = new_loader(ws)
                L2.restore()
            out_text.append(cap.text())
            read_all(L2, exported, "save-export-restore-get", step)
        except BaseException as e:
            if isinstance(e, KeyboardInterrupt):
                raise
            if restored:
                fail("restore-export", "restored-loader-cannot-continue", "export on a restored loader raised %s at %s: %s" % (
                    type(e).__name__, innermost_lian_frame(e.__traceback__), str(e)[:160]), 0, step)
            else:
                fail("export", "op-raised[%s@%s]" % (type(e).__name__, innermost_lian_frame(e.__traceback__)), "closing export/restore raised %s: %s" % (type(e).__name__, str(e)[:160]), 0, step)
    finally:
        shutil.rmtree(ws, ignore_errors=True)
    return {"failures": failures, "reads": reads, "output": "".join(out_text)[-600:]}
