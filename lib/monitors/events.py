"""C17 monitor: registration-order / language-filter / blocking / data hand-over / flag-union rule of
EventManager.notify, checked online against a shadow registration table kept by the monitor itself.

The monitor wraps the public `register` (shadow table in call order, independent of how the manager stores
handlers), wraps every registered handler (entry/exit log) and wraps `notify`, after which the observed
invocation log is compared with the rule:

    for (langs, h) in shadow[event], in registration order:
        if event.lang in langs or ANY in langs:
            h must be the next invoked handler and must see in_data == current
            flags |= returned flags (SUCCESS added for any non-UNPROCESSED return)
            if flags request blocking of other handlers: nothing else runs
            if the handler processed the event (return != UNPROCESSED): current = out_data it left
    nothing else is invoked; notify returns flags
"""

SUCCESS, STOP_OTHER, STOP_REQ, INTERRUPT = 1, 2, 4, 8


class Stats:
    def __init__(self):
        self.notifies = 0
        self.invocations = 0
        self.failures = []       # (kind, detail)
        self.events_seen = {}    # event -> count
        self.blocked = 0
        self.handovers = 0
        self.filtered_out = 0
        self.registered = 0


def _norm_langs(langs):
    if isinstance(langs, str):
        return [langs]
    return list(langs)


def install(stats=None, strict_none=False):
    import lian.events.event_manager as em
    from lian.config import config
    EM = em.EventManager
    if getattr(EM, "_verif_wrapped", False):
        return EM._verif_stats
    stats = stats or Stats()
    o_init, o_register, o_notify = EM.__init__, EM.register, EM.notify
    ANY = config.ANY_LANG

    def init(self, *a, **k):
        self._verif_shadow = {}      # event -> [(langs, wrapped handler, original)]
        self._verif_stack = []
        self._verif_known = None
        self._verif_wrappers = {}
        o_init(self, *a, **k)

    def register(self, event, handler, langs=ANY):
        if self._verif_known is None:
            self._verif_known = set(self.event_handlers.keys())
        mgr = self

        def logged(data, _h=handler):
            frame = mgr._verif_stack[-1] if mgr._verif_stack else None
            rec = None
            if frame is not None and frame["data"] is data:
                rec = {"h": logged, "in": data.in_data, "ret": "<raised>", "out": None}
                frame["log"].append(rec)
            ret = _h(data)
            if rec is not None:
                rec["ret"] = ret
                rec["out"] = data.out_data
            return ret
        logged._verif_orig = handler
        # one wrapper per original callable (equal callables, e.g. two bound-method objects of one method, share it):
        # registering the same callable twice must reach the real register() as the same callable twice, otherwise
        # the monitor would hide what the manager does with repeated registrations
        try:
            logged = self._verif_wrappers.setdefault(handler, logged)
        except TypeError:
            pass
        if event in self._verif_known:
            self._verif_shadow.setdefault(event, []).append((_norm_langs(langs), logged))
            stats.registered += 1
        return o_register(self, event, logged, langs)

    def notify(self, data):
        frame = {"data": data, "log": [], "in0": data.in_data}
        self._verif_stack.append(frame)
        try:
            ret = o_notify(self, data)
        finally:
            self._verif_stack.pop()
        stats.notifies += 1
        stats.events_seen[data.event] = stats.events_seen.get(data.event, 0) + 1
        _judge(self, data, frame, ret)
        return ret

    def _judge(self, data, frame, ret):
        log = frame["log"]
        table = self._verif_shadow.get(data.event, [])
        flags = 0
        cur = frame["in0"]
        i = 0
        stopped = False
        names = lambda: [getattr(r["h"]._verif_orig, "__name__", "?") for r in log]
        for langs, h in table:
            if not (data.lang in langs or ANY in langs):
                stats.filtered_out += 1
                continue
            if i >= len(log):
                stats.failures.append(("handler-not-run", f"event {data.event} lang {data.lang}: registered matching handler "
                                       f"{getattr(h._verif_orig, '__name__', '?')} did not run; ran {names()}"))
                return
            rec = log[i]
            if rec["h"] is not h:
                stats.failures.append(("order", f"event {data.event} lang {data.lang}: expected "
                                       f"{getattr(h._verif_orig, '__name__', '?')} at position {i}, ran {names()}"))
                return
            if rec["in"] is not cur:
                stats.failures.append(("data-handover", f"event {data.event}: handler #{i} saw in_data that is not what the "
                                       f"previous successful handler left"))
                return
            i += 1
            stats.invocations += 1
            r = rec["ret"]
            if r is not None and r != "<raised>":
                if r != 0:
                    flags |= SUCCESS
                flags |= (r & (STOP_OTHER | STOP_REQ | INTERRUPT))
            if flags & STOP_OTHER:
                stopped = True
                stats.blocked += 1
                break
            if r is None:
                # the statement does not say whether a None return hands data over; accept either
                if strict_none:
                    cur = rec["out"]
                else:
                    nxt = log[i]["in"] if i < len(log) else None
                    cur = rec["out"] if (nxt is rec["out"]) else cur
            elif r != 0:
                if rec["out"] is not cur:
                    stats.handovers += 1
                cur = rec["out"]
        if i != len(log):
            why = "after a blocking handler" if stopped else "not selected by language/registration"
            stats.failures.append(("extra-handler", f"event {data.event} lang {data.lang}: {len(log) - i} handler(s) ran {why}: {names()}"))
            return
        if ret != flags:
            stats.failures.append(("flags", f"event {data.event}: notify returned {ret}, union of returned flags is {flags}"))

    EM.__init__, EM.register, EM.notify = init, register, notify
    EM._verif_wrapped = True
    EM._verif_stats = stats
    return stats
