"""C19 monitor: a prefix-free-set reference model shadowing every real PathManager.

The model is the statement of the property made executable:
  add(p)    accepted iff p has no invalid (negative) call site, p is not stored, and no stored q has p as a
            proper prefix; on accept every stored proper prefix of p is dropped and p inserted
  remove(p) accepted iff p is stored
  exists(p) iff p is stored
After every operation the real object's view (`paths`), its trie's view (`trie.paths`) and the set of
terminal nodes actually reachable in the trie must all equal the model's store."""


def to_key(path):
    return tuple(cs.to_tuple() for cs in path.path)


class Model:
    def __init__(self):
        self.store = set()

    @staticmethod
    def valid(p):
        return all(x >= 0 for cs in p for x in cs)

    def add(self, p):
        if not self.valid(p) or p in self.store:
            return False
        n = len(p)
        for q in self.store:
            if len(q) > n and q[:n] == p:
                return False
        for q in [q for q in self.store if len(q) < n and p[:len(q)] == q]:
            self.store.discard(q)
        self.store.add(p)
        return True

    def remove(self, p):
        if p in self.store:
            self.store.discard(p)
            return True
        return False

    def exists(self, p):
        return p in self.store


def trie_terminals(trie):
    out = set()
    stack = [((), trie.root)]
    while stack:
        prefix, node = stack.pop()
        if node.is_terminal:
            out.add(prefix)
        for elem, child in node.children.items():
            stack.append((prefix + (elem.to_tuple(),), child))
    return out


def compare(pm, model):
    """Return None or a short description of the first disagreement between real store and model."""
    real = {to_key(p) for p in pm.paths}
    if real != model.store:
        lost = sorted(model.store - real)
        extra = sorted(real - model.store)
        return f"paths differ: missing={lost[:3]} unexpected={extra[:3]}"
    if len(real) != len(pm.paths):
        return "a path is stored twice"
    tri = {to_key(p) for p in pm.trie.paths}
    if tri != real:
        return f"trie.paths != manager.paths ({sorted(tri ^ real)[:3]})"
    term = trie_terminals(pm.trie)
    if term != real:
        return f"terminal trie nodes != paths ({sorted(term ^ real)[:3]})"
    for p in real:
        if not Model.valid(p):
            return f"stored path with invalid call site {p}"
    lst = sorted(real)
    for a in lst:
        for b in lst:
            if len(a) < len(b) and b[:len(a)] == a:
                return f"stored path {a} is a proper prefix of stored path {b}"
    return None


class Stats:
    def __init__(self):
        self.ops = 0
        self.instances = 0
        self.failures = []   # (op, arg, description)
        self.max_store = 0


def install(stats=None):
    """Wrap the real PathManager so that every instance created afterwards carries a shadow model.
    Used inside real pipeline runs (the same oracle as the history checks)."""
    from lian import common_structs as cs
    stats = stats or Stats()
    PM = cs.PathManager
    if getattr(PM, "_verif_wrapped", False):
        return PM._verif_stats
    o_init, o_add, o_rem, o_ex = PM.__init__, PM.add_path, PM.remove_path, PM.path_exists

    def init(self, *a, **k):
        o_init(self, *a, **k)
        self._verif_model = Model()
        stats.instances += 1

    def _after(self, op, arg, got, want):
        stats.ops += 1
        if bool(got) != bool(want):
            stats.failures.append((op, arg, f"{op} returned {got}, model says {want}"))
        d = compare(self, self._verif_model)
        if d:
            stats.failures.append((op, arg, d))
        stats.max_store = max(stats.max_store, len(self._verif_model.store))

    def add_path(self, new_path):
        got = o_add(self, new_path)
        if isinstance(new_path, cs.CallPath):
            k = to_key(new_path)
            _after(self, "add", k, got, self._verif_model.add(k))
        return got

    def remove_path(self, p):
        got = o_rem(self, p)
        if isinstance(p, cs.CallPath):
            k = to_key(p)
            _after(self, "remove", k, got, self._verif_model.remove(k))
        return got

    def path_exists(self, p):
        got = o_ex(self, p)
        if isinstance(p, cs.CallPath):
            k = to_key(p)
            _after(self, "exists", k, got, self._verif_model.exists(k))
        return got

    PM.__init__, PM.add_path, PM.remove_path, PM.path_exists = init, add_path, remove_path, path_exists
    PM._verif_wrapped = True
    PM._verif_stats = stats
    return stats
