"""Compensation switch "worklist-order" (DESIGN §3.7) for C08.

lian analyses every statement a bounded number of times and hands statements out in a reverse DFS post-order in which
the code after a loop precedes the loop body (and a re-queued loop header is handed out again at once).  Statements
after a loop, the other branch inside a loop body, and callee frames (analysed once, with first-visit arguments) can
thereby spend their visits before the loop has produced anything: values are missing without an unknown state.  The
proposed repair /verif/proposed/C08-worklist-order.diff is not merged; this module applies the same scheduling to
`lian.common_structs.SimpleWorkList` inside a forked child, so that a failing case can be re-judged with exactly this
mechanism compensated.  A case is attributed to the mechanism iff its failure disappears under the switch; whatever
remains is judged on its own.  Nothing else of lian is touched; if the tree already schedules this way the switch is a
no-op."""
import heapq


def install():
    import lian.common_structs as cs
    from lian.config.constants import CONTROL_FLOW_KIND
    WL = cs.SimpleWorkList
    if hasattr(WL, "_init_requeue_priority"):
        return False                     # the tree already has the repair
    orig_init = WL.__init__
    orig_pop = WL.pop

    def ordered_successors(graph, node):
        body, others = [], []
        for succ in graph.successors(node):
            data = graph.get_edge_data(node, succ) or {}
            weights = [d.get("weight") for d in data.values()] if graph.is_multigraph() else [data.get("weight")]
            (body if CONTROL_FLOW_KIND.LOOP_TRUE in weights else others).append(succ)
        return others + body

    def postorder_exit_edges_first(graph, entry):
        order, visited = [], {entry}
        stack = [(entry, iter(ordered_successors(graph, entry)))]
        while stack:
            node, succs = stack[-1]
            for s in succs:
                if s not in visited:
                    visited.add(s)
                    stack.append((s, iter(ordered_successors(graph, s))))
                    break
            else:
                stack.pop()
                order.append(node)
        return order

    def init(self, init_data=[], graph=None, entry_node=None):
        orig_init(self, init_data, graph, entry_node)
        self.requeue_priority = {}
        self.handed_out = set()
        if not (self.graph is not None and self.priority_dict):
            return
        if not entry_node:
            import lian.util.util as util
            first = list(sorted(util.find_graph_nodes_with_zero_in_degree(self.graph)))
            entry_node = first[0] if first else None
        if entry_node is None:
            return
        pending = [item for _, item in self.work_list] if self.work_list and isinstance(self.work_list[0], tuple) else []
        order = list(reversed(postorder_exit_edges_first(self.graph, entry_node)))
        self.priority_dict = {node: idx for idx, node in enumerate(order)}
        for tail, header, weight in self.graph.edges(data="weight"):
            if weight != CONTROL_FLOW_KIND.LOOP_BACK or tail == header:
                continue
            hp = self.priority_dict.get(header)
            if hp is None:
                continue
            body, stack = set(), [tail]
            while stack:
                n = stack.pop()
                if n in body or n == header or self.priority_dict.get(n, -1) <= hp:
                    continue
                body.add(n)
                stack.extend(self.graph.predecessors(n))
            if body:
                last = max(self.priority_dict[n] for n in body) + 0.5
                self.requeue_priority[header] = max(self.requeue_priority.get(header, last), last)
        if pending:                       # re-rank what the original constructor queued
            self.work_list = [(self.priority_dict.get(i, 0), i) for i in pending]
            heapq.heapify(self.work_list)

    def add_with_priority(self, item):
        if item not in self.all_data:
            if self.priority_dict:
                pr = self.priority_dict.get(item, 0)
                if item in getattr(self, "handed_out", ()):
                    pr = self.requeue_priority.get(item, pr)
                heapq.heappush(self.work_list, (pr, item))
            else:
                self.work_list.append(item)
            self.all_data.add(item)

    def pop(self):
        r = orig_pop(self)
        if r is not None and self.priority_dict:
            self.handed_out.add(r)
        return r

    WL.__init__ = init
    WL._add_with_priority = add_with_priority
    WL.pop = pop
    return True
