"""C16 monitor: every DataModel query is compared, at the API boundary, with a naive scan of the table's
*current* rows (a list of (label, dict) built freshly from the live frame by an independent path).

`battery(dm)` runs every query on a DataModel and returns the list of disagreements.
`install()` wraps the real query methods so the same oracle runs while the real pipeline executes."""
import math


def missing(v):
    if v is None:
        return True
    try:
        if isinstance(v, float) or hasattr(v, "dtype"):
            return bool(v != v)
    except Exception:
        pass
    try:
        import pandas as pd
        if v is pd.NA or v is pd.NaT:
            return True
    except Exception:
        pass
    return False


def same(a, b):
    if missing(a) and missing(b):
        return True
    if missing(a) or missing(b):
        return False
    try:
        return bool(a == b)
    except Exception:
        return False


def scan(dm):
    """The naive list-of-dicts view of the current contents: [(label, {column: value})] in row order."""
    df = dm._data
    cols = list(df.columns)
    labels = list(df.index)
    rows = []
    for pos in range(len(df)):
        rec = {}
        for ci, c in enumerate(cols):
            rec[c] = df.iat[pos, ci]
        rows.append((labels[pos], rec))
    return cols, rows


def row_matches(row_obj, label_or_pos, rec, cols, check_index=None):
    """A returned Row must carry exactly the scanned values."""
    try:
        raw = list(row_obj.raw_data())
    except Exception:
        return False
    if len(raw) != len(cols):
        return False
    for c, v in zip(cols, raw):
        if not same(v, rec[c]):
            return False
    if check_index is not None and row_obj.get_index() != check_index:
        return False
    return True


def expected_positions(rows, col, value):
    return [i for i, (_, rec) in enumerate(rows) if not missing(rec[col]) and same(rec[col], value)]


def battery(dm, probes=(), subset="full"):
    """Run the query battery; return [(query name, detail)] for every disagreement with the scan.
    subset: 'indexed' = only equality-on-indexed-column queries, 'rows' = only positional/iteration, 'full'."""
    out = []
    cols, rows = scan(dm)
    n = len(rows)
    count = [0]

    def bad(q, detail):
        out.append((q, detail))

    if subset in ("indexed", "full"):
        for c in cols:
            vals = []
            for _, rec in rows:
                v = rec[c]
                if not missing(v) and not any(same(v, w) for w in vals):
                    vals.append(v)
            for p in probes:
                if not any(same(p, w) for w in vals):
                    vals.append(p)
            for v in vals:
                if isinstance(v, str) and v == "":
                    continue          # '' is "missing" by the table's own convention (util.isna)
                pyv = v.item() if hasattr(v, "item") else v
                want = expected_positions(rows, c, pyv)
                count[0] += 1
                try:
                    got = list(dm.query_index_column_value_indices(c, pyv))
                except SystemExit:
                    got = "SystemExit"
                if got != want:
                    bad("query_index_column_value_indices", f"column {c!r} value {pyv!r}: got {got}, scan says {want}")
                    continue
                if any((not isinstance(p, (int,)) and not hasattr(p, "__index__")) or p < 0 or p >= n for p in got):
                    bad("query_index_column_value_indices", f"invalid position in {got} for table of {n} rows")
                count[0] += 1
                first = dm.query_index_column_value_first(c, pyv)
                if want:
                    if first is None or not row_matches(first, want[0], rows[want[0]][1], cols, check_index=want[0]):
                        bad("query_index_column_value_first", f"column {c!r} value {pyv!r}: got {first}, scan says row {want[0]} {rows[want[0]][1]}")
                elif first is not None:
                    bad("query_index_column_value_first", f"column {c!r} value {pyv!r}: got {first}, scan says no row")
                count[0] += 1
                sub = dm.query_index_column_value(c, pyv)
                if want:
                    try:
                        scols, srows = scan(sub)
                        ok = (scols == cols and len(srows) == len(want) and
                              all(all(same(srows[k][1][cc], rows[w][1][cc]) for cc in cols) for k, w in enumerate(want)))
                    except Exception:
                        ok = False
                    if not ok:
                        bad("query_index_column_value", f"column {c!r} value {pyv!r}: rows differ from scan rows {want}")
                elif len(sub) != 0:
                    bad("query_index_column_value", f"column {c!r} value {pyv!r}: got {len(sub)} rows, scan says none")
                count[0] += 1
                try:
                    col = dm.access_column(c)
                    bs = sorted(int(x) for x in col.bundle_search(pyv))
                    if bs != want:
                        bad("Column.bundle_search", f"column {c!r} value {pyv!r}: got {bs}, scan says {want}")
                except Exception as e:
                    bad("Column.bundle_search", f"column {c!r} value {pyv!r}: raised {type(e).__name__}: {e}")
        if "stmt_id" in cols:
            ids = []
            for _, rec in rows:
                v = rec["stmt_id"]
                if not missing(v) and not any(same(v, w) for w in ids):
                    ids.append(v)
            for v in ids + [987654]:
                pyv = v.item() if hasattr(v, "item") else v
                want = expected_positions(rows, "stmt_id", pyv)
                count[0] += 1
                got = dm.search_block_start_end_indics(pyv)
                if list(got) != want:
                    bad("search_block_start_end_indics", f"block {pyv!r}: got {list(got)}, scan says {want}")
                if len(want) == 2:
                    count[0] += 1
                    blk = dm.read_block(pyv)
                    inner = list(range(want[0] + 1, want[1]))
                    try:
                        bcols, brows = scan(blk)
                        ok = (len(brows) == len(inner) and
                              all(all(same(brows[k][1][cc], rows[w][1][cc]) for cc in cols) for k, w in enumerate(inner)))
                    except Exception:
                        ok = False
                    if not ok:
                        bad("read_block", f"block {pyv!r}: rows differ from scan rows {inner}")
                    count[0] += 1
                    blk2 = dm.read_block_with_block_stmts(pyv)
                    try:
                        bcols, brows = scan(blk2)
                        inner2 = list(range(want[0], want[1] + 1))
                        ok = (len(brows) == len(inner2) and
                              all(all(same(brows[k][1][cc], rows[w][1][cc]) for cc in cols) for k, w in enumerate(inner2)))
                    except Exception:
                        ok = False
                    if not ok:
                        bad("read_block_with_block_stmts", f"block {pyv!r}: rows differ from scan")
            count[0] += 1
            want_b = max([-1] + [p for v in ids for p in expected_positions(rows, "stmt_id", v)])
            got_b = dm.boundary_of_multi_blocks([v.item() if hasattr(v, "item") else v for v in ids])
            if got_b != want_b:
                bad("boundary_of_multi_blocks", f"got {got_b}, scan says {want_b}")

    if subset in ("rows", "full"):
        count[0] += 1
        if len(dm) != n:
            bad("__len__", f"got {len(dm)}, scan says {n}")
        for pos in range(-1, n + 1):
            count[0] += 1
            r = dm.access(pos)
            if 0 <= pos < n:
                if r is None or not row_matches(r, pos, rows[pos][1], cols, check_index=rows[pos][0]):
                    bad("access", f"position {pos}: got {r}, scan says {rows[pos]}")
                elif r is not None:
                    # the Row's own view by column name (name -> position schema of the table): every current column is
                    # there, under its current name, with the scanned value
                    count[0] += 1
                    try:
                        d = r.to_dict()
                        okd = set(d) == set(cols) and all(same(d[c], rows[pos][1][c]) for c in cols)
                    except Exception as e:
                        okd, d = False, f"raised {type(e).__name__}: {e}"
                    if not okd:
                        bad("Row.to_dict", f"position {pos}: got {d}, scan says {rows[pos][1]}")
                    else:
                        for c in cols:
                            if isinstance(c, str) and c.isidentifier() and not c.startswith("_"):
                                count[0] += 1
                                if c not in r:
                                    bad("Row.__contains__", f"position {pos}: column {c!r} of the table is not in the row")
                                elif not same(getattr(r, c), rows[pos][1][c]):
                                    bad("Row.__getattr__", f"position {pos} column {c!r}: got {getattr(r, c)!r}, scan says {rows[pos][1][c]!r}")
            elif r is not None:
                bad("access", f"position {pos} outside the table returned {r}")
        count[0] += 1
        it = list(dm)
        if len(it) != n or not all(row_matches(r, i, rows[i][1], cols, check_index=rows[i][0]) for i, r in enumerate(it)):
            bad("__iter__", f"iteration yields {it}, scan says {[r for _, r in rows]}")
        count[0] += 1
        gr = dm.get_rows()
        if len(gr) != n or not all(all(same(gr[i][ci], rows[i][1][c]) for ci, c in enumerate(cols)) for i in range(n)):
            bad("get_rows", "row matrix differs from scan")
        for c in cols:
            count[0] += 1
            colv = list(dm.access_column(c))
            if len(colv) != n or not all(same(colv[i], rows[i][1][c]) for i in range(n)):
                bad("access_column", f"column {c!r}: got {colv}")
            count[0] += 1
            colv2 = list(dm[c]._column_data)
            if len(colv2) != n or not all(same(colv2[i], rows[i][1][c]) for i in range(n)):
                bad("access_column", f"column {c!r} (_column_data): got {colv2}")
            count[0] += 1
            uv = dm.unique_values_of_column(c)
            want_u = []
            for _, rec in rows:
                if not missing(rec[c]) and not any(same(rec[c], w) for w in want_u):
                    want_u.append(rec[c])
            got_u = [x for x in uv if not missing(x)]
            if len(got_u) != len(want_u) or not all(any(same(x, w) for w in want_u) for x in got_u):
                bad("unique_values_of_column", f"column {c!r}: got {uv}, scan says {want_u}")
        count[0] += 1
        dl = dm.convert_to_dict_list()
        ok = len(dl) == n
        if ok:
            for i in range(n):
                want_d = {c: v for c, v in rows[i][1].items() if not missing(v)}
                if set(dl[i]) != set(want_d) or not all(same(dl[i][k], want_d[k]) for k in want_d):
                    ok = False
        if not ok:
            bad("convert_to_dict_list", f"got {dl}")
        if n >= 2:
            count[0] += 1
            sl = dm.slice(1, n)
            scols, srows = scan(sl)
            if len(srows) != n - 1 or not all(all(same(srows[k][1][c], rows[k + 1][1][c]) for c in cols) for k in range(n - 1)):
                bad("slice", "slice(1, n) differs from scan rows 1..n-1")
        labels = [lab for lab, _ in rows]
        if len(set(labels)) == len(labels):
            for lab, rec in rows[:3]:
                for c in cols[:2]:
                    count[0] += 1
                    v = dm.access(lab, c)
                    if not same(v, rec[c]):
                        bad("access(label, column)", f"label {lab} column {c!r}: got {v!r}, scan says {rec[c]!r}")
            count[0] += 1
            sq = dm.slow_query(labels[:2])
            scols, srows = scan(sq)
            if len(srows) != len(labels[:2]) or not all(all(same(srows[k][1][c], rows[k][1][c]) for c in cols) for k in range(len(srows))):
                bad("slow_query", "rows differ from scan")
    return out, count[0]


class Stats:
    def __init__(self):
        self.calls = {}
        self.checked = {}
        self.failures = []


def install(stats=None, max_rows_full=400, sample_every=25):
    """Wrap the real query methods with post-conditions (scan of the live frame at return time)."""
    import lian.util.data_model as dmod
    DM = dmod.DataModel
    if getattr(DM, "_verif_wrapped", False):
        return DM._verif_stats
    stats = stats or Stats()

    def should(self, name):
        k = stats.calls.get(name, 0) + 1
        stats.calls[name] = k
        if self._data is None:
            return False
        if len(self._data) <= max_rows_full:
            return k % 3 == 1 or k < 200
        return k % sample_every == 1

    def col_scan(self, column, value):
        ser = self._data[column].tolist()
        return [i for i, v in enumerate(ser) if not missing(v) and same(v, value)]

    o_idx = DM.query_index_column_value_indices

    def query_index_column_value_indices(self, column_name, value):
        got = o_idx(self, column_name, value)
        if should(self, "query_index_column_value_indices") and not (isinstance(value, str) and value == ""):
            stats.checked["query_index_column_value_indices"] = stats.checked.get("query_index_column_value_indices", 0) + 1
            from lian.util import util as lutil
            if not lutil.isna(value):
                want = col_scan(self, column_name, value)
                if list(got) != want:
                    stats.failures.append(("query_index_column_value_indices",
                                           f"column {column_name!r} value {value!r}: got {list(got)[:8]}, scan says {want[:8]}"))
        return got

    o_access = DM.access

    def access(self, row_index, column_name=""):
        got = o_access(self, row_index, column_name)
        if len(column_name) == 0 and isinstance(row_index, int) and should(self, "access"):
            stats.checked["access"] = stats.checked.get("access", 0) + 1
            n = len(self._data)
            if 0 <= row_index < n:
                want = list(self._data.iloc[row_index].tolist())
                ok = got is not None and len(got.raw_data()) == len(want) and all(same(a, b) for a, b in zip(got.raw_data(), want))
                if not ok:
                    stats.failures.append(("access", f"position {row_index}: got {got}, scan says {want}"))
            elif got is not None:
                stats.failures.append(("access", f"position {row_index} outside table of {n} rows returned a row"))
        return got

    o_iter = DM.__iter__

    def __iter__(self):
        chk = should(self, "__iter__")
        i = 0
        for row in o_iter(self):
            if chk and (i < 50):
                want = self._data.iloc[i].tolist() if i < len(self._data) else None
                if want is None or len(row.raw_data()) != len(want) or not all(same(a, b) for a, b in zip(row.raw_data(), want)):
                    stats.failures.append(("__iter__", f"row {i}: yielded {row}, scan says {want}"))
                    chk = False
            i += 1
            yield row
        if chk:
            stats.checked["__iter__"] = stats.checked.get("__iter__", 0) + 1
            if i != len(self._data):
                stats.failures.append(("__iter__", f"yielded {i} rows, table has {len(self._data)}"))

    o_rb = DM.read_block

    def read_block(self, block_id, reset_index=False):
        got = o_rb(self, block_id, reset_index)
        if should(self, "read_block") and "stmt_id" in self._data.columns:
            from lian.util import util as lutil
            if not lutil.isna(block_id):
                stats.checked["read_block"] = stats.checked.get("read_block", 0) + 1
                pos = col_scan(self, "stmt_id", block_id)
                if len(pos) == 2:
                    want_ids = self._data["stmt_id"].tolist()[pos[0] + 1:pos[1]]
                    got_ids = got._data["stmt_id"].tolist() if hasattr(got, "_data") else None
                    if got_ids is None or len(got_ids) != len(want_ids) or not all(same(a, b) for a, b in zip(got_ids, want_ids)):
                        stats.failures.append(("read_block", f"block {block_id}: got stmt ids {got_ids}, scan says {want_ids}"))
        return got

    DM.query_index_column_value_indices = query_index_column_value_indices
    DM.access = access
    DM.__iter__ = __iter__
    DM.read_block = read_block
    DM._verif_wrapped = True
    DM._verif_stats = stats
    return stats
