"""C18 monitor: what a lian run does to the filesystem, seen through three independent channels.

1. `snapshot(root)` / `diff(before, after)` — a recursive inventory (kind file/dir/symlink/other, size, SHA-256,
   link target, permission bits) of a scratch root taken before and after a run.  Symlinks are recorded, never
   followed, so a canary directory that is only reachable through a link is inventoried at its real place.
2. `AuditLog` — a `sys.addaudithook` recorder installed in the forked child: every *mutating* Python-level
   operation (open for writing, remove, rmdir, mkdir, rename/replace, symlink, link, truncate, chmod, chown, utime,
   xattr, the shutil entry points, tempfile, process spawns) is logged with the absolute path it acts on, resolved
   **at the time of the call** (the way the kernel will resolve it: operations on a directory entry — unlink, rmdir,
   mkdir, rename, symlink — resolve only the parent; open/truncate/chmod follow the last component too) and with
   `dir_fd` arguments resolved through /proc/self/fd.
3. `parse_strace(path, cwd)` — the same classification for the syscalls of a true CLI run under
   `strace -f -y -e trace=%file,...`; native code (pyarrow's feather writer) is invisible to audit hooks but not to
   strace.  Syscall names that are neither known-read-only nor known-mutating are reported as `unclassified`
   so that a new kernel interface cannot silently hide a write.

`classify(path, zones)` places a resolved path into the first zone (name, realpath-prefix) that contains it.
The monitor knows nothing about lian; the oracle lives in checks/c18.py."""
import errno
import hashlib
import os
import re
import stat
import sys

# ----------------------------------------------------------------------------------------------------------------
# 1. snapshots


def _sha(path):
    h = hashlib.sha256()
    with open(path, "rb") as f:
        for chunk in iter(lambda: f.read(1 << 16), b""):
            h.update(chunk)
    return h.hexdigest()


def snapshot(root, max_entries=200000):
    """{relative path: (kind, size, sha256|None, link target|None, mode bits)} for everything below root
    (root itself is '.').  Never follows symlinks.  Paths the kernel refuses (ENAMETOOLONG after a runaway
    copy) are walked with dir_fd-relative calls, so even an over-long tree is inventoried."""
    out = {}
    st = os.lstat(root)
    out["."] = ("dir", 0, None, None, stat.S_IMODE(st.st_mode))
    top = os.open(root, os.O_RDONLY | os.O_DIRECTORY)
    try:
        _snap_dir(top, "", out, max_entries)
    finally:
        os.close(top)
    return out


def _snap_dir(dfd, rel, out, max_entries):
    try:
        names = sorted(os.listdir(dfd))
    except OSError:
        return
    for name in names:
        if len(out) >= max_entries:
            out["<truncated>"] = ("other", 0, None, None, 0)
            return
        r = name if not rel else rel + "/" + name
        try:
            st = os.lstat(name, dir_fd=dfd)
        except OSError:
            out[r] = ("unreadable", 0, None, None, 0)
            continue
        mode = stat.S_IMODE(st.st_mode)
        if stat.S_ISLNK(st.st_mode):
            try:
                tgt = os.readlink(name, dir_fd=dfd)
            except OSError:
                tgt = "?"
            out[r] = ("symlink", 0, None, tgt, mode)
        elif stat.S_ISDIR(st.st_mode):
            out[r] = ("dir", 0, None, None, mode)
            try:
                sub = os.open(name, os.O_RDONLY | os.O_DIRECTORY | os.O_NOFOLLOW, dir_fd=dfd)
            except OSError:
                continue
            try:
                _snap_dir(sub, r, out, max_entries)
            finally:
                os.close(sub)
        elif stat.S_ISREG(st.st_mode):
            try:
                fd = os.open(name, os.O_RDONLY | os.O_NOFOLLOW, dir_fd=dfd)
            except OSError:
                out[r] = ("file", st.st_size, "<unreadable>", None, mode)
                continue
            h = hashlib.sha256()
            with os.fdopen(fd, "rb") as f:
                for chunk in iter(lambda: f.read(1 << 16), b""):
                    h.update(chunk)
            out[r] = ("file", st.st_size, h.hexdigest(), None, mode)
        else:
            out[r] = ("other", 0, None, None, mode)


def diff(before, after):
    """Returns (created, deleted, changed): lists of relative paths; `changed` = present on both sides with a
    different kind / size / hash / link target / mode (each entry is (path, what-differs))."""
    created = sorted(p for p in after if p not in before)
    deleted = sorted(p for p in before if p not in after)
    changed = []
    for p in sorted(before):
        if p not in after:
            continue
        b, a = before[p], after[p]
        if b == a:
            continue
        if b[0] != a[0]:
            what = "kind"
        elif b[2] != a[2] or b[1] != a[1]:
            what = "content"
        elif b[3] != a[3]:
            what = "link-target"
        else:
            what = "mode"
        changed.append((p, what))
    return created, deleted, changed


# ----------------------------------------------------------------------------------------------------------------
# path resolution and zones


def resolve_full(path, cwd=None):
    """Absolute path with every symlink resolved (what open()/truncate()/chmod() act on)."""
    path = os.fsdecode(path)
    if not os.path.isabs(path):
        path = os.path.join(cwd or os.getcwd(), path)
    try:
        return os.path.realpath(path)
    except (OSError, ValueError):
        return os.path.normpath(path)


def resolve_entry(path, cwd=None):
    """Absolute path of the directory entry itself (what unlink/rmdir/mkdir/rename/symlink act on):
    the parent is resolved, the last component is not."""
    path = os.fsdecode(path)
    if not os.path.isabs(path):
        path = os.path.join(cwd or os.getcwd(), path)
    head, tail = os.path.split(path.rstrip("/") or "/")
    if tail in ("", ".", ".."):
        return resolve_full(path)
    try:
        return os.path.join(os.path.realpath(head), tail)
    except (OSError, ValueError):
        return os.path.normpath(path)


def inside(path, top):
    return path == top or path.startswith(top.rstrip("/") + "/")


def classify(path, zones):
    """zones: ordered list of (name, absolute real path).  First containing zone wins, else 'elsewhere'."""
    for name, top in zones:
        if inside(path, top):
            return name
    return "elsewhere"


# ----------------------------------------------------------------------------------------------------------------
# 2. audit hook

_W_FLAGS = os.O_WRONLY | os.O_RDWR | os.O_APPEND | os.O_CREAT | os.O_TRUNC


def _fd_path(fd):
    try:
        return os.readlink(f"/proc/self/fd/{int(fd)}")
    except (OSError, ValueError, TypeError):
        return None


def _with_dirfd(path, dir_fd):
    """Join a relative path with the directory a dir_fd refers to (None / -1 = no dir_fd)."""
    if isinstance(path, int):
        return _fd_path(path)
    try:
        path = os.fsdecode(path)
    except TypeError:
        return None
    if os.path.isabs(path) or dir_fd is None or not isinstance(dir_fd, int) or dir_fd < 0:
        return path
    base = _fd_path(dir_fd)
    return os.path.join(base, path) if base else path


class AuditLog:
    """Records mutating operations while `active`.  One instance per (forked) process; audit hooks cannot be
    removed, so the recorder is switched off rather than uninstalled."""

    ENTRY_OPS = {          # event -> (operation class, index of path arg, index of dir_fd arg or None)
        "os.remove": ("delete", 0, 1),
        "os.rmdir": ("delete", 0, 1),
        "os.mkdir": ("mkdir", 0, 2),
        "os.mkfifo": ("create", 0, 2),
        "os.mknod": ("create", 0, 3),
    }
    FOLLOW_OPS = {         # act on what the path finally points to
        "os.truncate": ("write", 0, None),
        "os.chmod": ("meta", 0, 2),
        "os.chown": ("meta", 0, 3),
        "os.utime": ("meta", 0, 3),
        "os.setxattr": ("meta", 0, None),
        "os.removexattr": ("meta", 0, None),
        "os.chflags": ("meta", 0, None),
    }
    TWO_PATH = {           # event -> (operation class, (src index, src dir_fd index), (dst index, dst dir_fd index))
        "os.rename": ("rename", (0, 2), (1, 3)),
        "os.link": ("create", None, (1, 3)),
        "os.symlink": ("create", None, (1, 2)),
    }
    SHUTIL = {             # high-level entry points: logged as information with their (destination) argument
        "shutil.rmtree": ("delete-tree", 0),
        "shutil.copyfile": ("write", 1),
        "shutil.copymode": ("meta", 1),
        "shutil.copystat": ("meta", 1),
        "shutil.copytree": ("write-tree", 1),
        "shutil.move": ("rename", 1),
        "shutil.chown": ("meta", 0),
        "shutil.make_archive": ("write", 0),
        "shutil.unpack_archive": ("write-tree", 1),
        "tempfile.mkstemp": ("create", 0),
        "tempfile.mkdtemp": ("mkdir", 0),
    }
    SPAWN = ("subprocess.Popen", "os.system", "os.exec", "os.posix_spawn", "os.spawn", "os.startfile")

    def __init__(self):
        self.events = []       # (event name, operation class, resolved absolute path, extra)
        self.spawns = []       # (event, executable / command)
        self.seen = 0          # audit events inspected while active (any kind)
        self.active = False
        self._busy = False
        self._installed = False
        self._dcache = {}      # directory path as written -> its real path (dropped whenever a link/dir goes away)

    # Resolution with a cache for the directory part: a runaway copy produces thousands of operations on
    # 4000-character paths, and resolving each from scratch costs (components)^2 lookups.
    def _real_dir(self, d):
        r = self._dcache.get(d)
        if r is None:
            r = resolve_full(d)
            if len(self._dcache) > 4096:
                self._dcache.clear()
            self._dcache[d] = r
        return r

    def _entry(self, path):
        path = os.fsdecode(path)
        if not os.path.isabs(path):
            path = os.path.join(os.getcwd(), path)
        head, tail = os.path.split(path.rstrip("/") or "/")
        if tail in ("", ".", ".."):
            return resolve_full(path)
        return os.path.join(self._real_dir(head), tail)

    def _full(self, path):
        path = os.fsdecode(path)
        if not os.path.isabs(path):
            path = os.path.join(os.getcwd(), path)
        try:
            if stat.S_ISLNK(os.lstat(path).st_mode):
                return resolve_full(path)
        except OSError:
            pass
        return self._entry(path)

    def _invalidate_if_structural(self, event, path):
        if event in ("os.rmdir", "os.rename", "os.symlink", "shutil.move"):
            self._dcache.clear()
        elif event == "os.remove":
            try:
                if stat.S_ISLNK(os.lstat(path).st_mode):
                    self._dcache.clear()
            except OSError:
                pass

    def install(self):
        if not self._installed:
            sys.addaudithook(self._hook)
            self._installed = True
        return self

    def start(self):
        self.active = True

    def stop(self):
        self.active = False

    def _hook(self, event, args):
        if not self.active or self._busy:
            return
        self._busy = True
        try:
            self.seen += 1
            self._record(event, args)
        except Exception as e:   # the recorder must never disturb the program under observation
            self.events.append((event, "recorder-error", "", repr(e)[:200]))
        finally:
            self._busy = False

    def _record(self, event, args):
        if event == "open":
            path, mode, flags = (tuple(args) + (None, None, None))[:3]
            if isinstance(path, int):
                return                        # re-wrapping an existing descriptor creates nothing
            writable = False
            if isinstance(flags, int):
                writable = bool(flags & _W_FLAGS)
            elif isinstance(mode, str):
                writable = any(c in mode for c in "wax+")
            if not writable:
                return
            nofollow = isinstance(flags, int) and bool(flags & os.O_NOFOLLOW)
            p = self._entry(path) if nofollow else self._full(path)
            self.events.append((event, "write", p, ""))
            return
        spec = self.ENTRY_OPS.get(event)
        if spec:
            op, pi, di = spec
            p = _with_dirfd(args[pi], args[di] if di is not None and len(args) > di else None)
            if p is not None:
                rp = self._entry(p)
                self.events.append((event, op, rp, ""))
                self._invalidate_if_structural(event, rp)
            return
        spec = self.FOLLOW_OPS.get(event)
        if spec:
            op, pi, di = spec
            p = _with_dirfd(args[pi], args[di] if di is not None and len(args) > di else None)
            if p is not None:
                self.events.append((event, op, self._full(p), ""))
            return
        spec = self.TWO_PATH.get(event)
        if spec:
            self._dcache.clear()
            op, src, dst = spec
            if src is not None:
                p = _with_dirfd(args[src[0]], args[src[1]] if len(args) > src[1] else None)
                if p is not None:
                    self.events.append((event, "rename-from", self._entry(p), ""))
            p = _with_dirfd(args[dst[0]], args[dst[1]] if len(args) > dst[1] else None)
            if p is not None:
                self.events.append((event, "rename-to" if op == "rename" else op, self._entry(p), ""))
            return
        spec = self.SHUTIL.get(event)
        if spec:
            op, pi = spec
            try:
                p = os.fsdecode(args[pi])
            except (TypeError, IndexError):
                return
            # the destination of a copy is followed (copyfile opens it), a tree operation acts on the entry
            res = self._full(p) if op in ("write", "meta") else self._entry(p)
            self.events.append((event, op, res, ""))
            return
        if event in self.SPAWN:
            what = args[0] if args else ""
            if event == "subprocess.Popen" and len(args) > 1:
                what = args[1]
            self.spawns.append((event, repr(what)[:300]))

    def summary_by_zone(self, zones):
        out = {}
        for ev, op, p, _ in self.events:
            z = classify(p, zones) if p else "unresolved"
            k = f"{z}:{op}"
            out[k] = out.get(k, 0) + 1
        return out


# ----------------------------------------------------------------------------------------------------------------
# 3. strace

STRACE_ARGS = ["strace", "-f", "-y", "-qq", "-s", "4096", "-e",
               "trace=%file,fchmod,fchown,ftruncate,fchdir,fallocate"]

_RO_SYSCALLS = {
    "stat", "lstat", "newfstatat", "fstatat64", "statx", "access", "faccessat", "faccessat2", "readlink",
    "readlinkat", "statfs", "getcwd", "execve", "execveat", "getxattr", "lgetxattr", "listxattr", "llistxattr",
    "inotify_add_watch", "chdir", "fchdir", "stat64", "lstat64", "uselib", "name_to_handle_at", "open_tree",
    "fanotify_mark", "acct", "swapon", "swapoff", "quotactl", "mount", "umount2", "pivot_root", "chroot",
    "statmount", "listmount", "memfd_create",
}
# name -> list of (operation class, index of dirfd arg or None, index of path arg, follow-last-component?)
_MUT_SYSCALLS = {
    "unlink": [("delete", None, 0, False)],
    "unlinkat": [("delete", 0, 1, False)],
    "rmdir": [("delete", None, 0, False)],
    "mkdir": [("mkdir", None, 0, False)],
    "mkdirat": [("mkdir", 0, 1, False)],
    "mknod": [("create", None, 0, False)],
    "mknodat": [("create", 0, 1, False)],
    "rename": [("rename-from", None, 0, False), ("rename-to", None, 1, False)],
    "renameat": [("rename-from", 0, 1, False), ("rename-to", 2, 3, False)],
    "renameat2": [("rename-from", 0, 1, False), ("rename-to", 2, 3, False)],
    "symlink": [("create", None, 1, False)],
    "symlinkat": [("create", 1, 2, False)],
    "link": [("create", None, 1, False)],
    "linkat": [("create", 2, 3, False)],
    "truncate": [("write", None, 0, True)],
    "chmod": [("meta", None, 0, True)],
    "fchmodat": [("meta", 0, 1, True)],
    "fchmodat2": [("meta", 0, 1, True)],
    "chown": [("meta", None, 0, True)],
    "lchown": [("meta", None, 0, False)],
    "fchownat": [("meta", 0, 1, True)],
    "utime": [("meta", None, 0, True)],
    "utimes": [("meta", None, 0, True)],
    "futimesat": [("meta", 0, 1, True)],
    "utimensat": [("meta", 0, 1, True)],
    "setxattr": [("meta", None, 0, True)],
    "lsetxattr": [("meta", None, 0, False)],
    "removexattr": [("meta", None, 0, True)],
    "lremovexattr": [("meta", None, 0, False)],
    "creat": [("write", None, 0, True)],
}
_FD_SYSCALLS = {"fchmod": "meta", "fchown": "meta", "ftruncate": "write", "fallocate": "write"}
_OPEN_SYSCALLS = {"open": (None, 0, 1), "openat": (0, 1, 2), "openat2": (0, 1, 2)}

_LINE = re.compile(r"^(?:\[pid\s+)?(\d+)\]?\s+(\w+)\((.*)$")
_RESUMED = re.compile(r"^(\d+)\s+<\.\.\. (\w+) resumed>(.*)$")


def _split_args(s):
    """Split the argument text of one strace line into top-level arguments; returns (args, rest after ')')."""
    args, cur, depth, i, n = [], [], 0, 0, len(s)
    in_str = False
    while i < n:
        c = s[i]
        if in_str:
            cur.append(c)
            if c == "\\" and i + 1 < n:
                cur.append(s[i + 1])
                i += 1
            elif c == '"':
                in_str = False
        elif c == '"':
            in_str = True
            cur.append(c)
        elif c in "([{<":
            depth += 1
            cur.append(c)
        elif c in ")]}>":
            if c == ")" and depth == 0:
                args.append("".join(cur).strip())
                return [a for a in args if a != ""], s[i + 1:]
            depth = max(0, depth - 1)
            cur.append(c)
        elif c == "," and depth == 0:
            args.append("".join(cur).strip())
            cur = []
        else:
            cur.append(c)
        i += 1
    args.append("".join(cur).strip())
    return [a for a in args if a != ""], ""


def _unquote(a):
    """'"…"' (C-escaped by strace) -> str; None if the argument is not a complete string literal."""
    if len(a) < 2 or not a.startswith('"'):
        return None
    if a.endswith('"...'):
        return None
    if not a.endswith('"'):
        return None
    body = a[1:-1]
    try:
        return body.encode("latin-1", "backslashreplace").decode("unicode_escape").encode("latin-1").decode(
            "utf-8", "surrogateescape")
    except Exception:
        return body


def _dirfd_path(a, cwd):
    """'AT_FDCWD' | 'AT_FDCWD</cwd>' | '7</some/dir>' -> directory path."""
    m = re.match(r"^(AT_FDCWD|-?\d+)(?:<(.*)>)?$", a, re.S)
    if not m:
        return cwd
    if m.group(2) is not None:
        return m.group(2)
    return cwd


def parse_strace(log_path, cwd):
    """Returns dict(events=[(syscall, operation class, resolved path, ok?)], lines=…, unclassified={name: n},
    unparsed=n, syscalls={name: n}).  Only *successful* calls are returned as events (a failed call changed
    nothing); paths are resolved against the live filesystem after the run, parent-only for entry operations."""
    events, unclassified, counts = [], {}, {}
    unparsed = 0
    lines = 0
    cwds = {}                      # pid -> cwd, following successful chdir calls
    pending = {}                   # pid -> (name, text so far) for '<unfinished ...>' lines
    with open(log_path, "r", errors="surrogateescape") as f:
        for raw in f:
            lines += 1
            line = raw.rstrip("\n")
            m = _RESUMED.match(line)
            if m:
                pid, name, rest = m.group(1), m.group(2), m.group(3)
                if pid in pending and pending[pid][0] == name:
                    line = f"{pid} {name}({pending.pop(pid)[1]}{rest}"
                else:
                    continue
            m = _LINE.match(line)
            if not m:
                if "+++ exited" in line or "--- SIG" in line or "+++ killed" in line:
                    continue
                unparsed += 1
                continue
            pid, name, rest = m.group(1), m.group(2), m.group(3)
            if rest.endswith("<unfinished ...>"):
                pending[pid] = (name, rest[:-len("<unfinished ...>")].rstrip())
                continue
            counts[name] = counts.get(name, 0) + 1
            args, tail = _split_args(rest)
            rm = re.search(r"=\s+(-?\d+|\?)", tail)
            ok = bool(rm) and rm.group(1) not in ("?",) and not rm.group(1).startswith("-")
            here = cwds.get(pid, cwd)
            if name == "chdir":
                p = _unquote(args[0]) if args else None
                if ok and p is not None:
                    cwds[pid] = resolve_full(p, here)
                continue
            if name == "fchdir":
                p = _dirfd_path(args[0], here) if args else None
                if ok and p:
                    cwds[pid] = p
                continue
            if name in _RO_SYSCALLS:
                continue
            if name in _OPEN_SYSCALLS:
                di, pi, fi = _OPEN_SYSCALLS[name]
                if len(args) <= fi:
                    unparsed += 1
                    continue
                flags = args[fi]
                if not re.search(r"O_WRONLY|O_RDWR|O_CREAT|O_TRUNC|O_APPEND|O_TMPFILE", flags):
                    continue
                if not ok:
                    continue
                p = _unquote(args[pi])
                if p is None:
                    unparsed += 1
                    continue
                base = _dirfd_path(args[di], here) if di is not None else here
                full = p if os.path.isabs(p) else os.path.join(base, p)
                # the returned descriptor is annotated with the path actually opened: "= 3</real/path>"
                fm = re.search(r"=\s+\d+<(.*)>\s*$", tail, re.S)
                resolved = fm.group(1) if fm and fm.group(1).startswith("/") else (
                    resolve_entry(full) if "O_NOFOLLOW" in flags else resolve_full(full))
                if resolved.endswith(" (deleted)"):
                    resolved = resolved[:-len(" (deleted)")]
                events.append((name, "write", resolved, True))
                continue
            if name in _FD_SYSCALLS:
                if not ok:
                    continue
                fm = re.match(r"^-?\d+<(.*)>$", args[0], re.S) if args else None
                if fm and fm.group(1).startswith("/"):
                    events.append((name, _FD_SYSCALLS[name], fm.group(1), True))
                elif fm:
                    pass                          # pipe / socket / anon inode
                else:
                    unparsed += 1
                continue
            spec = _MUT_SYSCALLS.get(name)
            if spec is None:
                unclassified[name] = unclassified.get(name, 0) + 1
                continue
            if not ok:
                continue
            for op, di, pi, follow in spec:
                if len(args) <= pi:
                    unparsed += 1
                    continue
                base = _dirfd_path(args[di], here) if di is not None else here
                if args[pi] == "NULL" and di is not None:      # futimens() style: acts on the descriptor itself
                    if base and base.startswith("/"):
                        events.append((name, op, base, True))
                    continue
                p = _unquote(args[pi])
                if p is None:
                    unparsed += 1
                    continue
                full = p if os.path.isabs(p) else os.path.join(base, p)
                if follow and name in ("fchmodat", "fchownat", "utimensat") and "AT_SYMLINK_NOFOLLOW" in rest:
                    follow = False
                events.append((name, op, resolve_full(full) if follow else resolve_entry(full), True))
    return {"events": events, "lines": lines, "unclassified": unclassified, "unparsed": unparsed,
            "syscalls": counts}
