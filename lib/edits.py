"""Meaning-preserving source editors for C12 and the maps that describe what they did.

A project is `{relative path: text}`. Every editor takes the project (and a `random.Random`) and returns a `Step`:
the edited project plus
  line_map   {(rel, old line): (rel', new line)}    total over the old lines (1-based); nothing is ever deleted
  name_map   {(rel, old line, old name): new name}  one entry per LINE on which a renamed occurrence stands
  decl_alias {(rel', new line, name'): [(rel'', line'', name''), ...]}   (move-to-file only) declarations of the
             edited project that stand for the mapped declaration as well (the import statement that now binds the name)
or None when the edit is not applicable to this text. Lines of the edited project outside the image of line_map are
the inserted ones.  `Mapping(steps)` composes steps.

Every editor proves its own edit before returning it (a pair that fails a proof is never produced):
  Python      `ast` equality (blank/comment/no-op: the trees are equal once the inserted statements are removed;
              rename: equal after substituting the identifier at exactly the renamed nodes, and the `symtable` scope
              tables are equal under the renaming), definitions reordered/moved only when nothing evaluated at
              definition time refers to another moved definition. The check additionally RUNS P and P' (CPython).
  other langs tree-sitter token sequence (comments dropped) equal modulo the edit, no ERROR/MISSING node, an inserted
              empty statement must be the direct child of a block. The check additionally runs JavaScript under node.
"""
import ast
import io
import keyword
import os
import re
import symtable
import tokenize

KINDS_PY = ("blank-lines", "rename-local", "rename-param", "rename-function", "rename-class", "rename-method",
            "noop-stmt", "reorder-defs", "move-to-file")


class Step:
    def __init__(self, kind, files, line_map, name_map=None, decl_alias=None, detail=None, target=None):
        self.kind = kind
        self.files = files
        self.line_map = line_map
        self.name_map = name_map or {}
        self.decl_alias = decl_alias or {}
        self.detail = detail or {}
        self.target = target


class Mapping:
    """Composition of steps: where a (file, line) / a name standing on a line of the BASE project ends up."""

    def __init__(self, steps):
        self.steps = list(steps)
        self._image = None

    def line(self, rel, line):
        for s in self.steps:
            nxt = s.line_map.get((rel, line))
            if nxt is None:
                return None
            rel, line = nxt
        return rel, line

    def name(self, rel, line, name):
        """-> (rel', line', name') of an identifier `name` standing on base line (rel, line); None if unmapped."""
        for s in self.steps:
            nxt = s.line_map.get((rel, line))
            if nxt is None:
                return None
            name = s.name_map.get((rel, line, name), name)
            rel, line = nxt
        return rel, line, name

    def image(self):
        """Set of (rel, line) of the final project that have a preimage in the base project."""
        if self._image is None:
            cur = None
            for s in self.steps:
                if cur is None:
                    cur = set(s.line_map.values())
                else:
                    cur = {s.line_map[k] for k in cur if k in s.line_map}
            self._image = cur if cur is not None else set()
        return self._image

    def aliases(self):
        """decl aliases of the final project (aliases of earlier steps pushed through the later steps)."""
        out = {}
        for i, s in enumerate(self.steps):
            if not s.decl_alias:
                continue
            rest = Mapping(self.steps[i + 1:])
            for k, alts in s.decl_alias.items():
                k2 = rest.name(*k) if rest.steps else k
                if k2 is None:
                    continue
                for a in alts:
                    a2 = rest.name(*a) if rest.steps else a
                    if a2 is not None:
                        out.setdefault(tuple(k2), []).append(tuple(a2))
        return out


def identity_line_map(files):
    lm = {}
    for rel, text in files.items():
        for i in range(1, text.count("\n") + 2):
            lm[(rel, i)] = (rel, i)
    return lm


def split_lines(text):
    """Lines without terminators; a trailing newline does not create an extra empty line."""
    ls = text.split("\n")
    if ls and ls[-1] == "":
        ls.pop()
    return ls


def join_lines(lines):
    return "\n".join(lines) + "\n"


def insert_lines(text, inserts):
    """inserts: {k: [lines]} = put these lines BEFORE old line k (k = n+1: at the end). -> (text', {old: new}, inserted set)"""
    old = split_lines(text)
    out = []
    lm = {}
    ins = set()
    for i in range(1, len(old) + 2):
        for l in inserts.get(i, ()):
            out.append(l)
            ins.add(len(out))
        if i <= len(old):
            out.append(old[i - 1])
            lm[i] = len(out)
    return join_lines(out), lm, ins


def _full_map(files, rel, lm):
    m = identity_line_map({r: t for r, t in files.items() if r != rel})
    for o, n in lm.items():
        m[(rel, o)] = (rel, n)
    return m


def fresh_name(files, rng, stem):
    """An identifier that occurs NOWHERE in the project (not even inside another word, a string or a comment)."""
    blob = "\n".join(files.values())
    for _ in range(200):
        cand = f"{stem}_q{rng.randrange(10, 99)}z"
        if cand not in blob and not keyword.iskeyword(cand):
            return cand
    return None


# =====================================================================================================
# Python

def py_unsafe_lines(text):
    """Lines BEFORE which nothing may be inserted: continuation lines of a multi-line string token and lines that
    follow a backslash continuation."""
    bad = set()
    try:
        toks = list(tokenize.generate_tokens(io.StringIO(text).readline))
    except (tokenize.TokenError, IndentationError, SyntaxError):
        return None
    for t in toks:
        if t.type in (tokenize.STRING, getattr(tokenize, "FSTRING_MIDDLE", -1)) and t.end[0] > t.start[0]:
            bad.update(range(t.start[0] + 1, t.end[0] + 1))
    fs = getattr(tokenize, "FSTRING_START", None)
    if fs is not None:            # an f-string spanning lines: protect everything between its start and end token
        depth, start = 0, None
        for t in toks:
            if t.type == fs:
                if depth == 0:
                    start = t.start[0]
                depth += 1
            elif t.type == tokenize.FSTRING_END:
                depth -= 1
                if depth == 0 and t.end[0] > start:
                    bad.update(range(start + 1, t.end[0] + 1))
    lines = split_lines(text)
    for i, l in enumerate(lines, 1):
        if l.rstrip().endswith("\\"):
            bad.add(i + 1)
    return bad


def _ast_dump(text):
    return ast.dump(ast.parse(text))


class _DropInserted(ast.NodeTransformer):
    def __init__(self, lines):
        self.lines = lines

    def generic_visit(self, node):
        for field, old in ast.iter_fields(node):
            if isinstance(old, list):
                new = []
                for v in old:
                    if isinstance(v, ast.stmt) and v.lineno in self.lines and _is_noop_stmt(v):
                        continue
                    if isinstance(v, ast.AST):
                        v = self.visit(v)
                    new.append(v)
                old[:] = new
            elif isinstance(old, ast.AST):
                self.visit(old)
        return node


def _is_noop_stmt(v):
    if isinstance(v, ast.Pass):
        return True
    return (isinstance(v, ast.Assign) and len(v.targets) == 1 and isinstance(v.targets[0], ast.Name)
            and v.targets[0].id.startswith("_unused") and isinstance(v.value, ast.Constant) and v.value.value == 0)


def py_equal_modulo_inserted(old, new, inserted):
    """True iff `new` parses and its tree, with the no-op statements standing on inserted lines removed, equals old's."""
    try:
        a = ast.parse(old)
        b = ast.parse(new)
    except (SyntaxError, ValueError, RecursionError):
        return False
    _DropInserted(set(inserted)).visit(b)
    return ast.dump(a) == ast.dump(b)


PY_TEMPTING_COMMENTS = ["# x = sink(main)", "# import alpha.beta, gamma", "# def main(tainted, b, c):", "#import os.path, sys",
                        "# class Shadow: pass", "# return tainted  # sink(tainted)", "# from helper import main as sink"]


def py_blank_lines(files, rng, rel, dense=None):
    text = files[rel]
    bad = py_unsafe_lines(text)
    if bad is None:
        return None
    n = len(split_lines(text))
    if n == 0:
        return None
    cands = [i for i in range(1, n + 2) if i not in bad]
    if not cands:
        return None
    if dense is None:
        dense = rng.random() < 0.3
    if dense:
        chosen = [i for i in cands if i > 1 and rng.random() < 0.9] or cands[:1]
    else:
        chosen = rng.sample(cands, min(len(cands), rng.randint(1, max(1, min(8, n // 3)))))
    lines = split_lines(text)
    inserts = {}
    for i in chosen:
        k = rng.choice([1, 1, 1, 2, 3]) if not dense else 1
        block = []
        for _ in range(k):
            r = rng.random()
            if r < 0.5:
                block.append("")
            elif r < 0.75:
                ref = lines[min(i, n) - 1]
                block.append(ref[:len(ref) - len(ref.lstrip())] + f"# note {rng.randrange(1000)}")
            else:
                block.append(rng.choice(PY_TEMPTING_COMMENTS))
        inserts[i] = block
    new, lm, ins = insert_lines(text, inserts)
    if not py_equal_modulo_inserted(text, new, ()):
        return None
    out = dict(files)
    out[rel] = new
    return Step("blank-lines", out, _full_map(files, rel, lm), detail={"file": rel, "at": sorted(inserts), "dense": dense},
                target=rel)


def py_noop(files, rng, rel):
    text = files[rel]
    try:
        tree = ast.parse(text)
    except (SyntaxError, ValueError, RecursionError):
        return None
    bad = py_unsafe_lines(text)
    if bad is None:
        return None
    lines = split_lines(text)
    spots = []      # (line to insert before, indent, in_class)

    def walk(body, in_class):
        for idx, st in enumerate(body):
            first = min([st.lineno] + [d.lineno for d in getattr(st, "decorator_list", [])])
            src = lines[first - 1]
            ind = src[:len(src) - len(src.lstrip())]
            docstring = (idx == 0 and isinstance(st, ast.Expr) and isinstance(getattr(st, "value", None), ast.Constant)
                         and isinstance(st.value.value, str))
            future = isinstance(st, ast.ImportFrom) and st.module == "__future__"
            own_line = src.strip() != "" and len(ind) == (st.col_offset if not getattr(st, "decorator_list", None) else len(ind))
            if (not docstring and not future and own_line and first not in bad and not src.lstrip().startswith(("elif", "else", "except", "finally", "case "))
                    and not any(isinstance(p, ast.ImportFrom) and p.module == "__future__" for p in body[idx:])):
                spots.append((first, ind, in_class))
            for field in ("body", "orelse", "finalbody"):
                sub = getattr(st, field, None)
                if isinstance(sub, list) and sub and isinstance(sub[0], ast.stmt):
                    if field == "orelse" and isinstance(st, ast.If) and len(sub) == 1 and isinstance(sub[0], ast.If) \
                            and lines[sub[0].lineno - 1].lstrip().startswith("elif"):
                        walk_elif(sub[0], in_class)
                    else:
                        walk(sub, isinstance(st, ast.ClassDef))
            for h in getattr(st, "handlers", []) or []:
                walk(h.body, False)
            for c in getattr(st, "cases", []) or []:
                walk(c.body, False)

    def walk_elif(st, in_class):
        walk(st.body, in_class)
        if st.orelse:
            if len(st.orelse) == 1 and isinstance(st.orelse[0], ast.If) and lines[st.orelse[0].lineno - 1].lstrip().startswith("elif"):
                walk_elif(st.orelse[0], in_class)
            else:
                walk(st.orelse, in_class)

    walk(tree.body, False)
    if not spots:
        return None
    k = rng.randint(1, min(3, len(spots)))
    chosen = rng.sample(spots, k)
    inserts = {}
    used = []
    taken = dict(files)
    for (ln, ind, in_class) in chosen:
        if in_class or rng.random() < 0.5:
            stmt = "pass"
        else:
            nm = fresh_name(taken, rng, "_unused")
            if nm is not None:
                taken[f"<inserted {len(taken)}>"] = nm
            if nm is None:
                stmt = "pass"
            else:
                stmt = f"{nm} = 0"
        inserts.setdefault(ln, []).append(ind + stmt)
        used.append((ln, stmt))
    new, lm, ins = insert_lines(text, inserts)
    if not py_equal_modulo_inserted(text, new, ins):
        return None
    out = dict(files)
    out[rel] = new
    return Step("noop-stmt", out, _full_map(files, rel, lm), detail={"file": rel, "inserted": used}, target=rel)


# ---- Python scopes ------------------------------------------------------------------------------------

class _Scope:
    def __init__(self, kind, name, node, parent):
        self.kind, self.name, self.node, self.parent = kind, name, node, parent
        self.bound = {}          # name -> set of binding kinds ('param','assign','def','class','import','other')
        self.globals = set()
        self.nonlocals = set()
        self.uses = []           # (name, lineno, col)   every identifier occurrence written in this scope
        self.children = []
        if parent is not None:
            parent.children.append(self)

    def path(self):
        p, s = [], self
        while s is not None:
            p.append((s.kind, s.name, getattr(s.node, "lineno", 0)))
            s = s.parent
        return tuple(reversed(p))


class _ScopeBuilder(ast.NodeVisitor):
    """Scopes, bindings and the position of every identifier occurrence (Name, arg, def/class name, global/nonlocal)."""

    def __init__(self, text):
        self.text = text
        self.lines = split_lines(text)
        self.module = _Scope("module", "<module>", None, None)
        self.cur = self.module
        self.scopes = [self.module]
        self.keywords = set()
        self.attrs = {}           # attribute name -> [(lineno, col of the name)]
        self.unsafe = set()       # names we refuse to rename wherever they are bound
        self.calls_dynamic = False
        self.strings = []
        self.method_defs = {}     # name -> [(class scope, node)]

    def push(self, kind, name, node):
        s = _Scope(kind, name, node, self.cur)
        self.scopes.append(s)
        self.cur = s
        return s

    def pop(self):
        self.cur = self.cur.parent

    def bind(self, name, kind, scope=None):
        (scope or self.cur).bound.setdefault(name, set()).add(kind)

    def _name_token_pos(self, node, kw):
        """Position of the identifier after `def`/`class` on node.lineno."""
        line = self.lines[node.lineno - 1]
        m = re.compile(r"\b" + kw + r"\s+([A-Za-z_][A-Za-z_0-9]*)").search(line, node.col_offset)
        if m and m.group(1) == node.name:
            return node.lineno, m.start(1)
        return None

    def visit_FunctionDef(self, node):
        kw = "def"
        pos = self._name_token_pos(node, kw)
        self.bind(node.name, "def")
        if pos is None:
            self.unsafe.add(node.name)
        else:
            self.cur.uses.append((node.name, pos[0], pos[1]))
        if self.cur.kind == "class":
            self.method_defs.setdefault(node.name, []).append((self.cur, node, pos))
        for d in node.decorator_list:
            self.visit(d)
        a = node.args
        for d in list(a.defaults) + [k for k in a.kw_defaults if k is not None]:
            self.visit(d)
        for arg in a.posonlyargs + a.args + a.kwonlyargs + [x for x in (a.vararg, a.kwarg) if x]:
            if arg.annotation is not None:
                self.visit(arg.annotation)
        if node.returns is not None:
            self.visit(node.returns)
        if getattr(node, "type_params", None):
            self.unsafe.add(node.name)
        self.push("function", node.name, node)
        for arg in a.posonlyargs + a.args + a.kwonlyargs + [x for x in (a.vararg, a.kwarg) if x]:
            self.bind(arg.arg, "param")
            self.cur.uses.append((arg.arg, arg.lineno, arg.col_offset))
        for st in node.body:
            self.visit(st)
        self.pop()

    visit_AsyncFunctionDef = visit_FunctionDef

    def visit_Lambda(self, node):
        a = node.args
        for d in list(a.defaults) + [k for k in a.kw_defaults if k is not None]:
            self.visit(d)
        self.push("function", "<lambda>", node)
        for arg in a.posonlyargs + a.args + a.kwonlyargs + [x for x in (a.vararg, a.kwarg) if x]:
            self.bind(arg.arg, "param")
            self.cur.uses.append((arg.arg, arg.lineno, arg.col_offset))
        self.visit(node.body)
        self.pop()

    def visit_ClassDef(self, node):
        pos = self._name_token_pos(node, "class")
        self.bind(node.name, "class")
        if pos is None or getattr(node, "type_params", None):
            self.unsafe.add(node.name)
        else:
            self.cur.uses.append((node.name, pos[0], pos[1]))
        for d in node.decorator_list + node.bases + [k.value for k in node.keywords]:
            self.visit(d)
        self.push("class", node.name, node)
        for st in node.body:
            self.visit(st)
        self.pop()

    def _comp(self, node, elts):
        gens = node.generators
        self.visit(gens[0].iter)
        self.push("comp", "<comp>", node)
        for i, g in enumerate(gens):
            self.visit(g.target)
            if i > 0:
                self.visit(g.iter)
            for c in g.ifs:
                self.visit(c)
        for e in elts:
            self.visit(e)
        self.pop()

    def visit_ListComp(self, node):
        self._comp(node, [node.elt])

    visit_SetComp = visit_ListComp
    visit_GeneratorExp = visit_ListComp

    def visit_DictComp(self, node):
        self._comp(node, [node.key, node.value])

    def visit_Name(self, node):
        self.cur.uses.append((node.id, node.lineno, node.col_offset))
        if isinstance(node.ctx, (ast.Store, ast.Del)):
            self.bind(node.id, "assign")
        if node.id in ("exec", "eval", "globals", "locals", "vars", "getattr", "setattr", "delattr", "__import__", "dir"):
            self.calls_dynamic = True

    def visit_NamedExpr(self, node):
        self.unsafe.add(node.target.id)      # binds in the enclosing non-comprehension scope: leave alone
        self.generic_visit(node)

    def visit_Global(self, node):
        for n in node.names:
            self.cur.globals.add(n)
            self._decl_positions(node, n)

    def visit_Nonlocal(self, node):
        for n in node.names:
            self.cur.nonlocals.add(n)
            self._decl_positions(node, n)

    def _decl_positions(self, node, n):
        line = self.lines[node.lineno - 1]
        if node.end_lineno != node.lineno:
            self.unsafe.add(n)
            return
        ms = list(re.finditer(r"\b" + re.escape(n) + r"\b", line[node.col_offset:node.end_col_offset]))
        if len(ms) != 1:
            self.unsafe.add(n)
            return
        self.cur.uses.append((n, node.lineno, node.col_offset + ms[0].start()))

    def visit_Import(self, node):
        for al in node.names:
            nm = al.asname or al.name.split(".")[0]
            self.bind(nm, "import")
            self.unsafe.add(nm)

    def visit_ImportFrom(self, node):
        for al in node.names:
            nm = al.asname or al.name
            self.bind(nm, "import")
            self.unsafe.add(nm)
            self.unsafe.add(al.name)

    def visit_ExceptHandler(self, node):
        if node.name:
            self.bind(node.name, "other")
            self.unsafe.add(node.name)
        self.generic_visit(node)

    def visit_keyword(self, node):
        if node.arg:
            self.keywords.add(node.arg)
        self.generic_visit(node)

    def visit_Attribute(self, node):
        end_col = node.end_col_offset
        if node.end_lineno is not None:
            line = self.lines[node.end_lineno - 1]
            start = end_col - len(node.attr)
            if line[start:end_col] == node.attr:
                self.attrs.setdefault(node.attr, []).append((node.end_lineno, start))
            else:
                self.attrs.setdefault(node.attr, []).append(None)
        self.generic_visit(node)

    def visit_Constant(self, node):
        if isinstance(node.value, str):
            self.strings.append(node.value)

    def _pattern_names(self, node):
        for n in ast.walk(node):
            for f in ("name", "rest"):
                v = getattr(n, f, None)
                if isinstance(v, str):
                    self.bind(v, "other")
                    self.unsafe.add(v)

    def visit_Match(self, node):
        self.visit(node.subject)
        for c in node.cases:
            self._pattern_names(c.pattern)
            self.generic_visit(c)

    def visit_TypeAlias(self, node):
        for n in ast.walk(node):
            if isinstance(n, ast.Name):
                self.unsafe.add(n.id)


def py_scopes(text):
    tree = ast.parse(text)
    b = _ScopeBuilder(text)
    b.visit(tree)
    return b


def _resolve(scope, name):
    """The scope whose binding an occurrence of `name` written in `scope` refers to (None = builtin / unbound)."""
    s = scope
    first = True
    while s is not None:
        if s.kind == "module":
            return s if name in s.bound else None
        if name in s.globals:
            m = s
            while m.parent is not None:
                m = m.parent
            return m if name in m.bound else None
        if name in s.nonlocals:
            p = s.parent
            while p is not None and not (p.kind in ("function",) and name in p.bound and name not in p.globals and name not in p.nonlocals):
                if p.kind in ("function",) and name in p.nonlocals:
                    pass
                p = p.parent
            return p
        if name in s.bound and (first or s.kind != "class"):
            return s
        first = False
        s = s.parent
    return None


def _symtable_sig(text):
    """{(scope name, line): [{name: flags}]} from the interpreter's own symbol table."""
    top = symtable.symtable(text, "<p>", "exec")
    out = {}

    def rec(t):
        d = {}
        for s in t.get_symbols():
            d[s.get_name()] = (s.is_local(), s.is_global(), s.is_declared_global(), s.is_free(), s.is_parameter(),
                               s.is_nonlocal(), s.is_imported(), s.is_namespace())
        out.setdefault((t.get_name(), t.get_lineno()), []).append(d)
        for c in t.get_children():
            rec(c)
    rec(top)
    return out


def _sym_key(scope):
    """The key of the symtable scope that holds this scope's names (list/set/dict comprehensions are inlined)."""
    if scope.kind == "module":
        return ("top", 0)
    if scope.kind == "comp":
        if isinstance(scope.node, ast.GeneratorExp):
            return ("genexpr", scope.node.lineno)
        return _sym_key(scope.parent)
    if scope.name == "<lambda>":
        return ("lambda", scope.node.lineno)
    return (scope.name, scope.node.lineno)


def _norm_sig(sig):
    return {k: sorted((sorted(d.items()) for d in v)) for k, v in sig.items()}


def _apply_renames(text, positions, old, new):
    """positions: set of (lineno, col). Replaces `old` by `new` at exactly these places."""
    lines = split_lines(text)
    by_line = {}
    for ln, col in positions:
        by_line.setdefault(ln, []).append(col)
    for ln, cols in by_line.items():
        l = lines[ln - 1]
        for col in sorted(set(cols), reverse=True):
            if l[col:col + len(old)] != old:
                return None
            l = l[:col] + new + l[col + len(old):]
        lines[ln - 1] = l
    return join_lines(lines)


def _stmt_start_lines(tree):
    """[(first line, last line of the statement's own part, start line reported for it)]: a simple statement spans all
    its lines; a compound statement only its header (up to the line before its first body statement)."""
    out = []
    for n in ast.walk(tree):
        if not isinstance(n, ast.stmt):
            continue
        first = min([n.lineno] + [d.lineno for d in getattr(n, "decorator_list", [])])
        last = n.end_lineno
        body = getattr(n, "body", None)
        if isinstance(body, list) and body and isinstance(body[0], ast.stmt):
            last = max(first, min(x.lineno for x in body) - 1)
            if body[0].lineno == n.lineno:
                last = n.lineno
        out.append((first, last, n.lineno))
        if first != n.lineno:
            out.append((first, last, first))
    return out


def _name_map_with_stmt_starts(rel, tree, positions, other_positions, old, new):
    """lian reports an occurrence on the START line of the statement it belongs to, which for a multi-line statement is
    not the line the identifier stands on: the name map gets an entry for both. None when an occurrence of the same
    name that is NOT renamed shares one of those lines (the line-keyed map would be ambiguous)."""
    spans = _stmt_start_lines(tree)

    def lines_of(ln):
        ls = {ln}
        best = None
        for (f, l, start) in spans:
            if f <= ln <= l and (best is None or (l - f) <= (best[1] - best[0])):
                if best is not None and (l - f) == (best[1] - best[0]):
                    ls.add(start)
                best = (f, l, start)
        if best is not None:
            ls.add(best[2])
            for (f, l, start) in spans:
                if (f, l) == (best[0], best[1]):
                    ls.add(start)
        return ls
    mine = set()
    for (ln, _) in positions:
        mine |= lines_of(ln)
    theirs = set()
    for (ln, _) in other_positions:
        theirs |= lines_of(ln)
    if mine & theirs:
        return None
    return {(rel, ln, old): new for ln in mine}


_RENAME_KINDS = {"rename-local": "assign", "rename-param": "param", "rename-function": "def", "rename-class": "class"}


def py_rename(files, rng, rel, kind, protected=(), multi_file=False, only=None):
    """Rename ONE binding (all occurrences that resolve to it, nowhere else) to a name that occurs nowhere."""
    text = files[rel]
    try:
        b = py_scopes(text)
        before = _symtable_sig(text)
    except (SyntaxError, ValueError, RecursionError):
        return None
    if b.calls_dynamic:
        return None
    if kind == "rename-method":
        return _py_rename_method(files, rng, rel, b, protected, multi_file, only)
    want = _RENAME_KINDS[kind]
    # ascii-only lines for col arithmetic (ast columns are utf-8 byte offsets)
    cands = []
    for s in b.scopes:
        if s.kind not in ("function", "module"):
            continue
        if s.kind == "module" and (want in ("assign", "param") or multi_file):
            continue
        for name, kinds in s.bound.items():
            if kinds != {want}:
                continue
            if name in protected or name in b.unsafe or name.startswith("__") or name in ("self", "cls", "_"):
                continue
            if name in s.globals or name in s.nonlocals:
                continue
            if want == "param" and name in b.keywords:
                continue
            if want in ("def", "class") and (name in b.keywords or name in b.attrs):
                continue
            if only is not None and name != only:
                continue
            cands.append((s, name))
    if not cands:
        return None
    cands.sort(key=lambda c: (c[0].path(), c[1]))
    scope, old = rng.choice(cands)
    new = fresh_name(files, rng, old.strip("_")[:12] or "n")
    if new is None:
        return None
    positions = set()
    touched_scopes = set()
    for s in b.scopes:
        for (nm, ln, col) in s.uses:
            if nm == old and _resolve(s, nm) is scope:
                positions.add((ln, col))
                touched_scopes.add(s)
    for ln, _ in positions:
        if not b.lines[ln - 1].isascii():
            return None
    new_text = _apply_renames(text, positions, old, new)
    if new_text is None:
        return None
    # proof 1: same tree except for the identifier at the renamed nodes
    try:
        ta, tb = ast.parse(text), ast.parse(new_text)
    except SyntaxError:
        return None
    for n in ast.walk(tb):
        for f in ("id", "arg", "name"):
            if getattr(n, f, None) == new:
                setattr(n, f, old)
        if isinstance(n, (ast.Global, ast.Nonlocal)):
            n.names = [old if x == new else x for x in n.names]
    if ast.dump(ta) != ast.dump(tb):
        return None
    # proof 2: the interpreter's own scope tables agree under the renaming: the scopes that referred to the binding
    # (and those the free variable passes through) hold `new` with the same flags, every other scope is unchanged
    try:
        after = _symtable_sig(new_text)
    except SyntaxError:
        return None
    touched = set()          # scopes in which the name is written and refers to the binding
    passing = set()          # scopes a FREE variable passes through on its way to the binding scope
    for s in touched_scopes:
        touched.add(_sym_key(s))
        t = s.parent if s is not scope else None
        while t is not None and t is not scope:
            passing.add(_sym_key(t))
            t = t.parent
        touched.add(_sym_key(scope))
    passing -= touched
    renamed_scope_keys = set()
    if want in ("def", "class"):
        for s in b.scopes:
            if s.parent is scope and s.name == old and s.kind in ("function", "class"):
                renamed_scope_keys.add(_sym_key(s))
    exp = {}
    for key, tabs in before.items():
        k2 = (new, key[1]) if key in renamed_scope_keys else key
        for d in tabs:
            # a scope the name merely passes through holds it only as a free variable; a scope in between that BINDS
            # the same spelling itself (a class body with a member of that name) keeps its own symbol
            if old in d and (key in touched or (key in passing and d[old][3])):
                d = {(new if k == old else k): v for k, v in d.items()}
            exp.setdefault(k2, []).append(d)
    if _norm_sig(exp) != _norm_sig(after):
        return None
    out = dict(files)
    out[rel] = new_text
    others = {(ln, col) for s in b.scopes for (nm_, ln, col) in s.uses if nm_ == old} - positions
    nm = _name_map_with_stmt_starts(rel, ta, positions, others, old, new)
    if nm is None:
        return None
    return Step(kind, out, identity_line_map(files), name_map=nm,
                detail={"file": rel, "old": old, "new": new, "scope": [list(x) for x in scope.path()], "occurrences": len(positions)},
                target=rel)


def _py_rename_unreferenced_member(files, rng, rel, b, protected, only):
    """A method that is referenced NOWHERE as an attribute (no `.name` in the project, no getattr/dynamic access, not a
    dunder, its class has no bases — nobody can call it): renaming the def token alone preserves meaning even when
    the same spelling is bound in other, non-class scopes (a module-level function of that name)."""
    text = files[rel]
    cands = []
    for name, defs in b.method_defs.items():
        if only is not None and name != only:
            continue
        if len(defs) != 1 or name.startswith("__") or name in protected or name in b.keywords or name in b.attrs:
            continue
        cls_scope, node, pos = defs[0]
        if pos is None or getattr(node, "decorator_list", None) or cls_scope.node.bases or cls_scope.node.keywords:
            continue
        if any(name in s.bound for s in b.scopes if s.kind == "class" and s is not cls_scope):
            continue
        if any(re.search(r"\." + re.escape(name) + r"\b", t) for t in files.values()) or any(name in x for x in b.strings):
            continue
        # no use of the bare name inside the class body itself (it would refer to the member there)
        if any(u[0] == name and (u[1], u[2]) != pos for u in cls_scope.uses):
            continue
        cands.append(name)
    if not cands:
        return None
    old = rng.choice(sorted(cands))
    new = fresh_name(files, rng, old[:12])
    if new is None:
        return None
    cls_scope, node, pos = b.method_defs[old][0]
    if not b.lines[pos[0] - 1].isascii():
        return None
    new_text = _apply_renames(text, {pos}, old, new)
    if new_text is None:
        return None
    try:
        ta, tb = ast.parse(text), ast.parse(new_text)
    except SyntaxError:
        return None
    hits = 0
    for n in ast.walk(tb):
        if isinstance(n, (ast.FunctionDef, ast.AsyncFunctionDef)) and n.name == new:
            n.name = old
            hits += 1
    if hits != 1 or ast.dump(ta) != ast.dump(tb):
        return None
    others = {(ln, col) for s in b.scopes for (nm_, ln, col) in s.uses if nm_ == old} - {pos}
    nm = _name_map_with_stmt_starts(rel, ta, {pos}, others, old, new)
    if nm is None:
        return None
    out = dict(files)
    out[rel] = new_text
    return Step("rename-method", out, identity_line_map(files), name_map=nm,
                detail={"file": rel, "old": old, "new": new, "class": cls_scope.name, "occurrences": 1,
                        "member_never_referenced": True, "same_spelling_bound_elsewhere": bool(others)}, target=rel)


def _py_rename_method(files, rng, rel, b, protected, multi_file, only=None):
    """A method whose name is used for nothing else in the project: rename the def and every `.name` attribute."""
    text = files[rel]
    if only is not None:
        return _py_rename_unreferenced_member(files, rng, rel, b, protected, only)
    blob_other = "\n".join(t for r, t in files.items() if r != rel)
    cands = []
    for name, defs in b.method_defs.items():
        if len(defs) != 1 or name.startswith("__") or name in protected or name in b.unsafe or name in b.keywords:
            continue
        if defs[0][2] is None:
            continue
        if any(name in s.bound for s in b.scopes if s is not defs[0][0]):
            continue
        if any(u[0] == name for s in b.scopes for u in s.uses if not (s is defs[0][0] and (u[1], u[2]) == defs[0][2])):
            continue
        if any(p is None for p in b.attrs.get(name, [])):
            continue
        if re.search(r"\b" + re.escape(name) + r"\b", blob_other):
            continue
        if any(name in s for s in b.strings):
            continue
        if getattr(defs[0][1], "decorator_list", None):
            continue
        cands.append(name)
    if not cands:
        return None
    old = rng.choice(sorted(cands))
    new = fresh_name(files, rng, old[:12])
    if new is None:
        return None
    cls_scope, node, pos = b.method_defs[old][0]
    positions = {pos} | set(b.attrs.get(old, []))
    for ln, _ in positions:
        if not b.lines[ln - 1].isascii():
            return None
    n_word = len(re.findall(r"\b" + re.escape(old) + r"\b", text))
    if n_word != len(positions):
        return None           # the name also occurs in a comment/string/other role: not provably unique
    new_text = _apply_renames(text, positions, old, new)
    if new_text is None:
        return None
    try:
        ta, tb = ast.parse(text), ast.parse(new_text)
    except SyntaxError:
        return None
    for n in ast.walk(tb):
        for f in ("attr", "name"):
            if getattr(n, f, None) == new:
                setattr(n, f, old)
    if ast.dump(ta) != ast.dump(tb):
        return None
    out = dict(files)
    out[rel] = new_text
    nm = _name_map_with_stmt_starts(rel, ta, positions, set(), old, new)
    if nm is None:
        return None
    return Step("rename-method", out, identity_line_map(files), name_map=nm,
                detail={"file": rel, "old": old, "new": new, "class": cls_scope.name, "occurrences": len(positions)}, target=rel)


# ---- Python top-level definitions ----------------------------------------------------------------------

def _def_time_names(node):
    """Names evaluated when the def/class STATEMENT runs (decorators, defaults, annotations, bases, class-body code
    outside nested function bodies)."""
    out = set()

    def expr_names(e):
        for n in ast.walk(e):
            if isinstance(n, ast.Name):
                out.add(n.id)

    def fn(node):
        for d in node.decorator_list:
            expr_names(d)
        a = node.args
        for d in list(a.defaults) + [k for k in a.kw_defaults if k is not None]:
            expr_names(d)
        for arg in a.posonlyargs + a.args + a.kwonlyargs + [x for x in (a.vararg, a.kwarg) if x]:
            if arg.annotation is not None:
                expr_names(arg.annotation)
        if node.returns is not None:
            expr_names(node.returns)

    def cls(node):
        for d in node.decorator_list + node.bases + [k.value for k in node.keywords]:
            expr_names(d)
        for st in node.body:
            stmt(st)

    def stmt(st):
        if isinstance(st, (ast.FunctionDef, ast.AsyncFunctionDef)):
            fn(st)
        elif isinstance(st, ast.ClassDef):
            cls(st)
        else:
            for n in ast.walk(st):
                if isinstance(n, ast.Name):
                    out.add(n.id)
                elif isinstance(n, ast.Lambda):
                    pass
    stmt(node)
    return out


def py_def_blocks(text):
    """Runs of consecutive top-level def/class statements: [[(first line, last line, name, node), ...], ...]."""
    tree = ast.parse(text)
    runs, cur = [], []
    for st in tree.body:
        if isinstance(st, (ast.FunctionDef, ast.AsyncFunctionDef, ast.ClassDef)):
            first = min([st.lineno] + [d.lineno for d in st.decorator_list])
            cur.append((first, st.end_lineno, st.name, st))
        else:
            if len(cur) > 0:
                runs.append(cur)
            cur = []
    if cur:
        runs.append(cur)
    return runs, tree


def permute_blocks(text, blocks, perm):
    """blocks: [(first, last)] ascending, disjoint; block i's slot receives block perm[i]; the text between the
    slots stays. -> (text', {old line: new line})"""
    lines = split_lines(text)
    out = []
    lm = {}
    pos = 1
    for i, (f, l) in enumerate(blocks):
        for k in range(pos, f):
            out.append(lines[k - 1])
            lm[k] = len(out)
        sf, sl = blocks[perm[i]]
        for k in range(sf, sl + 1):
            out.append(lines[k - 1])
            lm[k] = len(out)
        pos = l + 1
    for k in range(pos, len(lines) + 1):
        out.append(lines[k - 1])
        lm[k] = len(out)
    return join_lines(out), lm


def py_reorder(files, rng, rel):
    text = files[rel]
    try:
        runs, tree = py_def_blocks(text)
    except (SyntaxError, ValueError, RecursionError):
        return None
    bad = py_unsafe_lines(text)
    if bad is None:
        return None
    good = []
    for run in runs:
        names = [b[2] for b in run]
        movable = []
        for (f, l, name, node) in run:
            if names.count(name) > 1:
                continue
            if _def_time_names(node) & (set(names) - {name}):
                continue            # needs another definition of the run at definition time
            if any(name in _def_time_names(o[3]) for o in run if o[2] != name):
                continue            # another definition needs this one at definition time
            if f in bad or (l + 1) in bad:
                continue
            movable.append((f, l, name))
        # all module-level names bound more than once across the file keep their place too
        if len(movable) >= 2:
            good.append(movable)
    if not good:
        return None
    top_bound = {}
    for st in tree.body:
        for n in ([st.name] if hasattr(st, "name") else [t.id for t in ast.walk(st) if isinstance(t, ast.Name) and isinstance(t.ctx, ast.Store)]):
            top_bound[n] = top_bound.get(n, 0) + 1
    movable = rng.choice(good)
    movable = [m for m in movable if top_bound.get(m[2], 0) == 1]
    if len(movable) < 2:
        return None
    perm = list(range(len(movable)))
    for _ in range(10):
        rng.shuffle(perm)
        if perm != sorted(perm):
            break
    else:
        return None
    new, lm = permute_blocks(text, [(f, l) for f, l, _ in movable], perm)
    try:
        a = ast.parse(text)
        b = ast.parse(new)
    except SyntaxError:
        return None
    if sorted(ast.dump(s) for s in a.body) != sorted(ast.dump(s) for s in b.body):
        return None
    out = dict(files)
    out[rel] = new
    return Step("reorder-defs", out, _full_map(files, rel, lm),
                detail={"file": rel, "order": [movable[p][2] for p in perm], "was": [m[2] for m in movable]}, target=rel)


PY_BUILTINS = set(dir(__import__("builtins")))


def py_move_to_file(files, rng, rel, protected=(), injected=("out", "sink"), helper=None, only=None, into=None):
    """Move one self-contained top-level function into a new module and import it where the def statement stood.
    `rel` may be ANY file of the project: when other files already import the function from `rel`, the file becomes a
    re-exporting intermediate module (`main: from lib import f`, `lib: from core import f`). `only`: move this function."""
    text = files[rel]
    try:
        b = py_scopes(text)
        runs, tree = py_def_blocks(text)
    except (SyntaxError, ValueError, RecursionError):
        return None
    bad = py_unsafe_lines(text)
    if bad is None or b.calls_dynamic:
        return None
    top_bound = {}
    for st in tree.body:
        for n in ([st.name] if hasattr(st, "name") else [t.id for t in ast.walk(st) if isinstance(t, ast.Name) and isinstance(t.ctx, ast.Store)]):
            top_bound[n] = top_bound.get(n, 0) + 1
    cands = []
    for st in tree.body:
        if not isinstance(st, ast.FunctionDef) or st.decorator_list or st.name in protected:
            continue
        if top_bound.get(st.name, 0) != 1 or st.name.startswith("_"):
            continue
        fscope = next((s for s in b.scopes if s.kind == 'function' and s.parent is b.module and s.name == st.name and s.node.lineno == st.lineno), None)
        if fscope is None:
            continue
        ok = True
        stack = [fscope]
        inner = []
        while stack:
            s = stack.pop()
            inner.append(s)
            stack.extend(s.children)
        for s in inner:
            if s.globals:
                ok = False
            for (nm, ln, col) in s.uses:
                tgt = _resolve(s, nm)
                if tgt is None:
                    if nm not in PY_BUILTINS and nm not in injected:
                        ok = False
                elif tgt not in inner:
                    if not (tgt.kind == "module" and nm == st.name):
                        ok = False           # needs something of the main module other than itself
        if _def_time_names(st) - PY_BUILTINS:
            ok = False
        if st.lineno in bad or (st.end_lineno + 1) in bad:
            ok = False
        if ok and (only is None or st.name == only):
            cands.append(st)
    if not cands:
        return None
    st = rng.choice(cands)
    offset = 0
    if into is not None:
        # an EXISTING module of the project (self-contained: it imports nothing of the project, so no cycle arises):
        # the function is appended to it; the module must not know the name yet
        if into not in files or into == rel or not into.endswith(".py"):
            return None
        cands = [c for c in cands if not re.search(r"\b" + re.escape(c.name) + r"\b", files[into])]
        if not cands:
            return None
        st = rng.choice(cands)
        try:
            tgt_tree = ast.parse(files[into])
        except SyntaxError:
            return None
        if any(isinstance(n, (ast.Import, ast.ImportFrom)) for n in ast.walk(tgt_tree)):
            return None
        helper = into[:-3].replace("/", ".")
        if helper.endswith(".__init__"):
            return None
        hrel = into
        existing = split_lines(files[into])
        offset = len(existing) + 2
    else:
        if helper is None:
            helper = fresh_name(files, rng, rng.choice(["helper_mod", "zz_util", "aa_lib"]))
            if helper is None:
                return None
        d = os.path.dirname(rel)
        hrel = os.path.join(d, helper + ".py") if d else helper + ".py"
        if hrel in files:
            return None
    lines = split_lines(text)
    s, e = st.lineno, st.end_lineno
    moved = lines[s - 1:e]
    if st.col_offset != 0:
        return None
    new_main = lines[:s - 1] + [f"from {helper} import {st.name}"] + lines[e:]
    out = dict(files)
    out[rel] = join_lines(new_main)
    out[hrel] = join_lines(moved) if into is None else join_lines(existing + ["", ""] + moved)
    try:
        ast.parse(out[rel]); ast.parse(out[hrel])
    except SyntaxError:
        return None
    lm = identity_line_map({r: t for r, t in files.items() if r != rel})
    for i in range(1, len(lines) + 1):
        if i < s:
            lm[(rel, i)] = (rel, i)
        elif i <= e:
            lm[(rel, i)] = (hrel, offset + i - s + 1)
        else:
            lm[(rel, i)] = (rel, i - (e - s + 1) + 1)
    alias = {(hrel, offset + 1, st.name): [(rel, s, st.name)]}
    if into is not None:
        mod = into[:-3].replace("/", ".")
        ali = re.compile(r"^\s*(import\s+" + re.escape(mod) + r"\s+as\s+\w+|from\s+" + re.escape(mod) + r"\s+import\s+\w+\s+as\s+\w+"
                         + (r"|import\s+" + re.escape(mod) + r"\s*$" if "." in mod else "") + ")", re.M)
        aliasers = sorted(r for r, t in files.items() if r not in (rel, into) and ali.search(t))
        return Step("move-to-file", out, lm, decl_alias=alias,
                    detail={"file": rel, "function": st.name, "helper": hrel, "lines": [s, e], "into_existing_module": True,
                            "aliased_by": aliasers}, target=rel)
    pat = re.compile(r"^\s*(from\s+" + re.escape(os.path.basename(rel)[:-3]) + r"\s+import\b|import\s+" + re.escape(os.path.basename(rel)[:-3]) + r"\b)", re.M)
    importers = sorted(r for r, t in files.items() if r != rel and pat.search(t) and re.search(r"\b" + re.escape(st.name) + r"\b", t))
    return Step("move-to-file", out, lm, decl_alias=alias,
                detail={"file": rel, "function": st.name, "helper": hrel, "lines": [s, e], "imported_by": importers}, target=rel)


# =====================================================================================================
# Python: what lian's import preprocessing does to line numbers (compensation for the known mechanism)

def py_import_list_extra(text):
    """[(line, extra lines)] for every `import a, b, ...` statement line: lian's text preprocessing replaces such a
    line by one line per imported name."""
    out = []
    for i, line in enumerate(text.splitlines(), 1):
        s = line.lstrip()
        if s.startswith("import "):
            k = len(re.sub(r"^import", "", s, count=1).split(","))
            if k > 1:
                out.append((i, k - 1))
    return out


def py_unshift(text):
    """-> function mapping a line of the PREPROCESSED text back to the line of the original text."""
    extra = py_import_list_extra(text)

    def back(line):
        shift = 0
        for (l, k) in extra:
            # original line l occupies preprocessed lines l+shift .. l+shift+k
            if line > l + shift + k:
                shift += k
            elif line >= l + shift:
                return l
            else:
                break
        return line - shift
    return back


# =====================================================================================================
# tree-sitter based editors for the other languages

_TS_PARSERS = {}
BLOCK_PARENTS = {
    "javascript": {"statement_block", "program"},
    "typescript": {"statement_block", "program"},
    "java": {"block", "constructor_body"},
    "c": {"compound_statement"},
    "go": {"block"},
    "php": {"compound_statement", "program"},
}
NOOP_TEXT = {"javascript": ";", "typescript": ";", "java": ";", "c": ";", "go": "_ = 0", "php": ";"}
COMMENT_PREFIX = {"javascript": "//", "typescript": "//", "java": "//", "c": "//", "go": "//", "php": "//", "python": "#"}


def ts_parser(lang, repo):
    key = (lang, repo)
    if key not in _TS_PARSERS:
        import tree_sitter
        from ctypes import cdll, c_void_p
        lib = cdll.LoadLibrary(os.path.join(repo, "lib", "linux_x86_64", f"{lang}.so"))
        fn = getattr(lib, f"tree_sitter_{lang}")
        fn.restype = c_void_p
        _TS_PARSERS[key] = tree_sitter.Parser(tree_sitter.Language(fn()))
    return _TS_PARSERS[key]


def ts_tokens(lang, text, repo):
    """-> (tokens [(type, text, start row, parent type)], has_error). Comments are dropped; leaves only."""
    p = ts_parser(lang, repo)
    data = text.encode("utf-8")
    tree = p.parse(data)
    toks = []
    err = [False]
    stack = [(tree.root_node, None)]
    while stack:
        n, parent = stack.pop()
        if n.type == "ERROR" or n.is_missing:
            err[0] = True
        if "comment" in n.type:
            continue
        if n.child_count == 0 or n.type in ("string", "string_literal", "template_string", "interpreted_string_literal",
                                             "raw_string_literal", "encapsed_string", "heredoc", "char_literal"):
            toks.append((n.type, data[n.start_byte:n.end_byte].decode("utf-8", "replace"), n.start_point[0] + 1,
                         parent, n.end_point[0] + 1, n.start_point[1]))
        else:
            for c in reversed(n.children):
                stack.append((c, n.type))
    if tree.root_node.has_error:
        err[0] = True
    return toks, err[0]


def ts_blank_lines(lang, files, rng, rel, repo, dense=None):
    text = files[rel]
    toks, err = ts_tokens(lang, text, repo)
    if err:
        return None
    lines = split_lines(text)
    n = len(lines)
    if n == 0:
        return None
    bad = set()
    for (ty, tx, row, par, erow, _col) in toks:
        if erow > row:
            bad.update(range(row + 1, erow + 1))
    if lang == "php":
        # nothing before the opening tag / outside php code
        first = next((i for i, l in enumerate(lines, 1) if "<?php" in l), None)
        if first is None:
            return None
        bad.update(range(1, first + 1))
        if any("?>" in l for l in lines):
            return None
    for i, l in enumerate(lines, 1):
        if l.rstrip().endswith("\\"):
            bad.add(i + 1)
    cands = [i for i in range(1, n + 2) if i not in bad]
    if not cands:
        return None
    if dense is None:
        dense = rng.random() < 0.3
    if dense:
        chosen = [i for i in cands if i > 1 and rng.random() < 0.9] or cands[:1]
    else:
        chosen = rng.sample(cands, min(len(cands), rng.randint(1, max(1, min(8, n // 3)))))
    inserts = {}
    cp = COMMENT_PREFIX[lang]
    for i in chosen:
        r = rng.random()
        if r < 0.55:
            inserts[i] = [""]
        elif r < 0.8:
            inserts[i] = [f"{cp} note {rng.randrange(1000)}"]
        else:
            inserts[i] = ["", rng.choice([f"{cp} sink(main);", f"{cp} function main(tainted) {{", f"{cp} import a.b, c", f"{cp} }}"])]
    new, lm, ins = insert_lines(text, inserts)
    toks2, err2 = ts_tokens(lang, new, repo)
    if err2 or [(t[0], t[1]) for t in toks] != [(t[0], t[1]) for t in toks2]:
        return None
    if [lm[t[2]] for t in toks] != [t[2] for t in toks2]:
        return None
    out = dict(files)
    out[rel] = new
    return Step("blank-lines", out, _full_map(files, rel, lm), detail={"file": rel, "at": sorted(inserts), "dense": dense}, target=rel)


def ts_noop(lang, files, rng, rel, repo):
    text = files[rel]
    toks, err = ts_tokens(lang, text, repo)
    if err:
        return None
    lines = split_lines(text)
    n = len(lines)
    noop = NOOP_TEXT[lang]
    order = list(range(2, n + 1))
    rng.shuffle(order)
    for i in order[:25]:
        ref = lines[i - 1]
        ind = ref[:len(ref) - len(ref.lstrip())]
        prev_code = next((lines[k].strip() for k in range(i - 2, -1, -1) if lines[k].strip()), "")
        if re.match(r"(return|throw|break|continue|goto|exit|die)\b", prev_code):
            continue            # a statement after a jump is unreachable: javac rejects it, elsewhere it is dead code
        new, lm, ins = insert_lines(text, {i: [ind + noop]})
        toks2, err2 = ts_tokens(lang, new, repo)
        if err2:
            continue
        kept = [t for t in toks2 if t[2] not in ins]
        added = [t for t in toks2 if t[2] in ins]
        if [(t[0], t[1]) for t in kept] != [(t[0], t[1]) for t in toks]:
            continue
        if [lm[t[2]] for t in toks] != [t[2] for t in kept]:
            continue
        if lang == "go":
            ok = True       # `_ = 0` parsed as an assignment statement: its tokens sit under assignment_statement;
            # require that the statement itself sits in a block
            ok = _go_stmt_in_block(new, sorted(ins)[0], repo)
        else:
            ok = len(added) == 1 and added[0][1] == ";" and _empty_stmt_parent_ok(lang, new, sorted(ins)[0], repo)
        if not ok:
            continue
        out = dict(files)
        out[rel] = new
        return Step("noop-stmt", out, _full_map(files, rel, lm), detail={"file": rel, "inserted": [[i, noop]]}, target=rel)
    return None


def _node_at_row(lang, text, row, repo):
    p = ts_parser(lang, repo)
    tree = p.parse(text.encode("utf-8"))
    found = []
    stack = [tree.root_node]
    while stack:
        n = stack.pop()
        if n.start_point[0] + 1 == row and n.end_point[0] + 1 == row:
            found.append(n)
        if n.start_point[0] + 1 <= row <= n.end_point[0] + 1:
            stack.extend(n.children)
    return found


def _empty_stmt_parent_ok(lang, text, row, repo):
    nodes = _node_at_row(lang, text, row, repo)
    tops = [n for n in nodes if n.parent is not None and not (n.parent.start_point[0] + 1 == row and n.parent.end_point[0] + 1 == row)]
    if len(tops) != 1:
        return False
    n = tops[0]
    if n.type not in ("empty_statement", ";", "expression_statement"):
        return False
    return n.parent.type in BLOCK_PARENTS[lang]


def _go_stmt_in_block(text, row, repo):
    nodes = _node_at_row("go", text, row, repo)
    tops = [n for n in nodes if n.parent is not None and not (n.parent.start_point[0] + 1 == row and n.parent.end_point[0] + 1 == row)]
    tops = [n for n in tops if n.type not in ("\n", ";")]
    if len(tops) != 1:
        return False
    n = tops[0]
    if n.type != "assignment_statement":
        return False
    par = n.parent
    if par.type == "statement_list":
        par = par.parent
    return par is not None and par.type == "block"


IDENT_TYPES = ("identifier", "type_identifier", "field_identifier", "property_identifier", "name", "variable_name",
               "shorthand_property_identifier", "shorthand_property_identifier_pattern", "package_identifier")


def ts_rename(lang, files, rng, rel, repo, names, kind):
    """names: identifiers the program's author declares to be ONE entity each (unique in the file). Every word
    occurrence must be an identifier token; the fresh name occurs nowhere."""
    text = files[rel]
    toks, err = ts_tokens(lang, text, repo)
    if err or not names:
        return None
    cands = sorted(names)
    rng.shuffle(cands)
    for old in cands:
        pat = re.compile(r"(?<![A-Za-z0-9_$])" + re.escape(old) + r"(?![A-Za-z0-9_$])")
        occ = [(m.start(), m.end()) for m in pat.finditer(text)]
        if not occ:
            continue
        n_tok = sum(1 for t in toks if t[1] == old and (t[0] in IDENT_TYPES or t[0].endswith("identifier")))
        if lang == "php":
            n_tok = sum(1 for t in toks if t[1] == old and t[0] == "name")
        if n_tok != len(occ):
            continue           # also occurs in a string/comment or as a non-identifier token
        if any(fp != rel and pat.search(t) for fp, t in files.items()):
            continue
        new = fresh_name(files, rng, old.lstrip("$")[:12])
        if new is None:
            return None
        new_text = pat.sub(new, text)
        toks2, err2 = ts_tokens(lang, new_text, repo)
        if err2 or len(toks2) != len(toks):
            continue
        if any((a[0], a[1] if a[1] != old else new, a[2]) != (c[0], c[1], c[2]) for a, c in zip(toks, toks2)):
            continue
        out = dict(files)
        out[rel] = new_text
        nm = {}
        for i, l in enumerate(split_lines(text), 1):
            if pat.search(l):
                nm[(rel, i, old)] = new
                if lang == "php":
                    nm[(rel, i, "$" + old)] = "$" + new
        return Step(kind, out, identity_line_map(files), name_map=nm,
                    detail={"file": rel, "old": old, "new": new, "occurrences": len(occ)}, target=rel)
    return None


def ts_rename_tokens(lang, files, rng, rel, repo, old, token_types, kind):
    """Rename ONE of several entities that share a spelling (a function `helper` and a never-referenced class member
    `helper`): only the tokens of the given tree-sitter types (`identifier` = the variable/function namespace,
    `property_identifier` = the member namespace) are replaced. The program's author declares that the tokens of these
    types with this spelling are one entity; the editor proves that exactly those tokens changed and nothing else."""
    text = files[rel]
    toks, err = ts_tokens(lang, text, repo)
    if err:
        return None
    sel = [i for i, t in enumerate(toks) if t[1] == old and t[0] in token_types]
    rest = [i for i, t in enumerate(toks) if t[1] == old and t[0] not in token_types]
    if not sel:
        return None
    if any(not (t[0] in IDENT_TYPES or t[0].endswith("identifier")) for t in (toks[i] for i in rest)):
        return None            # the spelling also occurs in a string or another role we cannot classify
    pat = re.compile(r"(?<![A-Za-z0-9_$])" + re.escape(old) + r"(?![A-Za-z0-9_$])")
    if len(pat.findall(text)) != len(sel) + len(rest):
        return None            # also inside a comment / string
    if any(fp != rel and pat.search(t) for fp, t in files.items()):
        return None
    new = fresh_name(files, rng, old[:12])
    if new is None:
        return None
    lines = split_lines(text)
    by_line = {}
    for i in sel:
        by_line.setdefault(toks[i][2], []).append(toks[i][5])
    for ln, cols in by_line.items():
        l = lines[ln - 1]
        if not l.isascii():
            return None
        for col in sorted(cols, reverse=True):
            if l[col:col + len(old)] != old:
                return None
            l = l[:col] + new + l[col + len(old):]
        lines[ln - 1] = l
    new_text = join_lines(lines)
    toks2, err2 = ts_tokens(lang, new_text, repo)
    if err2 or len(toks2) != len(toks):
        return None
    for i, (a, c) in enumerate(zip(toks, toks2)):
        want = new if i in sel else a[1]
        if (a[0], want, a[2]) != (c[0], c[1], c[2]):
            return None
    out = dict(files)
    out[rel] = new_text
    unren_lines = {toks[i][2] for i in rest}
    if unren_lines & set(by_line):
        return None            # both entities on one line: the line-keyed name map would be ambiguous
    nm = {(rel, ln, old): new for ln in by_line}
    return Step(kind, out, identity_line_map(files), name_map=nm,
                detail={"file": rel, "old": old, "new": new, "occurrences": len(sel), "token_types": list(token_types),
                        "same_spelling_left_alone": len(rest)}, target=rel)


def ts_reorder(lang, files, rng, rel, repo, groups, reverse=False, hierarchy=()):
    """groups: [[(first line, last line), ...], ...] blocks of independent definitions (declared by the program's
    author for the UNEDITED text). reverse: the blocks of the first group in reverse order. hierarchy: [(first line of a
    subclass block, first line of its superclass block)] — only used to REPORT whether a subclass now precedes its
    superclass (the author declares the group order-independent, e.g. top-level Java classes)."""
    text = files[rel]
    groups = [g for g in groups if len(g) >= 2]
    if not groups:
        return None
    g = sorted(groups[0] if reverse else rng.choice(groups))
    perm = list(range(len(g)))
    if reverse:
        perm.reverse()
    else:
        for _ in range(10):
            rng.shuffle(perm)
            if perm != sorted(perm):
                break
        else:
            return None
    new, lm = permute_blocks(text, g, perm)
    toks, err = ts_tokens(lang, text, repo)
    toks2, err2 = ts_tokens(lang, new, repo)
    if err or err2:
        return None
    if sorted((t[0], t[1], lm[t[2]]) for t in toks) != sorted((t[0], t[1], t[2]) for t in toks2):
        return None
    out = dict(files)
    out[rel] = new
    sub_first = any(lm.get(c, 0) < lm.get(p_, 0) for (c, p_) in hierarchy if c in lm and p_ in lm)
    return Step("reorder-defs", out, _full_map(files, rel, lm),
                detail={"file": rel, "blocks": g, "perm": perm, "subclass_before_superclass": bool(sub_first)}, target=rel)


def js_move_to_file(files, rng, rel, repo, groups, protected=(), helper=None):
    """JavaScript: move one self-contained top-level function declaration (author-declared block of the UNEDITED text)
    into a new ES module and import it where the declaration stood. groups=None: `rel` is a module that consists of one
    function declaration followed by its `export { f };` line (what this editor itself produces) — the function moves on
    and the module re-exports it."""
    text = files[rel]
    toks, err = ts_tokens("javascript", text, repo)
    if err:
        return None
    lines = split_lines(text)
    if groups is None:
        if len(lines) < 2 or not re.match(r"export \{ [A-Za-z_$][A-Za-z_0-9$]* \};$", lines[-1]) or not lines[0].startswith("function "):
            return None
        groups = [[(1, len(lines) - 1)]]
    blocks = [b for g in groups for b in g]
    cands = []
    for (s, e) in blocks:
        m = re.match(r"function\s+([A-Za-z_$][A-Za-z_0-9$]*)\s*\(", lines[s - 1])
        if not m or m.group(1) in protected:
            continue
        name = m.group(1)
        inside = {t[1] for t in toks if s <= t[2] <= e and t[0] == "identifier"}
        outside = {t[1] for t in toks if not (s <= t[2] <= e) and t[0] in ("identifier", "shorthand_property_identifier", "shorthand_property_identifier_pattern")}
        if (inside - {name, "out", "sink"}) & outside:
            continue
        if any(t[0] == "this" for t in toks if s <= t[2] <= e):
            continue
        if lines[e - 1].strip() != "}":
            continue
        cands.append((s, e, name))
    if not cands:
        return None
    s, e, name = rng.choice(cands)
    if helper is None:
        helper = fresh_name(files, rng, rng.choice(["helper_mod", "zz_util", "aa_lib"]))
    if helper is None:
        return None
    d = os.path.dirname(rel)
    hrel = os.path.join(d, helper + ".js") if d else helper + ".js"
    if hrel in files:
        return None
    new_main = lines[:s - 1] + [f'import {{ {name} }} from "./{helper}.js";'] + lines[e:]
    moved = lines[s - 1:e] + [f"export {{ {name} }};"]
    out = dict(files)
    out[rel] = join_lines(new_main)
    out[hrel] = join_lines(moved)
    for r in (rel, hrel):
        if ts_tokens("javascript", out[r], repo)[1]:
            return None
    lm = identity_line_map({r: t for r, t in files.items() if r != rel})
    for i in range(1, len(lines) + 1):
        if i < s:
            lm[(rel, i)] = (rel, i)
        elif i <= e:
            lm[(rel, i)] = (hrel, i - s + 1)
        else:
            lm[(rel, i)] = (rel, i - (e - s + 1) + 1)
    alias = {(hrel, 1, name): [(rel, s, name)]}
    base = os.path.basename(rel)
    importers = sorted(r for r, t in files.items() if r != rel and re.search(r"from \"\./" + re.escape(base) + r"\"", t)
                       and re.search(r"(?<![A-Za-z0-9_$])" + re.escape(name) + r"(?![A-Za-z0-9_$])", t))
    return Step("move-to-file", out, lm, decl_alias=alias,
                detail={"file": rel, "function": name, "helper": hrel, "lines": [s, e], "imported_by": importers}, target=rel)
