"""Fork-per-job pool. The calling process is the zygote: it has imported lian (lib.lianrun.prepare_zygote)
and never touches pandas/pyarrow itself; every job runs in a forked child with pristine lian module
state, a redirected stdout/stderr and a wall-clock watchdog whose firing is *inconclusive*, not a verdict.
No multiprocessing.Pool (it hangs when a child dies)."""
import os
import pickle
import signal
import sys
import time
import traceback
import faulthandler

from . import common


class JobResult:
    __slots__ = ("item", "status", "value", "log", "wall")

    def __init__(self, item, status, value, log, wall):
        self.item, self.status, self.value, self.log, self.wall = item, status, value, log, wall

    def log_text(self, limit=4000):
        try:
            with open(self.log, "rb") as f:
                data = f.read()
            return data[-limit:].decode("utf-8", "replace")
        except OSError:
            return ""


def _child(fn, item, out_path, log_path):
    try:
        fd = os.open(log_path, os.O_WRONLY | os.O_CREAT | os.O_TRUNC, 0o644)
        sys.stdout.flush(); sys.stderr.flush()
        os.dup2(fd, 1); os.dup2(fd, 2)
        devnull = os.open(os.devnull, os.O_RDONLY)
        os.dup2(devnull, 0)
        sys.stdout = os.fdopen(1, "w", buffering=1, closefd=False)
        sys.stderr = os.fdopen(2, "w", buffering=1, closefd=False)
        faulthandler.enable(file=sys.stderr)
        try:
            value = ("ok", fn(item))
        except SystemExit as e:
            value = ("exit", e.code)
        except BaseException as e:   # noqa
            value = ("exception", (type(e).__name__, str(e)[:2000], traceback.format_exc()[-6000:]))
        try:
            with open(out_path, "wb") as f:
                pickle.dump(value, f)
        except BaseException as e:  # unpicklable result
            with open(out_path, "wb") as f:
                pickle.dump(("exception", ("PickleError", repr(e), traceback.format_exc())), f)
        sys.stdout.flush(); sys.stderr.flush()
    finally:
        os._exit(0)


def run_jobs(fn, items, workers=None, timeout=120.0, tag="job"):
    """Run fn(item) for every item, each in its own forked child. Yields JobResult in completion order.
    status: ok | exit (SystemExit, value = code) | exception (value = (type, msg, tb)) | signal (value = signo)
            | timeout (watchdog) | lost (child vanished without a result)."""
    items = list(items)
    workers = workers or min(16, os.cpu_count() or 4)
    root = os.path.join(common.scratch(), f"pool_{tag}_{os.getpid()}_{int(time.time()*1000) % 100000}")
    os.makedirs(root, exist_ok=True)
    pending = list(enumerate(items))
    pending.reverse()
    running = {}   # pid -> (idx, item, out, log, t0)
    while pending or running:
        while pending and len(running) < workers:
            idx, item = pending.pop()
            out = os.path.join(root, f"{idx}.pkl")
            log = os.path.join(root, f"{idx}.log")
            sys.stdout.flush(); sys.stderr.flush()
            pid = os.fork()
            if pid == 0:
                _child(fn, item, out, log)
            running[pid] = (idx, item, out, log, time.time())
        # reap
        reaped = False
        for pid in list(running):
            try:
                rpid, st = os.waitpid(pid, os.WNOHANG)
            except ChildProcessError:
                rpid, st = pid, 0
            if rpid == 0:
                idx, item, out, log, t0 = running[pid]
                if time.time() - t0 > timeout:
                    try:
                        os.kill(pid, signal.SIGKILL)
                    except ProcessLookupError:
                        pass
                    os.waitpid(pid, 0)
                    del running[pid]
                    reaped = True
                    yield JobResult(item, "timeout", None, log, time.time() - t0)
                continue
            idx, item, out, log, t0 = running.pop(pid)
            reaped = True
            wall = time.time() - t0
            if os.WIFSIGNALED(st):
                yield JobResult(item, "signal", os.WTERMSIG(st), log, wall)
                continue
            try:
                with open(out, "rb") as f:
                    status, value = pickle.load(f)
                os.unlink(out)
            except Exception:
                yield JobResult(item, "lost", None, log, wall)
                continue
            yield JobResult(item, status, value, log, wall)
        if not reaped:
            time.sleep(0.005)


def run_one(fn, item, timeout=120.0, tag="one"):
    for r in run_jobs(fn, [item], workers=1, timeout=timeout, tag=tag):
        return r
