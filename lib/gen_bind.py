"""G-bind — scope/binding programs for C05.

Every declaration is initialised with a distinct integer constant and every use is printed by `out("<tag>", name)` with a
unique tag, one use per source line, so the language runtime itself (CPython / node) reveals which declaration each executed
use read. Function and class declarations are identified by value too (CPython: qualified name in the repr; node: a
`/*D<const>*/` marker found in Function.prototype.toString). Every function prints `out(ct, <identity constant>)` first thing,
`ct` being a call tag passed by the call site, so call sites are judged occurrences as well.

The generators keep a small scoping model of their own ONLY to produce valid, total programs (e.g. to decide which uses have to be
wrapped in try/except because nothing is visible). It is never used as an oracle: the check derives the expected binding from the
runtime's output, and for Python cross-checks it with the `symtable` module.

A generated program is a model tree + `render(rename)`; `rename` maps occurrence keys to new names, which is how the alpha-renamed
twin of a program is produced once the dynamic oracle has told which occurrences are bound to the chosen declaration.

Occurrence keys:  "a<const>" assignment/declaration with initialiser <const>, "p<const>" parameter (argument constant <const>),
"u<n>" use, "w<n>" keyword-less JavaScript write, "c<n>" call-site callee name (or the class name of `K().m(...)` / `new K().m(...)`),
"d<sid>" the name in the def/class/function statement of scope <sid>, "g<sid>:<name>" a global/nonlocal statement, "i<n>" import binding.
"""
import json
import random

VAR_NAMES = ["x", "y", "z", "w"]
FN_NAMES = ["f", "g", "h"]
CL_NAMES = ["K", "L"]


class Ids:
    def __init__(self, base=1000):
        self.c, self.u, self.k, self.s, self.i = base, 0, 0, 0, 0

    def const(self):
        self.c += 1
        return self.c

    def use(self):
        self.u += 1
        return f"u{self.u}"

    def call(self):
        self.k += 1
        return f"c{self.k}"

    def scope(self):
        self.s += 1
        return self.s

    def imp(self):
        self.i += 1
        return f"i{self.i}"


def wchoice(rng, pairs):
    tot = sum(w for _, w in pairs)
    r = rng.random() * tot
    for v, w in pairs:
        r -= w
        if r <= 0:
            return v
    return pairs[-1][0]


# =====================================================================================================================
# Python, single file
# =====================================================================================================================
class PScope:
    def __init__(self, sid, kind, name, parent):
        self.sid, self.kind, self.name, self.parent = sid, kind, name, parent      # kind: module | function | class
        self.params = []          # [(name, const)]
        self.locals = {}          # name -> const of the declaring assignment
        self.globals_ = set()
        self.nonlocals = set()
        self.children = {}        # bound function/class name -> PScope
        self.items = []
        self.ident = None
        self.is_method = False

    def module(self):
        s = self
        while s.parent is not None:
            s = s.parent
        return s

    def binds(self, name):
        return name in self.locals or name in self.children or any(p == name for p, _ in self.params)


def py_visible(scope, name):
    """The generator's own (non-oracle) view of Python scoping, used only to decide try/except wrapping."""
    s, first = scope, True
    mod = scope.module()
    while s is not None:
        if s.kind == "class" and not first:
            s = s.parent
            continue
        if s.kind == "module":
            return s.binds(name)
        if name in s.globals_:
            return mod.binds(name)
        if s.binds(name):
            return True
        first = False
        s = s.parent
    return False


def py_nonlocal_ok(scope, name):
    s = scope.parent
    while s is not None:
        if s.kind == "class":
            s = s.parent
            continue
        if s.kind == "module":
            return False
        if name in s.globals_:
            return False
        if s.binds(name) or name in s.nonlocals:
            return True
        s = s.parent
    return False


PY_BLOCKS = [(None, 58), ("if", 9), ("else", 5), ("for", 8), ("try", 5), ("except", 10), ("while", 5)]


class PyBindGen:
    def __init__(self, seed, rich=False):
        self.rng = random.Random(seed)
        self.ids = Ids(1000)
        self.rich = rich
        self.scopes = {}

    def new_scope(self, kind, name, parent):
        s = PScope(self.ids.scope(), kind, name, parent)
        self.scopes[s.sid] = s
        return s

    def build(self):
        mod = self.new_scope("module", "<module>", None)
        self.fill(mod, 0)
        return mod

    def fill(self, sc, depth):
        rng, ids = self.rng, self.ids
        mod = sc.module()
        head, decls, uses, calls, late = [], [], [], [], []
        taken = set()
        if sc.kind == "function":
            sc.ident = ids.const()
            k = wchoice(rng, [(0, 4), (1, 4), (2, 2)])
            for n in rng.sample(VAR_NAMES, k):
                sc.params.append((n, ids.const()))
                taken.add(n)
        elif sc.kind == "class":
            sc.ident = ids.const()
        # roles of the variable names in this scope
        for n in VAR_NAMES:
            if n in taken:
                continue
            if sc.kind == "module":
                role = wchoice(rng, [("local", 55), ("none", 45)])
            elif sc.kind == "class":
                role = wchoice(rng, [("local", 50), ("none", 50)])
            else:
                opts = [("local", 34), ("none", 40)]
                if mod.binds(n):
                    opts.append(("global", 13))
                if py_nonlocal_ok(sc, n):
                    opts.append(("nonlocal", 13))
                role = wchoice(rng, opts)
            if role == "local":
                c = ids.const()
                sc.locals[n] = c
                decls.append(("assign", n, c, wchoice(rng, PY_BLOCKS) if sc.kind != "class" else None))
            elif role in ("global", "nonlocal"):
                (sc.globals_ if role == "global" else sc.nonlocals).add(n)
                head.append((role, n))
                if rng.random() < 0.5:
                    decls.append(("assign", n, ids.const(), wchoice(rng, PY_BLOCKS)))
        # children. Function nesting is bounded by the number of FUNCTION levels (+1 inside a class), class nesting by 3 levels:
        # a class body may hold a nested class, whose methods (and the closures in them) must not see the outer class bodies,
        # and whose own body sees its own names but not those of the outer class.
        chain, q = [], sc
        while q is not None:
            chain.append(q)
            q = q.parent
        fdepth = sum(1 for q in chain if q.kind == "function")
        cdepth = 0
        for q in chain:
            if q.kind != "class":
                break
            cdepth += 1
        eff = fdepth + (1 if any(q.kind == "class" for q in chain) else 0)
        if sc.kind == "class":
            nchild = wchoice(rng, [(1, 6), (2, 4)])
        else:
            nchild = {0: wchoice(rng, [(2, 5), (3, 5)]), 1: wchoice(rng, [(0, 2), (1, 5), (2, 3)]),
                      2: wchoice(rng, [(0, 5), (1, 5)])}.get(eff, 0)
        fn_pool = FN_NAMES + (["m", "n"] if sc.kind == "class" else [])
        if sc.kind == "class" and cdepth < 3 and rng.random() < 0.5:
            free = [c for c in CL_NAMES + ["M"] if c not in sc.children and all(c != q.name for q in chain)]
            if free:
                ch = self.new_scope("class", rng.choice(free), sc)
                sc.children[ch.name] = ch
                decls.append(("def", ch))
        for _ in range(nchild):
            if sc.kind != "class" and fdepth < 2 and rng.random() < 0.3:
                free = [c for c in CL_NAMES if c not in sc.children]
                if not free:
                    continue
                ch = self.new_scope("class", rng.choice(free), sc)
            else:
                free = [f for f in fn_pool if f not in sc.children]
                if not free:
                    continue
                ch = self.new_scope("function", rng.choice(free), sc)
                ch.is_method = sc.kind == "class"
            sc.children[ch.name] = ch
            decls.append(("def", ch))
        for ch in list(sc.children.values()):
            self.fill(ch, depth + 1)
        # uses. lian's Python frontend keeps only assignments and definitions of a class body, so a read in a class body is
        # written as the field assignment `uN = name` and revealed by out("uN", K.uN) right after the class statement.
        if sc.kind == "class":
            for n in VAR_NAMES + FN_NAMES:
                if rng.random() < 0.5 and py_visible(sc, n):
                    uses.append(("cuse", ids.use(), n))
            rng.shuffle(uses)
            # a name the class itself binds is read only after that binding (before it, LOAD_NAME would fall back to the globals
            # while symtable calls the name local — the two oracles would disagree by construction)
            early = [u for u in uses if u[2] not in sc.children] if rng.random() < 0.5 else []
            lateu = [u for u in uses if u not in early]
            sc.items = [d for d in decls if d[0] == "assign"] + early + [d for d in decls if d[0] == "def"] + lateu
            return
        for n in VAR_NAMES:
            if rng.random() < 0.62:
                uses.append(("use", ids.use(), n, not py_visible(sc, n)))
        # (class bodies run before sibling classes exist: no class-name reads there, nor at module level before the defs)
        for n in FN_NAMES + ([] if sc.kind in ("class", "module") else CL_NAMES):
            if rng.random() < 0.22:
                uses.append(("use", ids.use(), n, not py_visible(sc, n)))
        if sc.kind == "module":
            for n in CL_NAMES:
                if rng.random() < 0.22:
                    late.append(("use", ids.use(), n, not py_visible(sc, n)))
        # calls of the children (a class's methods are called by the scope that defines the class)
        if sc.kind != "class":
            def method_calls(top, path):
                for m in path[-1].children.values():
                    if m.kind == "function":
                        calls.append(("mcall", ids.call(), top, m, list(path)))
                    else:
                        method_calls(top, path + [m])       # a nested class: K.L().m(...) from the scope that defines K
            for ch in sc.children.values():
                if ch.kind == "function":
                    calls.append(("call", ids.call(), ch))
                else:
                    method_calls(ch, [ch])
            # an extra call through whatever is visible under a function name (exercises call-name binding of outer functions)
            for n in FN_NAMES:
                if n not in sc.children and rng.random() < 0.15:
                    tgt = self.lookup_fn(sc, n)
                    if tgt is not None and self.earlier_sibling_of_ancestor(tgt, sc):
                        calls.append(("xcall", ids.call(), n, tgt))
        for n in VAR_NAMES:
            if rng.random() < 0.25:
                late.append(("use", ids.use(), n, not py_visible(sc, n)))
        rng.shuffle(decls)
        rng.shuffle(uses)
        # class bodies run at definition time: they come after the assignments so that what they read already has a value
        decls = [d for d in decls if not (d[0] == "def" and d[1].kind == "class")] + \
                [d for d in decls if d[0] == "def" and d[1].kind == "class"]
        sc.items = head + decls + uses + calls + late

    def lookup_fn(self, sc, name):
        s, first = sc, True
        while s is not None:
            if s.kind == "class" and not first:
                s = s.parent
                continue
            if name in s.children and s.children[name].kind == "function":
                return s.children[name]
            if s.binds(name):
                return None
            first = False
            s = s.parent
        return None

    @staticmethod
    def earlier_sibling_of_ancestor(tgt, sc):
        """tgt is a child of an ancestor A of sc, declared before the ancestor-or-self B of sc that is A's child: calling only
        'earlier' functions keeps the call graph acyclic."""
        b = sc
        while b is not None and b.parent is not tgt.parent:
            b = b.parent
        return b is not None and tgt.sid < b.sid


class PyRender:
    """Renders a PScope tree. Collects, per occurrence, where it is (0-based line) and which scope it sits in."""

    def __init__(self, rename=None):
        self.rename = rename or {}
        self.lines = []
        self.meta = {"lang": "python", "uses": {}, "assigns": {}, "params": {}, "scopes": {}, "calls": {}, "idents": {},
                     "scopestmts": {}, "occ": {}}

    def nm(self, key, name, sid):
        rn = self.rename.get(key, name)
        self.meta["occ"][key] = {"name": rn, "scope": sid, "line": len(self.lines)}
        return rn

    def emit(self, ind, text):
        self.lines.append("    " * ind + text)
        return len(self.lines) - 1

    def qual(self, sc, name=None):
        name = sc.name if name is None else name
        p = sc.parent
        if p is None or p.kind == "module":
            return name
        pq = self.quals[p.sid]
        return pq + ("." if p.kind == "class" else ".<locals>.") + name

    def render(self, mod):
        self.quals = {}
        self.meta["scopes"][mod.sid] = {"kind": "module", "name": "<module>", "line": -1, "parent": None, "method": False}
        self.body(mod, 0)
        return "\n".join(self.lines) + "\n", self.meta

    def block(self, kind, ind, inner):
        """inner(ind) emits the wrapped statement(s)."""
        if kind is None:
            inner(ind)
        elif kind == "if":
            self.emit(ind, "if 1 > 0:")
            inner(ind + 1)
        elif kind == "else":
            self.emit(ind, "if 1 < 0:")
            self.emit(ind + 1, "pass")
            self.emit(ind, "else:")
            inner(ind + 1)
        elif kind == "for":
            self.emit(ind, "for _i in range(1):")
            inner(ind + 1)
        elif kind == "while":
            self.emit(ind, "while True:")
            inner(ind + 1)
            self.emit(ind + 1, "break")
        elif kind == "try":
            self.emit(ind, "try:")
            inner(ind + 1)
            self.emit(ind, "except ValueError:")
            self.emit(ind + 1, "pass")
        elif kind == "except":
            self.emit(ind, "try:")
            self.emit(ind + 1, "raise ValueError()")
            self.emit(ind, "except ValueError:")
            inner(ind + 1)

    def body(self, sc, ind):
        """All names recorded in the meta tables are the RENDERED names: the meta of a renamed twin describes the twin."""
        m = self.meta
        sid = sc.sid
        if sc.kind == "function":
            self.emit(ind, f"out(ct, {sc.ident})")
            m["idents"][sc.ident] = sid
        elif sc.kind == "class":
            self.emit(ind, f"_d = {sc.ident}")
            m["idents"][sc.ident] = sid
        for it in sc.items:
            k = it[0]
            if k in ("global", "nonlocal"):
                key = f"g{sid}:{it[1]}"
                rn = self.nm(key, it[1], sid)
                ln = self.emit(ind, f"{k} {rn}")
                m["scopestmts"][key] = {"kind": k, "name": rn, "scope": sid, "line": ln}
            elif k == "assign":
                _, n, c, blk = it

                def inner(i2, n=n, c=c, blk=blk):
                    ln = len(self.lines)
                    rn = self.nm(f"a{c}", n, sid)
                    self.emit(i2, f"{rn} = {c}")
                    m["assigns"][str(c)] = {"name": rn, "scope": sid, "line": ln, "block": blk}
                self.block(blk, ind, inner)
            elif k == "use":
                _, tag, n, wrapped = it
                rn = self.rename.get(tag, n)
                if wrapped:
                    self.emit(ind, "try:")
                    self.emit(ind + 1, f'out("{tag}", {self.nm(tag, n, sid)})')
                    ln = len(self.lines) - 1
                    self.emit(ind, "except NameError:")
                    self.emit(ind + 1, f'out("{tag}", "!NE")')
                else:
                    ln = self.emit(ind, f'out("{tag}", {self.nm(tag, n, sid)})')
                m["uses"][tag] = {"name": rn, "scope": sid, "line": ln, "wrapped": wrapped}
            elif k == "cuse":
                _, tag, n = it
                rn = self.rename.get(tag, n)
                ln = self.emit(ind, f"{tag} = {self.nm(tag, n, sid)}")
                m["uses"][tag] = {"name": rn, "scope": sid, "line": ln, "wrapped": False, "cuse": True}
            elif k == "def":
                ch = it[1]
                key = f"d{ch.sid}"
                rname = self.rename.get(key, ch.name)
                self.quals[ch.sid] = self.qual(ch, rname)
                if ch.kind == "class":
                    ln = self.emit(ind, f"class {self.nm(key, ch.name, sid)}:")
                else:
                    ps = (["self"] if ch.is_method else []) + ["ct"] + [self.nm(f"p{c}", p, ch.sid) for p, c in ch.params]
                    ln = self.emit(ind, f"def {self.nm(key, ch.name, sid)}({', '.join(ps)}):")
                    for p, c in ch.params:
                        m["params"][str(c)] = {"name": self.rename.get(f"p{c}", p), "scope": ch.sid, "line": ln}
                        m["occ"][f"p{c}"]["line"] = ln
                m["scopes"][ch.sid] = {"kind": ch.kind, "name": rname, "line": ln, "parent": sid, "method": ch.is_method,
                                       "qual": self.quals[ch.sid]}
                self.body(ch, ind + 1)
                if ch.kind == "class":
                    for it2 in ch.items:
                        if it2[0] == "cuse":
                            self.emit(ind, f'out("{it2[1]}", {self.nm("r" + it2[1], ch.name, sid)}.{it2[1]})')
            elif k in ("call", "xcall"):
                if k == "call":
                    _, ctag, ch = it
                    n = ch.name
                else:
                    _, ctag, n, ch = it
                args = [f'"{ctag}"'] + [str(c) for _, c in ch.params]
                rn = self.rename.get(ctag, n)
                ln = self.emit(ind, f"{self.nm(ctag, n, sid)}({', '.join(args)})")
                m["calls"][ctag] = {"name": rn, "scope": sid, "line": ln, "callee": ch.sid, "kind": "call"}
            elif k == "mcall":
                _, ctag, cls, meth, path = it
                args = [f'"{ctag}"'] + [str(c) for _, c in meth.params]
                rn = self.rename.get(ctag, cls.name)
                mname = self.rename.get(f"d{meth.sid}", meth.name)
                inner = "".join("." + self.rename.get(f"d{c_.sid}", c_.name) for c_ in path[1:])
                ln = self.emit(ind, f"{self.nm(ctag, cls.name, sid)}{inner}().{mname}({', '.join(args)})")
                m["calls"][ctag] = {"name": rn, "scope": sid, "line": ln, "callee": meth.sid, "kind": "mcall", "cls": cls.sid}


def gen_python(seed, rename=None):
    g = PyBindGen(seed)
    mod = g.build()
    text, meta = PyRender(rename).render(mod)
    return text, json.loads(json.dumps(meta))        # (string keys throughout, exactly as a replay file holds it)



# =====================================================================================================================
# JavaScript, single file (sloppy mode, run in a fresh vm context per program)
# =====================================================================================================================
class JScope:
    def __init__(self, sid, kind, style, parent):
        self.sid, self.kind, self.style, self.parent = sid, kind, style, parent      # kind: module | function | block
        self.decls = {}          # name -> (declkind, const)   declkind: let const var param function funcexpr class
        self.params = []
        self.items = []
        self.ident = None
        self.name = None         # functions/classes: the bound name
        self.children = []       # function scopes declared here (for calls)
        self.lets = set()        # names let/const-declared in this very block (for var conflicts)

    def func(self):
        s = self
        while s.kind == "block":
            s = s.parent
        return s


def js_resolve(scope, name):
    s = scope
    while s is not None:
        if name in s.decls:
            return s.decls[name]
        s = s.parent
    return None


JS_BLOCKS = [("bare", 3), ("if", 3), ("else", 2), ("for", 3), ("try", 2), ("catch", 3), ("while", 1)]


class JsBindGen:
    def __init__(self, seed):
        self.rng = random.Random(seed)
        self.ids = Ids(1000)
        self.wn = 0

    def wtag(self):
        self.wn += 1
        return f"w{self.wn}"

    def new_scope(self, kind, style, parent):
        return JScope(self.ids.scope(), kind, style, parent)

    def build(self):
        mod = self.new_scope("module", None, None)
        self.fill(mod, 0, 0)
        return mod

    def lexical_conflict(self, sc, name):
        """would `var name` placed in block sc collide with a let/const of an enclosing block of the same function?"""
        s = sc
        while s is not None:
            if name in s.lets:
                return True
            if s.kind != "block":
                return False
            s = s.parent
        return False

    def fill(self, sc, fdepth, bdepth):
        rng, ids = self.rng, self.ids
        fn = sc.func()
        A, B, C = [], [], []
        if sc.kind == "function":
            sc.ident = ids.const()
            k = wchoice(rng, [(0, 4), (1, 4), (2, 2)])
            for n in rng.sample(VAR_NAMES, k):
                c = ids.const()
                sc.params.append((n, c))
                sc.decls[n] = ("param", c)
        # declarations of this scope
        for n in VAR_NAMES:
            if n in sc.decls:
                continue
            r = rng.random()
            if sc.kind == "block":
                if r < 0.22 and not (n in fn.decls and fn.decls[n][0] == "var" and fn.decls[n][2] is not None and self.inside(fn.decls[n][2], sc)):
                    kw = rng.choice(["let", "let", "const"])
                    c = ids.const()
                    sc.decls[n] = (kw, c)
                    sc.lets.add(n)
                    A.append(("decl", kw, n, c))
                elif r < 0.32 and n not in fn.decls and not self.lexical_conflict(sc, n):
                    # function-scoped var declared inside a nested block: belongs to the enclosing function
                    c = ids.const()
                    fn.decls[n] = ("var", c, sc)
                    A.append(("decl", "var", n, c))
            else:
                if r < 0.28:
                    kw = rng.choice(["let", "let", "const"])
                    c = ids.const()
                    sc.decls[n] = (kw, c)
                    sc.lets.add(n)
                    A.append(("decl", kw, n, c))
                elif r < 0.40:
                    c = ids.const()
                    sc.decls[n] = ("var", c, None)
                    A.append(("decl", "var", n, c))
        # nested functions / classes / blocks
        nfun = {0: wchoice(rng, [(1, 4), (2, 5), (3, 1)]), 1: wchoice(rng, [(0, 4), (1, 5), (2, 1)]), 2: wchoice(rng, [(0, 7), (1, 3)])}.get(fdepth, 0)
        if sc.kind == "block":
            nfun = wchoice(rng, [(0, 8), (1, 2)]) if fdepth < 3 else 0
        hoisted_last = []
        for _ in range(nfun):
            free = [f for f in FN_NAMES if f not in sc.decls and js_resolve(sc, f) is None or (f not in sc.decls and rng.random() < 0.5)]
            free = [f for f in free if f not in sc.decls]
            if not free:
                continue
            name = rng.choice(free)
            if sc.kind == "block":
                style = rng.choice(["expr", "arrow"])
            else:
                style = wchoice(rng, [("decl", 5), ("expr", 2), ("arrow", 2), ("class", 2 if fdepth < 2 else 0)])
            if style == "class":
                free_c = [c for c in CL_NAMES if c not in sc.decls]
                if not free_c:
                    continue
                cname = rng.choice(free_c)
                cls = self.new_scope("class", "class", sc)
                cls.name = cname
                cls.ident = ids.const()
                sc.decls[cname] = ("class", cls.ident)
                sc.lets.add(cname)
                # static fields and methods named like the pool names: members of a class are never in scope as bare names
                cls.statics = [(n_, ids.const()) for n_ in VAR_NAMES if rng.random() < 0.4]
                mnames = rng.sample(["m", "n"], wchoice(rng, [(1, 6), (2, 4)])) + ([rng.choice(FN_NAMES)] if rng.random() < 0.4 else [])
                for mname in mnames:
                    meth = self.new_scope("function", "method", cls)
                    meth.name = mname
                    cls.children.append(meth)
                    self.fill(meth, fdepth + 1, 0)
                    C.append(("mcall", ids.call(), cls, meth))
                A.append(("class", cls))
                continue
            ch = self.new_scope("function", style, sc)
            ch.name = name
            if style == "decl":
                # a function declaration is hoisted to the function scope; only emitted directly in function/module bodies
                sc.decls[name] = ("function", None, ch)
                if rng.random() < 0.3:
                    hoisted_last.append(("func", ch))
                else:
                    B.append(("func", ch))
            else:
                sc.decls[name] = ("funcexpr", None, ch)
                sc.lets.add(name)
                A.append(("func", ch))
            sc.children.append(ch)
        for ch in sc.children:
            self.fill(ch, fdepth + 1, 0)
            C.append(("call", ids.call(), ch))
        nblk = {0: wchoice(rng, [(0, 3), (1, 5), (2, 2)]), 1: wchoice(rng, [(0, 7), (1, 3)])}.get(bdepth, 0)
        for _ in range(nblk):
            b = self.new_scope("block", wchoice(rng, JS_BLOCKS), sc)
            self.fill(b, fdepth, bdepth + 1)
            B.append(("block", b))
        # uses and keyword-less writes
        for n in VAR_NAMES:
            if rng.random() < 0.5:
                B.append(self.use(sc, n))
            if rng.random() < 0.14:
                w = self.write(sc, n)
                if w:
                    B.append(w)
            if rng.random() < 0.18:
                C.append(self.use(sc, n))
        for n in FN_NAMES + CL_NAMES:
            if rng.random() < 0.14:
                B.append(self.use(sc, n))
        rng.shuffle(A)
        # function expressions / classes after the plain declarations (they may read them when called, not before)
        A = [a for a in A if a[0] == "decl"] + [a for a in A if a[0] != "decl"]
        rng.shuffle(B)
        sc.items = A + B + C + hoisted_last

    @staticmethod
    def inside(inner_candidate, outer):
        """block `inner_candidate` is `outer` or nested in it"""
        s = inner_candidate
        while s is not None:
            if s is outer:
                return True
            if s.kind != "block":
                return False
            s = s.parent
        return False

    def use(self, sc, n):
        d = js_resolve(sc, n)
        return ("use", self.ids.use(), n, d is None)

    def write(self, sc, n):
        d = js_resolve(sc, n)
        if d is not None and d[0] in ("const", "function", "funcexpr", "class"):
            return None
        if d is None:
            q = sc                  # class bodies are strict code: assigning an undeclared name throws there
            while q is not None:
                if q.kind == "class":
                    return None
                q = q.parent
        return ("write", self.ids.use(), self.wtag(), n, self.ids.const(), d is None)


class JsRender:
    def __init__(self, rename=None):
        self.rename = rename or {}
        self.lines = []
        self.meta = {"lang": "javascript", "uses": {}, "decls": {}, "params": {}, "scopes": {}, "calls": {}, "idents": {},
                     "writes": {}, "occ": {}}

    def nm(self, key, name, sid):
        rn = self.rename.get(key, name)
        self.meta["occ"][key] = {"name": rn, "scope": sid, "line": len(self.lines)}
        return rn

    def emit(self, ind, text):
        self.lines.append("  " * ind + text)
        return len(self.lines) - 1

    def render(self, mod):
        self.meta["scopes"][mod.sid] = {"kind": "module", "line": -1, "parent": None}
        self.body(mod, 0)
        return "\n".join(self.lines) + "\n", self.meta

    def use_stmt(self, ind, tag, n, sid, wrapped):
        rn = self.rename.get(tag, n)
        if wrapped:
            self.emit(ind, "try {")
            ln = self.emit(ind + 1, f'out("{tag}", {self.nm(tag, n, sid)});')
            self.emit(ind, "} catch (e_) {")
            self.emit(ind + 1, f'out("{tag}", "!RE");')
            self.emit(ind, "}")
        else:
            ln = self.emit(ind, f'out("{tag}", {self.nm(tag, n, sid)});')
        self.meta["uses"][tag] = {"name": rn, "scope": sid, "line": ln, "wrapped": wrapped}

    def body(self, sc, ind):
        m = self.meta
        sid = sc.sid
        for it in sc.items:
            k = it[0]
            if k == "decl":
                _, kw, n, c = it
                rn = self.nm(f"a{c}", n, sid)
                ln = self.emit(ind, f"{kw} {rn} = {c};")
                m["decls"][str(c)] = {"kind": kw, "name": rn, "scope": sid, "line": ln}
            elif k == "use":
                self.use_stmt(ind, it[1], it[2], sid, it[3])
            elif k == "write":
                _, ptag, wtag, n, c, wrapped = it
                self.use_stmt(ind, ptag, n, sid, wrapped)
                m["uses"][ptag]["probe_of"] = wtag
                rn = self.nm(wtag, n, sid)
                ln = self.emit(ind, f"{rn} = {c};")
                m["writes"][str(c)] = {"name": rn, "scope": sid, "line": ln, "probe": ptag, "wtag": wtag}
            elif k == "func":
                ch = it[1]
                key = f"d{ch.sid}"
                ps = ["ct"] + [self.nm(f"p{c}", p, ch.sid) for p, c in ch.params]
                rn = self.rename.get(key, ch.name)
                if ch.style == "decl":
                    ln = self.emit(ind, f"function {self.nm(key, ch.name, sid)}({', '.join(ps)}) {{ /*D{ch.ident}*/")
                elif ch.style == "expr":
                    ln = self.emit(ind, f"const {self.nm(key, ch.name, sid)} = function ({', '.join(ps)}) {{ /*D{ch.ident}*/")
                else:
                    ln = self.emit(ind, f"const {self.nm(key, ch.name, sid)} = ({', '.join(ps)}) => {{ /*D{ch.ident}*/")
                for p, c in ch.params:
                    m["params"][str(c)] = {"name": self.rename.get(f"p{c}", p), "scope": ch.sid, "line": ln}
                    m["occ"][f"p{c}"]["line"] = ln
                m["scopes"][ch.sid] = {"kind": "function", "style": ch.style, "name": rn, "line": ln, "parent": sid}
                m["idents"][ch.ident] = ch.sid
                self.emit(ind + 1, f"out(ct, {ch.ident});")
                self.body(ch, ind + 1)
                self.emit(ind, "}" if ch.style == "decl" else "};")
            elif k == "class":
                cls = it[1]
                key = f"d{cls.sid}"
                rn = self.rename.get(key, cls.name)
                ln = self.emit(ind, f"class {self.nm(key, cls.name, sid)} {{ /*D{cls.ident}*/")
                m["scopes"][cls.sid] = {"kind": "class", "style": "class", "name": rn, "line": ln, "parent": sid}
                m["idents"][cls.ident] = cls.sid
                for n_, c_ in getattr(cls, "statics", []):
                    self.emit(ind + 1, f"static {n_} = {c_};")
                for meth in cls.children:
                    ps = ["ct"] + [self.nm(f"p{c}", p, meth.sid) for p, c in meth.params]
                    ln2 = self.emit(ind + 1, f"{meth.name}({', '.join(ps)}) {{ /*D{meth.ident}*/")
                    for p, c in meth.params:
                        m["params"][str(c)] = {"name": self.rename.get(f"p{c}", p), "scope": meth.sid, "line": ln2}
                        m["occ"][f"p{c}"]["line"] = ln2
                    m["scopes"][meth.sid] = {"kind": "function", "style": "method", "name": meth.name, "line": ln2, "parent": cls.sid}
                    m["idents"][meth.ident] = meth.sid
                    self.emit(ind + 2, f"out(ct, {meth.ident});")
                    self.body(meth, ind + 2)
                    self.emit(ind + 1, "}")
                self.emit(ind, "}")
            elif k == "block":
                b = it[1]
                st = b.style
                if st == "bare":
                    ln = self.emit(ind, "{")
                elif st == "if":
                    ln = self.emit(ind, "if (1 > 0) {")
                elif st == "else":
                    self.emit(ind, "if (1 < 0) {")
                    self.emit(ind + 1, 'out("z0", 0);')
                    ln = self.emit(ind, "} else {")
                elif st == "for":
                    ln = self.emit(ind, "for (let i_ = 0; i_ < 1; i_++) {")
                elif st == "while":
                    ln = self.emit(ind, "while (true) {")
                elif st == "try":
                    ln = self.emit(ind, "try {")
                elif st == "catch":
                    self.emit(ind, "try {")
                    self.emit(ind + 1, "throw 1;")
                    ln = self.emit(ind, "} catch (e_) {")
                m["scopes"][b.sid] = {"kind": "block", "style": st, "line": ln, "parent": sid}
                self.body(b, ind + 1)
                if st == "while":
                    self.emit(ind + 1, "break;")
                if st == "try":
                    self.emit(ind, "} catch (e_) {")
                self.emit(ind, "}")
            elif k == "call":
                _, ctag, ch = it
                args = [f'"{ctag}"'] + [str(c) for _, c in ch.params]
                rn = self.rename.get(ctag, ch.name)
                ln = self.emit(ind, f"{self.nm(ctag, ch.name, sid)}({', '.join(args)});")
                m["calls"][ctag] = {"name": rn, "scope": sid, "line": ln, "callee": ch.sid, "kind": "call"}
            elif k == "mcall":
                _, ctag, cls, meth = it
                args = [f'"{ctag}"'] + [str(c) for _, c in meth.params]
                rn = self.rename.get(ctag, cls.name)
                ln = self.emit(ind, f"new {self.nm(ctag, cls.name, sid)}().{meth.name}({', '.join(args)});")
                m["calls"][ctag] = {"name": rn, "scope": sid, "line": ln, "callee": meth.sid, "kind": "mcall", "cls": cls.sid}


def gen_javascript(seed, rename=None):
    g = JsBindGen(seed)
    mod = g.build()
    text, meta = JsRender(rename).render(mod)
    return text, json.loads(json.dumps(meta))


JS_DRIVER = r"""
const vm = require('vm'); const fs = require('fs');
const progs = JSON.parse(fs.readFileSync(process.argv[2], 'utf8'));
const res = [];
for (const src of progs) {
  const outs = [];
  function out(tag, v) {
    if (typeof v === 'function') { const m = /\/\*D(\d+)\*\//.exec(Function.prototype.toString.call(v)); v = m ? 'F' + m[1] : 'F?'; }
    else if (v === undefined) v = '!UNDEF';
    else if (typeof v !== 'number' && typeof v !== 'string') v = '!OBJ';
    outs.push([tag, v]);
  }
  let status = 'ok', err = null;
  try { vm.runInNewContext(src, {out: out}, {timeout: 3000}); } catch (e) { status = 'error'; err = String(e).slice(0, 200); }
  res.push({status: status, error: err, outputs: outs});
}
console.log(JSON.stringify(res));
"""


def run_node(sources, workdir):
    """Runs every source in a fresh vm context of ONE node process. -> list of {status, outputs:[[tag, value]]} or None."""
    import os
    import subprocess
    drv = os.path.join(workdir, "c05_driver.js")
    inp = os.path.join(workdir, "c05_progs.json")
    with open(drv, "w") as f:
        f.write(JS_DRIVER)
    with open(inp, "w") as f:
        json.dump(list(sources), f)
    try:
        p = subprocess.run(["node", drv, inp], capture_output=True, text=True, timeout=120)
        return json.loads(p.stdout.strip().splitlines()[-1])
    except Exception:
        return None


# =====================================================================================================================
# Python, multi-file projects (imports: plain, from-import, alias, wildcard, package directories, relative, function-local)
# =====================================================================================================================
LIB_VARS = ["va", "vb", "vc", "dup", "x", "y"]
LIB_FUNS = ["fa", "fb", "dupf"]
LIB_CLASSES = ["Ca", "Cb"]
LIB_FILES = ["ma.py", "mb.py", "pkg/__init__.py", "pkg/inner.py", "pkg/sub/__init__.py", "pkg/sub/deep.py"]


def modname(path):
    p = path[:-3].replace("/", ".")
    return p[:-9] if p.endswith(".__init__") else p


class ProjGen:
    """A project = {path: text}. Every module-level declaration of every file carries a unique constant; functions print their
    identity constant; `out` is provided through builtins by the driver. meta describes every occurrence per file."""

    def __init__(self, seed, rename=None):
        self.rng = random.Random(seed)
        self.ids = Ids(2000)
        self.rename = rename or {}
        self.files = {}
        self.meta = {"lang": "python", "files": {}, "consts": {}, "funcs": {}, "classes": {}, "modules": {}, "uses": {}, "calls": {},
                     "occ": {}, "imports": {}, "scopes": {}}
        self.lines = None
        self.cur = None

    # ---- emission helpers
    def begin(self, path):
        self.cur = path
        self.lines = []

    def end(self):
        self.files[self.cur] = "\n".join(self.lines) + "\n"

    def emit(self, ind, text):
        self.lines.append("    " * ind + text)
        return len(self.lines) - 1

    def nm(self, key, name):
        rn = self.rename.get(key, name)
        self.meta["occ"][key] = {"file": self.cur, "name": rn, "line": len(self.lines)}
        return rn

    def use(self, ind, name, scope, wrapped):
        tag = self.ids.use()
        rn = self.rename.get(tag, name)
        if wrapped:
            self.emit(ind, "try:")
            ln = self.emit(ind + 1, f'out("{tag}", {self.nm(tag, name)})')
            self.emit(ind, "except NameError:")
            self.emit(ind + 1, f'out("{tag}", "!NE")')
        else:
            ln = self.emit(ind, f'out("{tag}", {self.nm(tag, name)})')
        self.meta["uses"][tag] = {"file": self.cur, "name": rn, "line": ln, "scope": scope, "wrapped": wrapped}
        return tag

    def scope(self, kind, name, line, parent, method=False):
        sid = self.ids.scope()
        self.meta["scopes"][sid] = {"file": self.cur, "kind": kind, "name": name, "line": line, "parent": parent, "method": method}
        return sid

    # ---- library modules
    def gen_lib(self, path, plan):
        rng, ids, m = self.rng, self.ids, self.meta
        self.begin(path)
        msid = self.scope("module", "<module>", -1, None)
        m["files"][path] = {"module": modname(path), "scope": msid, "public": []}
        pub = m["files"][path]["public"]
        for imp in plan.get("imports", []):
            self.emit_import(0, imp, msid)
            pub.extend(imp["binds"])
        for v in plan["vars"]:
            c = ids.const()
            ln = self.emit(0, f"{self.nm(f'a{c}', v)} = {c}")
            m["consts"][str(c)] = {"file": path, "name": self.rename.get(f"a{c}", v), "line": ln, "kind": "variable", "scope": msid}
            pub.append(v)
        for f in plan["funs"]:
            c = ids.const()
            key = f"d{c}"
            ln = self.emit(0, f"def {self.nm(key, f)}(ct):")
            fsid = self.scope("function", self.rename.get(key, f), ln, msid)
            m["consts"][str(c)] = {"file": path, "name": self.rename.get(key, f), "line": ln, "kind": "function", "scope": msid, "fscope": fsid}
            m["funcs"][f"{modname(path)}:{self.rename.get(key, f)}"] = str(c)
            self.emit(1, f"out(ct, {c})")
            must = plan.get("must_read", ())
            for v in plan["vars"] + [i for imp in plan.get("imports", []) for i in imp["binds"]]:
                r = rng.random()
                if r < 0.6 or v in must:
                    self.use(1, v, fsid, False)
            for v in plan.get("must_call", ()):
                ctag = ids.call()
                ln2 = self.emit(1, f'{self.nm(ctag, v)}("{ctag}")')
                m["calls"][ctag] = {"file": path, "name": self.rename.get(ctag, v), "line": ln2, "scope": fsid}
            pub.append(f)
        for cl in plan["classes"]:
            c = ids.const()
            key = f"d{c}"
            ln = self.emit(0, f"class {self.nm(key, cl)}:")
            self.emit(1, f"_d = {c}")
            m["consts"][str(c)] = {"file": path, "name": self.rename.get(key, cl), "line": ln, "kind": "class", "scope": msid}
            pub.append(cl)
        if not self.lines:
            self.emit(0, "pass")
        self.end()

    def emit_import(self, ind, imp, scope):
        """imp: {form, module (dotted, possibly relative), names: [(name, alias|None)], binds: [bound names]}"""
        key = self.ids.imp()
        form = imp["form"]
        if form == "import":
            alias = imp["alias"]
            text = f"import {imp['module']}" + (f" as {alias}" if alias else "")
        elif form == "wildcard":
            text = f"from {imp['module']} import *"
        else:
            parts = []
            for j, (n, a) in enumerate(imp["names"]):
                src = self.nm(f"{key}s{j}", n)          # the name as spelled in the exporting module
                if a:
                    parts.append(f"{src} as {a}")
                else:
                    self.meta["occ"][f"{key}s{j}"]["binds_too"] = True
                    parts.append(src)
            text = f"from {imp['module']} import {', '.join(parts)}"
        ln = self.emit(ind, text)
        self.meta["imports"][key] = {"file": self.cur, "line": ln, "form": form, "module": imp["module"], "names": imp.get("names"),
                                     "alias": imp.get("alias"), "binds": imp["binds"], "scope": scope, "target": imp.get("target"),
                                     "kind": imp["kind"]}
        return key


def gen_py_project(seed, rename=None):
    g = ProjGen(seed, rename)
    rng, ids, m = g.rng, g.ids, g.meta
    # ---- plan the library: which names each file declares
    plans = {}
    # a package tree 3 or 4 levels deep below the project root: pkg / sub / low [/ bot]. Every level has a module `util` that defines
    # the SAME names (function fu, variable uv) with different constants, and the deepest package has one leaf module per number of
    # leading dots: `from .util import fu as r1`, `from ..util import ...`, `from ...util import ...` (and `....` on the 4-level
    # tree). One import of the source name per file, so a wrong level shows as a binding to the wrong FILE, revealed by the constant.
    levels = ["pkg", "pkg/sub", "pkg/sub/low"] + (["pkg/sub/low/bot"] if rng.random() < 0.5 else [])
    deepest = levels[-1]
    util_levels = list(levels)
    dropped = None
    if rng.random() < 0.3:
        dropped = rng.choice(levels[1:-1])           # an intermediate level without util: the level above must not be confused with it
        util_levels.remove(dropped)
    deep_files = [lv + "/__init__.py" for lv in levels[2:]] + [lv + "/util.py" for lv in util_levels]
    leaf_files = []
    for dots in range(1, len(levels) + 1):
        tgt_level = levels[len(levels) - dots]
        if tgt_level in util_levels:
            leaf_files.append((f"{deepest}/leaf{dots}.py", dots, tgt_level + "/util.py"))
    # same-name re-export chains: mi.py defines a variable, a function and a class; mr.py re-exports some of them under the SAME
    # names (`from mi import ifn`), mr2.py re-exports from mr (two intermediate modules). The importer is generated TWICE with the
    # same plan under two file names, one sorting before and one after the re-exporting modules (lian walks the units in reverse path
    # order, so one of them is analysed before mr.py and one after): the two must bind identically.
    chain_names = [n for n in ("iv", "ifn", "IC") if rng.random() < 0.75] or ["ifn"]
    chain2 = [n for n in chain_names if rng.random() < 0.6]
    pair_files = ["a_user.py", "z_user.py"]
    lib_files = LIB_FILES + deep_files + [lf for lf, _, _ in leaf_files] + ["mi.py", "mr.py"] + (["mr2.py"] if chain2 else []) + pair_files
    plans["mi.py"] = {"vars": ["iv"], "funs": ["ifn"], "classes": ["IC"]}
    plans["mr.py"] = {"vars": [], "funs": [], "classes": [],
                      "imports": [{"form": "from", "module": "mi", "names": [(n, None)], "binds": [n], "kind": "from-import",
                                   "target": {n: ("mi.py", n)}} for n in chain_names]}
    if chain2:
        plans["mr2.py"] = {"vars": [], "funs": [], "classes": [],
                           "imports": [{"form": "from", "module": "mr", "names": [(n, None)], "binds": [n],
                                        "kind": "from-import(same-name-re-export-chain-1)", "target": {n: ("mr.py", n)}} for n in chain2]}
    user_imports = []
    for n in chain_names:
        hops = 2 if (n in chain2 and rng.random() < 0.6) else 1
        alias = ("u_" + n) if rng.random() < 0.3 else None
        user_imports.append({"form": "from", "module": "mr2" if hops == 2 else "mr", "names": [(n, alias)], "binds": [alias or n],
                             "kind": f"from-import{'-alias' if alias else ''}(same-name-re-export-chain-{hops})",
                             "target": {alias or n: ("mr2.py" if hops == 2 else "mr.py", n)}})
    for pf in pair_files:
        binds = [i_["binds"][0] for i_ in user_imports]
        plans[pf] = {"vars": [], "funs": ["probe"], "classes": [], "must_read": binds,
                     "must_call": [i_["binds"][0] for i_ in user_imports if i_["names"][0][0] == "ifn"],
                     "imports": [dict(i_, target=dict(i_["target"])) for i_ in user_imports]}
    for path in lib_files:
        if path in ("mi.py", "mr.py", "mr2.py") or path in pair_files:
            continue
        if path.endswith("/util.py"):
            plans[path] = {"vars": ["uv"], "funs": ["fu"], "classes": []}
            continue
        if path in [lf for lf, _, _ in leaf_files]:
            continue
        if path == "pkg/sub/__init__.py" or path in deep_files:
            plans[path] = {"vars": [], "funs": [], "classes": []}
            continue
        nv = rng.choice([1, 2, 2, 3])
        plans[path] = {"vars": rng.sample(LIB_VARS, nv), "funs": rng.sample(LIB_FUNS, rng.choice([0, 1, 1, 2])),
                       "classes": rng.sample(LIB_CLASSES, rng.choice([0, 0, 1]))}
    # intra-library imports (re-export through a module, relative imports inside the package)
    if rng.random() < 0.5 and plans["ma.py"]["vars"]:
        n = rng.choice(plans["ma.py"]["vars"])
        if "re_" + n not in plans["mb.py"]["vars"]:
            plans["mb.py"]["imports"] = [{"form": "from", "module": "ma", "names": [(n, "re_" + n)], "binds": ["re_" + n], "kind": "from-import-alias(re-export)",
                                          "target": {"re_" + n: ("ma.py", n)}}]
    if rng.random() < 0.8 and plans["pkg/inner.py"]["vars"]:
        n = rng.choice(plans["pkg/inner.py"]["vars"])
        plans["pkg/sub/deep.py"]["imports"] = [{"form": "from", "module": "..inner", "names": [(n, "up_" + n)], "binds": ["up_" + n],
                                                "kind": "relative-from-import-alias", "target": {"up_" + n: ("pkg/inner.py", n)}}]
    elif rng.random() < 0.7 and plans["pkg/sub/deep.py"]["vars"]:        # (never both: that would be a circular import)
        n = rng.choice(plans["pkg/sub/deep.py"]["vars"])
        plans["pkg/inner.py"]["imports"] = [{"form": "from", "module": ".sub.deep", "names": [(n, "down_" + n)], "binds": ["down_" + n],
                                             "kind": "relative-from-import-alias(into-sub-package)", "target": {"down_" + n: ("pkg/sub/deep.py", n)}}]
    if rng.random() < 0.5 and plans["pkg/inner.py"]["funs"]:
        n = rng.choice(plans["pkg/inner.py"]["funs"])
        if n not in plans["pkg/__init__.py"]["funs"]:
            plans["pkg/__init__.py"]["imports"] = [{"form": "from", "module": ".inner", "names": [(n, None)], "binds": [n],
                                                    "kind": "relative-from-import(package-init-re-export)", "target": {n: ("pkg/inner.py", n)}}]
            if n in plans["pkg/__init__.py"]["vars"]:
                plans["pkg/__init__.py"]["vars"].remove(n)
    for lf, dots, tpath in leaf_files:
        what = rng.choice(["fun", "fun", "both", "var"])
        names, target = [], {}
        if what in ("fun", "both"):
            names.append(("fu", f"r{dots}"))
            target[f"r{dots}"] = (tpath, "fu")
        if what in ("var", "both"):
            names.append(("uv", f"rv{dots}"))
            target[f"rv{dots}"] = (tpath, "uv")
        binds = [a for _, a in names]
        plans[lf] = {"vars": [], "funs": ["probe"], "classes": [], "must_read": binds, "must_call": [b for b in binds if b.startswith("r") and not b.startswith("rv")],
                     "imports": [{"form": "from", "module": "." * dots + "util", "names": names, "binds": binds,
                                  "kind": f"relative-from-import-alias({dots}-dots-from-depth-{len(levels)})", "target": target}]}
    for path in lib_files:
        if plans[path].get("imports") and not plans[path]["funs"] and path != "pkg/__init__.py":
            plans[path]["funs"] = [rng.choice(LIB_FUNS)]        # somebody has to read what the module imports
        g.gen_lib(path, plans[path])
    public = {p: list(dict.fromkeys(m["files"][p]["public"])) for p in lib_files}
    # ---- main.py
    g.begin("main.py")
    msid = g.scope("module", "<module>", -1, None)
    m["files"]["main.py"] = {"module": "main", "scope": msid, "public": []}
    bound = {}          # name -> description of what binds it at module level of main

    targets_seen = set()
    allow_twice = rng.random() < 0.15        # importing one target under two names is a mechanism of its own: keep it rare

    def fresh(t):
        if t in targets_seen and not allow_twice:
            return False
        targets_seen.add(t)
        return True

    def mk_imports(avail_bound, count):
        out = []
        for _ in range(count):
            form = wchoice(rng, [("import", 2), ("import-as", 2), ("from", 4), ("from-as", 4), ("wildcard", 2), ("from-module", 2), ("from-module-as", 2)])
            if form in ("import", "import-as"):
                path = rng.choice(["ma.py", "mb.py", "pkg/__init__.py"])
                mod = modname(path)
                alias = ("al_" + mod) if form == "import-as" else None
                b = alias or mod
                if b in avail_bound or not fresh((path, None)):
                    continue
                avail_bound[b] = 1
                out.append({"form": "import", "module": mod, "alias": alias, "binds": [b], "kind": "import-as" if alias else "import",
                            "target": {b: (path, None)}})
            elif form in ("from", "from-as"):
                path = rng.choice([p for p in lib_files if public[p]])
                n = rng.choice(public[path])
                a = ("al_" + n) if form == "from-as" else None
                b = a or n
                if b in avail_bound or not fresh((path, n)):
                    continue
                avail_bound[b] = 1
                pk = "-from-package-init" if path.endswith("__init__.py") else ("-from-package-module" if "/" in path else "")
                out.append({"form": "from", "module": modname(path), "names": [(n, a)], "binds": [b],
                            "kind": ("from-import-alias" if a else "from-import") + pk, "target": {b: (path, n)}})
            elif form == "wildcard":
                path = rng.choice(["ma.py", "mb.py", "pkg/inner.py"])
                names = [n for n in public[path] if not n.startswith("_")]
                if not names or any(n in avail_bound for n in names) or (not allow_twice and any((path, n) in targets_seen for n in names)):
                    continue
                targets_seen.update((path, n) for n in names)
                for n in names:
                    avail_bound[n] = 1
                out.append({"form": "wildcard", "module": modname(path), "binds": names, "kind": "from-import-wildcard",
                            "target": {n: (path, n) for n in names}})
            else:
                pkgmod, path = rng.choice([("pkg", "pkg/inner.py"), ("pkg.sub", "pkg/sub/deep.py"), ("pkg", "pkg/sub/__init__.py")])
                n = path.split("/")[-1][:-3] if not path.endswith("__init__.py") else "sub"
                a = ("al_" + n) if form == "from-module-as" else None
                b = a or n
                if b in avail_bound or not fresh((path, None)):
                    continue
                avail_bound[b] = 1
                out.append({"form": "from", "module": pkgmod, "names": [(n, a)], "binds": [b],
                            "kind": "from-package-import-module" + ("-alias" if a else ""), "target": {b: (path, None)}})
        return out

    top_imports = mk_imports(bound, rng.choice([3, 4, 5, 6]))
    for imp in top_imports:
        g.emit_import(0, imp, msid)
    own = [n for n in ["gx", "vb", "x"] if n not in bound and rng.random() < 0.6]
    for n in own:
        c = ids.const()
        ln = g.emit(0, f"{g.nm(f'a{c}', n)} = {c}")
        m["consts"][str(c)] = {"file": "main.py", "name": g.rename.get(f"a{c}", n), "line": ln, "kind": "variable", "scope": msid}
        bound[n] = 1
    all_lib_names = sorted({n for p in lib_files for n in public[p]})
    cand = sorted(set(bound) | set(rng.sample(all_lib_names, min(4, len(all_lib_names)))))

    def uses(ind, scope, visible, k):
        for n in rng.sample(cand, min(k, len(cand))):
            g.use(ind, n, scope, n not in visible)

    calls = []
    # a function with a parameter shadowing a module-level (possibly imported) name, a function-local import, a nested function
    fc = ids.const()
    pshadow = rng.choice(sorted(bound)) if bound and rng.random() < 0.6 else None
    pc = ids.const() if pshadow else None
    ln = g.emit(0, f"def {g.nm(f'd{fc}', 'f1')}(ct" + (f", {g.nm(f'p{pc}', pshadow)}" if pshadow else "") + "):")
    f1 = g.scope("function", g.rename.get(f"d{fc}", "f1"), ln, msid)
    m["consts"][str(fc)] = {"file": "main.py", "name": g.rename.get(f"d{fc}", "f1"), "line": ln, "kind": "function", "scope": msid, "fscope": f1}
    if pshadow:
        m["consts"][str(pc)] = {"file": "main.py", "name": g.rename.get(f"p{pc}", pshadow), "line": ln, "kind": "parameter", "scope": f1}
    g.emit(1, f"out(ct, {fc})")
    local_bound = dict(bound)
    if pshadow:
        local_bound[pshadow] = 1
    fl = {}
    loc_imports = mk_imports(fl, rng.choice([0, 1, 1, 2]))
    loc_imports = [i for i in loc_imports if not any(b == pshadow for b in i["binds"]) and i["form"] != "wildcard"]
    for imp in loc_imports:
        imp["kind"] += "(function-local)"
        g.emit_import(1, imp, f1)
        for b in imp["binds"]:
            local_bound[b] = 1
    uses(1, f1, local_bound, 5)
    ic = ids.const()
    ln = g.emit(1, f"def {g.nm(f'd{ic}', 'nest')}(ct):")
    f2 = g.scope("function", g.rename.get(f"d{ic}", "nest"), ln, f1)
    m["consts"][str(ic)] = {"file": "main.py", "name": g.rename.get(f"d{ic}", "nest"), "line": ln, "kind": "function", "scope": f1, "fscope": f2}
    g.emit(2, f"out(ct, {ic})")
    uses(2, f2, local_bound, 4)
    ctag = ids.call()
    ln = g.emit(1, f'{g.nm(ctag, "nest")}("{ctag}")')
    m["calls"][ctag] = {"file": "main.py", "name": g.rename.get(ctag, "nest"), "line": ln, "scope": f1}
    # a class with a method
    kc, mc = ids.const(), ids.const()
    ln = g.emit(0, "class K:")
    ksid = g.scope("class", "K", ln, msid)
    g.emit(1, f"_d = {kc}")
    m["consts"][str(kc)] = {"file": "main.py", "name": "K", "line": ln, "kind": "class", "scope": msid}
    ln = g.emit(1, "def m(self, ct):")
    msc = g.scope("function", "m", ln, ksid, method=True)
    m["consts"][str(mc)] = {"file": "main.py", "name": "m", "line": ln, "kind": "method", "scope": ksid, "fscope": msc}
    g.emit(2, f"out(ct, {mc})")
    uses(2, msc, bound, 4)
    # module-level uses and calls
    uses(0, msid, bound, 6)
    ctag = ids.call()
    ln = g.emit(0, f'{g.nm(ctag, "f1")}("{ctag}"' + (f", {pc}" if pshadow else "") + ")")
    m["calls"][ctag] = {"file": "main.py", "name": g.rename.get(ctag, "f1"), "line": ln, "scope": msid}
    g.emit(0, f'K().m("{ids.call()}")')
    # call every imported library function that is bound under some name at module level (call-site binding across files)
    def is_function(path, name, depth=0):
        """per the PLAN (original names, independent of any renaming): does `name` at module level of `path` mean a function?"""
        if name in plans[path]["funs"]:
            return True
        for i2 in plans[path].get("imports", []):
            t2 = (i2.get("target") or {}).get(name)
            if t2 and t2[1] is not None and depth < 4:
                return is_function(t2[0], t2[1], depth + 1)
        return False

    for imp in top_imports:
        for b in imp["binds"]:
            tgt = imp["target"].get(b)
            if tgt and tgt[1] is not None and is_function(tgt[0], tgt[1]):
                ctag = ids.call()
                ln = g.emit(0, f'{g.nm(ctag, b)}("{ctag}")')
                m["calls"][ctag] = {"file": "main.py", "name": g.rename.get(ctag, b), "line": ln, "scope": msid}
    g.end()
    m["importer_pair"] = pair_files
    return g.files, json.loads(json.dumps(m))


PY_PROJECT_DRIVER = r'''
import builtins, json, os, runpy, sys, types
root = sys.argv[1]
sys.path.insert(0, root)
outs = []
def out(tag, v):
    if isinstance(v, bool) or v is None:
        outs.append([tag, "other", repr(v)])
    elif isinstance(v, int):
        outs.append([tag, "const", v])
    elif isinstance(v, str):
        outs.append([tag, "str", v])
    elif isinstance(v, types.ModuleType):
        f = getattr(v, "__file__", None)
        outs.append([tag, "module", os.path.relpath(f, root) if f else v.__name__])
    elif isinstance(v, types.FunctionType):
        outs.append([tag, "func", v.__module__ + ":" + v.__qualname__])
    elif isinstance(v, type):
        outs.append([tag, "const", getattr(v, "_d", -1)])
    else:
        outs.append([tag, "other", repr(v)[:60]])
builtins.out = out
status = "ok"
try:
    runpy.run_path(os.path.join(root, "main.py"), run_name="main")
    # harness side: every library function runs at least once, whether main imports it or not (the reads in its body are judged)
    import importlib
    for spec in json.loads(sys.argv[2]) if len(sys.argv) > 2 else []:
        modn, fn = spec.split(":", 1)
        if modn != "main" and "." not in fn:
            getattr(importlib.import_module(modn), fn)("drv")
except BaseException as e:
    status = "raise:" + type(e).__name__ + ":" + str(e)[:160]
print(json.dumps({"status": status, "outputs": outs}))
'''


def run_py_project(files, workdir, calls=()):
    import os
    import subprocess
    import sys
    root = os.path.join(workdir, "proj")
    for n, t in files.items():
        p = os.path.join(root, n)
        os.makedirs(os.path.dirname(p), exist_ok=True)
        with open(p, "w") as f:
            f.write(t)
    drv = os.path.join(workdir, "driver.py")
    with open(drv, "w") as f:
        f.write(PY_PROJECT_DRIVER)
    try:
        p = subprocess.run([sys.executable, "-B", drv, root, json.dumps(sorted(calls))], capture_output=True, text=True, timeout=60,
                           env={"PATH": os.environ.get("PATH", ""), "PYTHONDONTWRITEBYTECODE": "1"})
        return json.loads(p.stdout.strip().splitlines()[-1])
    except Exception as e:
        return {"status": "driver:" + repr(e)[:100], "outputs": []}


# =====================================================================================================================
# Hand-written shadowing templates for languages judged by the alpha-renaming relation only (Java, Go, C, PHP, TypeScript)
# A placeholder {k} is ONE variable (its declaration and exactly the occurrences bound to it); several placeholders share a
# base name on purpose (shadowing). A twin renames one placeholder. On a line, two different placeholders never share a name.
# Java, C and TypeScript twins are validated by running both variants (javac+java / gcc / node after erasing the types).
# =====================================================================================================================
TEMPLATES = {
    "java": [
        {"name": "shadow", "file": "Main.java", "vars": {"a": "x", "b": "x", "c": "i", "d": "y", "e": "y", "h": "x"},
         "renames": ["a", "b", "c", "d", "e", "h"], "text": """public class Main {
    static int {a} = 10;
    static int f(int {b}) {
        int s = {b} + 1;
        for (int {c} = 0; {c} < 2; {c}++) {
            s = s + {c};
        }
        return s;
    }
    static int g() {
        int t = {a} + 2;
        {
            int {d} = 5;
            t = t + {d};
        }
        {
            int {e} = 7;
            t = t + {e};
        }
        return t;
    }
    static int k(int n) {
        int {h} = n * 3;
        return {h} + 1;
    }
    public static void main(String[] args) {
        System.out.println(f(3));
        System.out.println(g());
        System.out.println(k(2));
    }
}
"""},
        {"name": "nested", "file": "Main.java", "vars": {"a": "v", "b": "v", "c": "w", "d": "w"},
         "renames": ["a", "b", "c", "d"], "text": """public class Main {
    static int {a} = 1;
    static int {c} = 2;
    static class Inner {
        int run(int {b}) {
            int r = {b} * 2;
            return r + {c};
        }
    }
    static int outer(int {d}) {
        if ({d} > 0) {
            return {d} + {a};
        }
        return {a};
    }
    public static void main(String[] args) {
        System.out.println(new Inner().run(4));
        System.out.println(outer(5));
    }
}
"""},
    ],
    "c": [
        {"name": "shadow", "file": "main.c", "vars": {"a": "x", "b": "x", "c": "x", "d": "i", "e": "y"},
         "renames": ["a", "b", "c", "d", "e"], "text": """#include <stdio.h>
int {a} = 10;
int f(int {b}) {
    int s = {b} + 1;
    {
        int {c} = 4;
        s = s + {c};
    }
    return s + {b};
}
int g(void) {
    int t = {a} + 2;
    for (int {d} = 0; {d} < 2; {d}++) {
        t = t + {d};
    }
    return t;
}
int h(int n) {
    int {e} = n * 3;
    if (n > 0) {
        {e} = {e} + 1;
    }
    return {e};
}
int main(void) {
    printf("%d\\n", f(3));
    printf("%d\\n", g());
    printf("%d\\n", h(2));
    return 0;
}
"""},
        {"name": "static", "file": "main.c", "vars": {"a": "cnt", "b": "cnt", "c": "v"},
         "renames": ["a", "b", "c"], "text": """#include <stdio.h>
static int {a} = 100;
int bump(void) {
    {a} = {a} + 1;
    return {a};
}
int local(int {c}) {
    int {b} = {c} * 2;
    while ({b} > 10) {
        {b} = {b} - 3;
    }
    return {b};
}
int main(void) {
    printf("%d\\n", bump());
    printf("%d\\n", local(9));
    return 0;
}
"""},
    ],
    "go": [
        {"name": "shadow", "file": "main.go", "vars": {"a": "x", "b": "x", "c": "x", "d": "i", "e": "y"},
         "renames": ["a", "b", "c", "d", "e"], "text": """package main

import "fmt"

var {a} = 10

func f({b} int) int {
	s := {b} + 1
	if s > 0 {
		{c} := 4
		s = s + {c}
	}
	return s + {b}
}

func g() int {
	t := {a} + 2
	for {d} := 0; {d} < 2; {d}++ {
		t = t + {d}
	}
	return t
}

func h(n int) int {
	{e} := n * 3
	if n > 0 {
		{e} = {e} + 1
	}
	return {e}
}

func main() {
	fmt.Println(f(3))
	fmt.Println(g())
	fmt.Println(h(2))
}
"""},
        {"name": "closure", "file": "main.go", "vars": {"a": "v", "b": "v", "c": "w"},
         "renames": ["a", "b", "c"], "text": """package main

import "fmt"

func outer({a} int) func(int) int {
	{c} := {a} + 1
	return func({b} int) int {
		return {b} + {c}
	}
}

func main() {
	fn := outer(2)
	fmt.Println(fn(5))
}
"""},
    ],
    "php": [
        {"name": "shadow", "file": "main.php", "sigil": "$", "vars": {"a": "x", "b": "x", "c": "x", "e": "y"},
         "renames": ["a", "b", "c", "e"], "text": """<?php
${a} = 10;
function f(${b}) {
    $s = ${b} + 1;
    $g = function (${c}) use ($s) {
        return ${c} + $s;
    };
    return $g(4) + ${b};
}
function g() {
    global ${a};
    $t = ${a} + 2;
    return $t;
}
function h($n) {
    ${e} = $n * 3;
    if ($n > 0) {
        ${e} = ${e} + 1;
    }
    return ${e};
}
echo f(3), "\\n";
echo g(), "\\n";
echo h(2), "\\n";
"""},
    ],
    "typescript": [
        {"name": "shadow", "file": "main.ts", "vars": {"a": "x", "b": "x", "c": "x", "d": "i", "e": "y"},
         "renames": ["a", "b", "c", "d", "e"], "text": """let {a}: number = 10;
function f({b}: number): number {
  let s: number = {b} + 1;
  if (s > 0) {
    let {c}: number = 4;
    s = s + {c};
  }
  return s + {b};
}
function g(): number {
  let t: number = {a} + 2;
  for (let {d}: number = 0; {d} < 2; {d}++) {
    t = t + {d};
  }
  return t;
}
function h(n: number): number {
  let {e}: number = n * 3;
  if (n > 0) {
    {e} = {e} + 1;
  }
  return {e};
}
console.log(f(3));
console.log(g());
console.log(h(2));
"""},
        {"name": "closure", "file": "main.ts", "vars": {"a": "v", "b": "v", "c": "w"},
         "renames": ["a", "b", "c"], "text": """function outer({a}: number): (p: number) => number {
  const {c}: number = {a} + 1;
  return function ({b}: number): number {
    return {b} + {c};
  };
}
const fn = outer(2);
console.log(fn(5));
"""},
    ],
}


def render_template(t, rename=None):
    """-> (text, {placeholder: [0-based lines]})"""
    names = dict(t["vars"])
    if rename:
        names[rename] = names[rename] + "_r"
    lines = {}
    out = []
    for i, line in enumerate(t["text"].split("\n")):
        for k in t["vars"]:
            if "{" + k + "}" in line:
                lines.setdefault(k, []).append(i)
                line = line.replace("{" + k + "}", names[k])
        out.append(line)
    return "\n".join(out), lines


def run_template(lang, t, text, workdir):
    """Run one rendered variant with the language's own toolchain when there is one. -> output text, or None (no toolchain)."""
    import os
    import re
    import shutil
    import subprocess
    os.makedirs(workdir, exist_ok=True)
    try:
        if lang == "java" and shutil.which("javac"):
            with open(os.path.join(workdir, "Main.java"), "w") as f:
                f.write(text)
            subprocess.run(["javac", "-d", workdir, os.path.join(workdir, "Main.java")], capture_output=True, timeout=120, check=True)
            return subprocess.run(["java", "-cp", workdir, "Main"], capture_output=True, text=True, timeout=60, check=True).stdout
        if lang == "c" and shutil.which("gcc"):
            src = os.path.join(workdir, "main.c")
            with open(src, "w") as f:
                f.write(text)
            exe = os.path.join(workdir, "a.out")
            subprocess.run(["gcc", "-Wshadow", "-o", exe, src], capture_output=True, timeout=120, check=True)
            return subprocess.run([exe], capture_output=True, text=True, timeout=30, check=True).stdout
        if lang == "typescript" and shutil.which("node"):
            js = re.sub(r"\)\s*:\s*\(p: number\) => number", ")", text)
            js = re.sub(r":\s*number", "", js)
            src = os.path.join(workdir, "main.js")
            with open(src, "w") as f:
                f.write(js)
            return subprocess.run(["node", src], capture_output=True, text=True, timeout=30, check=True).stdout
    except Exception as e:
        return "!toolchain-error:" + repr(e)[:200]
    return None
