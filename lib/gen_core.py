"""G-core — programs of a small typed core language (ints, string/bool values, locals, + - *, comparisons, and/or of
comparisons, if/else, while, counted for, break/continue, functions, calls, return, one record type with int fields,
int arrays) as an AST with (a) a direct reference interpreter and (b) renderers for Python, JavaScript, TypeScript,
Java, Go, C and PHP. The renderers are purely syntax directed. out(e) is the only observable action."""
import random

# ---------------------------------------------------------------------------------------------- generation
INT, STR, REC, ARR = "int", "str", "rec", "arr"
FIELDS = ("fa", "fb")
ARR_LEN = 3


class Prog:
    def __init__(self, funcs, main, features, uses_rec, uses_arr):
        self.funcs, self.main, self.features = funcs, main, features   # funcs: [(name, [params], body)]
        self.uses_rec, self.uses_arr = uses_rec, uses_arr


class CoreGen:
    def __init__(self, rng, max_stmts=16):
        self.rng = rng
        self.budget = max_stmts
        self.n = 0
        self.features = set()
        self.funcs = []
        self.uses_rec = False
        self.uses_arr = False
        self.while_stack = []        # (counter, bound) of the enclosing while loops, innermost last

    def fresh(self, p):
        if not hasattr(self, "rec_methods"):
            self.rec_methods = self.rng.random() < 0.7
        self.n += 1
        return f"{p}{self.n}"

    def pick(self, xs):
        return xs[self.rng.randrange(len(xs))]

    def int_atom(self, env):
        r = self.rng.random()
        ints = [n for n, t in env.items() if t == INT]
        if ints and r < 0.55:
            return ("var", self.pick(ints))
        recs = [n for n, t in env.items() if t == REC]
        if recs and r < 0.68:
            if self.rec_methods and self.rng.random() < 0.6:
                # classes with a static field, an instance field with an initialiser declared after it, a method and a
                # method that passes the object itself to a function
                self.features.add("rec-methods")
                q = self.rng.random()
                if q < 0.3:
                    return ("field", self.pick(recs), "fc")
                return ("mcall", self.pick(recs), "total" if q < 0.65 else "selfarea")
            self.features.add("field-read")
            return ("field", self.pick(recs), self.pick(FIELDS))
        arrs = [n for n, t in env.items() if t == ARR]
        if arrs and r < 0.8:
            self.features.add("elem-read")
            return ("elem", self.pick(arrs), self.rng.randrange(ARR_LEN))
        return ("int", self.pick([0, 1, 2, 3, 5, 7, 10]))

    def int_expr(self, env, depth=0, calls=True):
        r = self.rng.random()
        if depth >= 2 or r < 0.35:
            return self.int_atom(env)
        if r < 0.41:
            # literal-only, two different operators, no inner parentheses: precedence and associativity decide the value
            self.features.add("literal-expr")
            o1, o2 = self.pick([("+", "*"), ("*", "+"), ("-", "+"), ("-", "*"), ("*", "-"), ("-", "-")])
            return ("lit3", self.pick([2, 3, 10]), o1, self.pick([3, 4, 5]), o2, self.pick([1, 2, 4]))
        if r < 0.78:
            self.features.add("arith")
            return ("bin", self.pick(["+", "-", "*", "+", "-"]), self.int_expr(env, depth + 1, calls), self.int_expr(env, depth + 1, calls))
        if r < 0.86:
            self.features.add("unary-minus")
            return ("neg", ("bin", self.pick(["+", "-"]), self.int_atom(env), self.int_atom(env)) if self.rng.random() < 0.7 else self.int_atom(env))
        if self.funcs and calls:
            f = self.pick(self.funcs)
            self.features.add("call")
            return ("call", f[0], [self.int_expr(env, depth + 1, False) for _ in f[1]])
        return self.int_atom(env)

    def cond(self, env, depth=0):
        r = self.rng.random()
        if r < 0.7 or depth > 0:
            self.features.add("compare")
            return ("cmp", self.pick(["<", "<=", ">", ">=", "==", "!="]), self.int_atom(env), self.int_atom(env))
        if r < 0.82:
            self.features.add("not")
            return ("not", self.cond(env, 1))
        self.features.add("boolop")
        return ("bool", self.pick(["and", "or"]), self.cond(env, 1), self.cond(env, 1))

    def block(self, env, depth, in_loop, in_func):
        out = []
        for _ in range(self.rng.randint(1, 3 if depth else 5)):
            if self.budget <= 0:
                break
            out.append(self.stmt(env, depth, in_loop, in_func))
            if out[-1][0] in ("break", "continue", "ret"):
                break
        if not out:
            out.append(("out", self.int_atom(env)))
        return out

    def stmt(self, env, depth, in_loop, in_func):
        self.budget -= 1
        r = self.rng.random()
        ints = [n for n, t in env.items() if t == INT and not n.startswith(("k", "i", "p"))]
        if r < 0.16:
            v = self.fresh("v")
            e = self.int_expr(env)
            env[v] = INT
            self.features.add("let")
            return ("let", v, INT, e)
        if in_func and self.rng.random() < 0.12:
            ps = [n for n, t in env.items() if t == INT and n.startswith("p")]
            if ps:
                # plain assignment to one of the function's own parameters
                self.features.add("param-assign")
                return ("set", self.pick(ps), self.int_expr(env, 1))
        if r < 0.30 and ints:
            q = self.rng.random()
            if q < 0.15:
                self.features.add("increment")
                return ("inc", self.pick(ints))
            if q < 0.4:
                self.features.add("compound-assign")
                return ("aug", self.pick(ints), self.pick(["+", "-"]), self.int_expr(env, 1))
            self.features.add("assign")
            return ("set", self.pick(ints), self.int_expr(env))
        if r < 0.36:
            v = self.fresh("s")
            env[v] = STR
            self.features.add("string")
            return ("let", v, STR, ("str", self.pick(["a", "bc", "x y", "q1"])))
        if r < 0.42 and depth == 0:
            v = self.fresh("r")
            a, b = self.int_expr(env, 1), self.int_expr(env, 1)
            env[v] = REC
            self.uses_rec = True
            self.features.add("record")
            return ("newrec", v, a, b)
        if r < 0.48 and depth == 0:
            v = self.fresh("a")
            es = [self.int_expr(env, 1) for _ in range(ARR_LEN)]
            env[v] = ARR
            self.uses_arr = True
            self.features.add("array")
            return ("newarr", v, es)
        recs = [n for n, t in env.items() if t == REC]
        if recs and self.rec_methods and self.rng.random() < 0.3:
            self.features.add("rec-methods")
            return ("out", ("mcall", self.pick(recs), self.pick(["total", "selfarea"])))
        if r < 0.54 and recs:
            q = self.rng.random()
            if q < 0.2:
                self.features.add("field-increment")
                return ("incfield", self.pick(recs), self.pick(FIELDS))
            if q < 0.4:
                self.features.add("field-compound-assign")
                return ("augfield", self.pick(recs), self.pick(FIELDS), self.pick(["+", "-"]), self.int_expr(env, 1))
            self.features.add("field-write")
            return ("setfield", self.pick(recs), self.pick(FIELDS), self.int_expr(env, 1))
        arrs = [n for n, t in env.items() if t == ARR]
        if r < 0.60 and arrs:
            q = self.rng.random()
            if q < 0.25:
                self.features.add("elem-increment")
                return ("incelem", self.pick(arrs), self.rng.randrange(ARR_LEN))
            if q < 0.45:
                self.features.add("elem-compound-assign")
                return ("augelem", self.pick(arrs), self.rng.randrange(ARR_LEN), self.pick(["+", "-"]), self.int_expr(env, 1))
            self.features.add("elem-write")
            return ("setelem", self.pick(arrs), self.rng.randrange(ARR_LEN), self.int_expr(env, 1))
        if r < 0.70 and depth < 2:
            self.features.add("if")
            then = self.block(dict(env), depth + 1, in_loop, in_func)
            els = self.block(dict(env), depth + 1, in_loop, in_func) if self.rng.random() < 0.55 else None
            if els is not None:
                self.features.add("else")
            return ("if", self.cond(env), then, els)
        if r < 0.78 and depth < 3 and (depth < 2 or self.rng.random() < 0.5):
            self.features.add("while")
            k = self.fresh("k")
            extra = self.cond(env) if self.rng.random() < 0.3 else None
            env[k] = INT
            bound = self.rng.randint(0, 3)
            self.while_stack.append((k, bound))
            body = self.block(dict(env), depth + 1, True, in_func)
            if self.rng.random() < 0.35:
                # a `continue` taken exactly on the iteration after which the loop condition turns false, placed first
                # (the counter is incremented before it), and an observable statement after it
                self.features.add("continue-on-last-iteration")
                body = [("if", ("cmp", "==", ("var", k), ("int", max(bound, 1))), [("continue",)], None), ("out", ("var", k))] + body
            self.while_stack.pop()
            return ("while", k, bound, extra, body)
        if r < 0.85 and depth < 2:
            self.features.add("for")
            i = self.fresh("i")
            env2 = dict(env)
            env2[i] = INT
            self.while_stack.append(None)
            body = self.block(env2, depth + 1, True, in_func)
            self.while_stack.pop()
            return ("for", i, self.rng.randint(0, 3), body)
        if r < 0.89 and in_loop:
            kw = self.pick(["break", "continue"])
            self.features.add(kw)
            return ("if", self.cond(env), [(kw,)], None)
        if r < 0.92 and in_func and depth > 0:
            self.features.add("early-return")
            return ("if", self.cond(env), [("ret", self.int_expr(env, 1))], None)
        strs = [n for n, t in env.items() if t == STR]
        if r < 0.935 and strs:
            # compound string append (PHP spells it `.=`); not expressible in the C rendering
            self.features.add("str-append")
            return ("sapp", self.pick(strs), self.pick(["z", "w1", " k"]))
        if r < 0.95 and strs:
            return ("out", ("var", self.pick(strs)))
        return ("out", self.int_expr(env, 1))

    def gen_func(self):
        name = self.fresh("fn")
        params = [f"p{i}" for i in range(self.rng.randint(1, 3))]
        env = {p: INT for p in params}
        saved = self.budget
        self.budget = 5
        body = self.block(env, 1, False, True)
        self.budget = saved - 3
        body.append(("ret", self.int_expr(env, 1)))
        self.funcs.append((name, params, body))

    def generate(self):
        for _ in range(self.rng.randint(0, 2)):
            self.gen_func()
        env = {}
        main = [("let", "t0", INT, ("int", self.pick([1, 2, 4])))]
        env["t0"] = INT
        main += self.block(env, 0, False, False)
        while self.budget > 0 and self.rng.random() < 0.75:
            s = self.stmt(env, 0, False, False)
            main.append(s)
        for n, t in list(env.items()):
            if t == INT and not n.startswith("k") or t == STR:
                main.append(("out", ("var", n)))
            elif t == REC:
                if self.rec_methods:
                    # every program with a record exercises both methods at least once, on a path that always executes
                    self.features.add("rec-methods")
                    main.append(("out", ("mcall", n, "total")))
                    main.append(("out", ("mcall", n, "selfarea")))
                for f in FIELDS + (("fc",) if "rec-methods" in self.features else ()):
                    main.append(("out", ("field", n, f)))
            elif t == ARR:
                for i in range(ARR_LEN):
                    main.append(("out", ("elem", n, i)))
        return Prog(self.funcs, main, sorted(self.features), self.uses_rec, self.uses_arr)


def generate(seed, max_stmts=16):
    return CoreGen(random.Random(seed), max_stmts).generate()


# ---------------------------------------------------------------------------------------------- reference interpreter
class _Ret(Exception):
    def __init__(self, v):
        self.v = v


class _Brk(Exception):
    pass


class _Cnt(Exception):
    pass


class Budget(Exception):
    pass


def wrap32(v):
    return v


def interpret(prog, budget=100000):
    outs = []
    steps = [0]
    funcs = {f[0]: f for f in prog.funcs}

    def ev(e, env):
        k = e[0]
        if k == "int" or k == "str":
            return e[1]
        if k == "var":
            return env[e[1]]
        if k == "bin":
            a, b = ev(e[2], env), ev(e[3], env)
            r = a + b if e[1] == "+" else a - b if e[1] == "-" else a * b
            if abs(r) > 2 ** 30:
                raise Budget()          # keep every intermediate inside all languages' int range
            return r
        if k == "lit3":
            return eval(f"{e[1]} {e[2]} {e[3]} {e[4]} {e[5]}")
        if k == "neg":
            return -ev(e[1], env)
        if k == "not":
            return not ev(e[1], env)
        if k == "cmp":
            a, b = ev(e[2], env), ev(e[3], env)
            return {"<": a < b, "<=": a <= b, ">": a > b, ">=": a >= b, "==": a == b, "!=": a != b}[e[1]]
        if k == "bool":
            a, b = ev(e[2], env), ev(e[3], env)
            return (a and b) if e[1] == "and" else (a or b)
        if k == "field":
            return env[e[1]][e[2]]
        if k == "mcall":
            o = env[e[1]]
            return o[FIELDS[0]] + o[FIELDS[1]] + o["fc"] if e[2] == "total" else o[FIELDS[0]] * 2
        if k == "elem":
            return env[e[1]][e[2]]
        if k == "call":
            f = funcs[e[1]]
            args = [ev(a, env) for a in e[2]]
            try:
                run(f[2], dict(zip(f[1], args)))
            except _Ret as r:
                return r.v
            return 0
        raise AssertionError(k)

    def run(body, env):
        for s in body:
            steps[0] += 1
            if steps[0] > budget:
                raise Budget()
            k = s[0]
            if k == "let" or k == "set":
                env[s[1]] = ev(s[-1], env)
            elif k == "aug":
                b = ev(s[3], env)
                env[s[1]] = env[s[1]] + b if s[2] == "+" else env[s[1]] - b
                if abs(env[s[1]]) > 2 ** 30:
                    raise Budget()
            elif k == "sapp":
                env[s[1]] = env[s[1]] + s[2]
            elif k == "inc":
                env[s[1]] = env[s[1]] + 1
            elif k in ("incelem", "incfield"):
                env[s[1]][s[2]] = env[s[1]][s[2]] + 1
            elif k in ("augelem", "augfield"):
                b = ev(s[4], env)
                env[s[1]][s[2]] = env[s[1]][s[2]] + b if s[3] == "+" else env[s[1]][s[2]] - b
                if abs(env[s[1]][s[2]]) > 2 ** 30:
                    raise Budget()
            elif k == "newrec":
                env[s[1]] = {FIELDS[0]: ev(s[2], env), FIELDS[1]: ev(s[3], env), "fc": 5}
            elif k == "newarr":
                env[s[1]] = [ev(x, env) for x in s[2]]
            elif k == "setfield":
                env[s[1]][s[2]] = ev(s[3], env)
            elif k == "setelem":
                env[s[1]][s[2]] = ev(s[3], env)
            elif k == "if":
                if ev(s[1], env):
                    run(s[2], env)
                elif s[3] is not None:
                    run(s[3], env)
            elif k == "while":
                env[s[1]] = 0
                while env[s[1]] < s[2] and (s[3] is None or ev(s[3], env)):
                    env[s[1]] = env[s[1]] + 1
                    try:
                        run(s[4], env)
                    except _Brk:
                        break
                    except _Cnt:
                        continue
            elif k == "for":
                i = 0
                while i < s[2]:
                    env[s[1]] = i
                    try:
                        run(s[3], env)
                    except _Brk:
                        break
                    except _Cnt:
                        pass
                    i = env[s[1]] + 1
            elif k == "break":
                raise _Brk()
            elif k == "continue":
                raise _Cnt()
            elif k == "out":
                v = ev(s[1], env)
                if abs(v) > 2 ** 30 if isinstance(v, int) else False:
                    raise Budget()          # keep values inside every language's int range
                outs.append(v)
            elif k == "ret":
                raise _Ret(ev(s[1], env))
            else:
                raise AssertionError(k)
    try:
        run(prog.main, {})
    except Budget:
        return None
    except _Ret:
        pass
    return outs


# ---------------------------------------------------------------------------------------------- renderers
class Renderer:
    lang = ""
    ext = ""
    AND, OR, NOT = "&&", "||", "!"
    SAPP = "+="

    def __init__(self, ident):
        self.ident = ident
        self.lines = []
        self.types = {}

    def emit(self, ind, t):
        self.lines.append("    " * ind + t)

    def v(self, name):
        return name

    def expr(self, e):
        k = e[0]
        if k == "int":
            return str(e[1])
        if k == "str":
            return '"' + e[1] + '"'
        if k == "var":
            return self.v(e[1])
        if k == "bin":
            return f"({self.expr(e[2])} {e[1]} {self.expr(e[3])})"
        if k == "cmp":
            return f"({self.expr(e[2])} {e[1]} {self.expr(e[3])})"
        if k == "lit3":
            return f"({e[1]} {e[2]} {e[3]} {e[4]} {e[5]})"
        if k == "neg":
            return f"(-{self.expr(e[1])})"
        if k == "not":
            return f"({self.NOT}{self.expr(e[1])})"
        if k == "bool":
            return f"({self.expr(e[2])} {self.AND if e[1] == 'and' else self.OR} {self.expr(e[3])})"
        if k == "field":
            return self.field(e[1], e[2])
        if k == "mcall":
            return f"{self.field(e[1], e[2])}()"
        if k == "elem":
            return f"{self.v(e[1])}[{e[2]}]"
        if k == "call":
            return f"{e[1]}({', '.join(self.expr(a) for a in e[2])})"
        raise AssertionError(k)

    def field(self, var, f):
        return f"{self.v(var)}.{f}"

    def block(self, ind, body):
        for s in body:
            self.stmt(ind, s)

    # braces-style defaults (JS-like); subclasses override pieces
    END = ";"

    def let(self, ind, name, ty, e):
        self.emit(ind, f"let {self.v(name)} = {self.expr(e)};")

    def stmt(self, ind, s):
        k = s[0]
        if k == "let":
            self.types[s[1]] = s[2]
            self.let(ind, s[1], s[2], s[3])
        elif k == "set":
            self.emit(ind, f"{self.v(s[1])} = {self.expr(s[2])}{self.END}")
        elif k == "aug":
            self.emit(ind, f"{self.v(s[1])} {s[2]}= {self.expr(s[3])}{self.END}")
        elif k == "sapp":
            self.emit(ind, f"{self.v(s[1])} {self.SAPP} {self.expr(('str', s[2]))}{self.END}")
        elif k == "inc":
            self.incr(ind, self.v(s[1]))
        elif k == "incelem":
            self.incr(ind, f"{self.v(s[1])}[{s[2]}]")
        elif k == "incfield":
            self.incr(ind, self.field(s[1], s[2]))
        elif k == "augelem":
            self.emit(ind, f"{self.v(s[1])}[{s[2]}] {s[3]}= {self.expr(s[4])}{self.END}")
        elif k == "augfield":
            self.emit(ind, f"{self.field(s[1], s[2])} {s[3]}= {self.expr(s[4])}{self.END}")
        elif k == "newrec":
            self.newrec(ind, s[1], s[2], s[3])
        elif k == "newarr":
            self.newarr(ind, s[1], s[2])
        elif k == "setfield":
            self.emit(ind, f"{self.field(s[1], s[2])} = {self.expr(s[3])}{self.END}")
        elif k == "setelem":
            self.emit(ind, f"{self.v(s[1])}[{s[2]}] = {self.expr(s[3])}{self.END}")
        elif k == "if":
            self.emit(ind, f"if ({self.expr(s[1])[1:-1] if s[1][0] in ('cmp', 'bool', 'not') else self.expr(s[1])}) {{")
            self.block(ind + 1, s[2])
            if s[3] is not None:
                self.emit(ind, "} else {")
                self.block(ind + 1, s[3])
            self.emit(ind, "}")
        elif k == "while":
            self.types[s[1]] = INT
            self.let(ind, s[1], INT, ("int", 0))
            c = f"{self.v(s[1])} < {s[2]}"
            if s[3] is not None:
                c = f"({c}) {self.AND} {self.expr(s[3])}"
            self.emit(ind, f"while ({c}) {{")
            self.emit(ind + 1, f"{self.v(s[1])} = {self.v(s[1])} + 1{self.END}")
            self.block(ind + 1, s[4])
            self.emit(ind, "}")
        elif k == "for":
            self.for_(ind, s[1], s[2], s[3])
        elif k in ("break", "continue"):
            self.emit(ind, k + self.END)
        elif k == "out":
            self.out(ind, s[1])
        elif k == "ret":
            self.emit(ind, f"return {self.expr(s[1])}{self.END}")
        else:
            raise AssertionError(k)

    def incr(self, ind, target):
        self.emit(ind, f"{target}++{self.END}")

    def for_(self, ind, i, n, body):
        self.emit(ind, f"for (let {self.v(i)} = 0; {self.v(i)} < {n}; {self.v(i)}++) {{")
        self.block(ind + 1, body)
        self.emit(ind, "}")

    def is_str(self, e):
        return e[0] == "str" or (e[0] == "var" and self.types.get(e[1]) == STR)


class JsR(Renderer):
    lang, ext = "javascript", "js"

    def newrec(self, ind, name, a, b):
        self.emit(ind, f"let {name} = new Rec({self.expr(a)}, {self.expr(b)});")

    def newarr(self, ind, name, es):
        self.emit(ind, f"let {name} = [{', '.join(self.expr(e) for e in es)}];")

    def out(self, ind, e):
        self.emit(ind, f"console.log({self.expr(e)});")

    def header(self, prog):
        if prog.uses_rec:
            self.emit(0, "class Rec {")
            if "rec-methods" in prog.features:
                self.emit(1, "static made = 0;")
                self.emit(1, "fc = 5;")
            self.emit(1, f"constructor(a, b) {{ this.{FIELDS[0]} = a; this.{FIELDS[1]} = b; }}")
            if "rec-methods" in prog.features:
                self.emit(1, f"total() {{ return ((this.{FIELDS[0]} + this.{FIELDS[1]}) + this.fc); }}")
                self.emit(1, "selfarea() { return area(this); }")
            self.emit(0, "}")
            if "rec-methods" in prog.features:
                self.emit(0, f"function area(r) {{ return (r.{FIELDS[0]} * 2); }}")

    def func(self, name, params, body):
        self.emit(0, f"function {name}({', '.join(params)}) {{")
        self.block(1, body)
        self.emit(0, "}")

    def render(self, prog):
        self.header(prog)
        for f in prog.funcs:
            self.types = {p: INT for p in f[1]}
            self.func(*f)
        self.types = {}
        self.emit(0, "function main() {")
        self.block(1, prog.main)
        self.emit(0, "}")
        self.emit(0, "main();")
        return "\n".join(self.lines) + "\n"


class TsR(JsR):
    lang, ext = "typescript", "ts"
    TY = {INT: "number", STR: "string"}

    def let(self, ind, name, ty, e):
        self.emit(ind, f"let {name}: {self.TY[ty]} = {self.expr(e)};")

    def newarr(self, ind, name, es):
        self.emit(ind, f"let {name}: number[] = [{', '.join(self.expr(e) for e in es)}];")

    def header(self, prog):
        if prog.uses_rec:
            self.emit(0, "class Rec {")
            self.emit(1, f"{FIELDS[0]}: number;")
            self.emit(1, f"{FIELDS[1]}: number;")
            if "rec-methods" in prog.features:
                self.emit(1, "static made: number = 0;")
                self.emit(1, "fc: number = 5;")
            self.emit(1, f"constructor(a: number, b: number) {{ this.{FIELDS[0]} = a; this.{FIELDS[1]} = b; }}")
            if "rec-methods" in prog.features:
                self.emit(1, f"total(): number {{ return ((this.{FIELDS[0]} + this.{FIELDS[1]}) + this.fc); }}")
                self.emit(1, "selfarea(): number { return area(this); }")
            self.emit(0, "}")
            if "rec-methods" in prog.features:
                self.emit(0, f"function area(r: Rec): number {{ return (r.{FIELDS[0]} * 2); }}")

    def func(self, name, params, body):
        self.emit(0, f"function {name}({', '.join(p + ': number' for p in params)}): number {{")
        self.block(1, body)
        self.emit(0, "}")

    def for_(self, ind, i, n, body):
        self.emit(ind, f"for (let {i}: number = 0; {i} < {n}; {i}++) {{")
        self.block(ind + 1, body)
        self.emit(ind, "}")


class PyR(Renderer):
    lang, ext = "python", "py"
    AND, OR, END, NOT = "and", "or", "", "not "

    def incr(self, ind, target):
        self.emit(ind, f"{target} += 1")

    def let(self, ind, name, ty, e):
        self.emit(ind, f"{name} = {self.expr(e)}")

    def stmt(self, ind, s):
        k = s[0]
        if k == "if":
            self.emit(ind, f"if {self.expr(s[1])}:")
            self.block(ind + 1, s[2])
            if s[3] is not None:
                self.emit(ind, "else:")
                self.block(ind + 1, s[3])
        elif k == "while":
            self.types[s[1]] = INT
            self.emit(ind, f"{s[1]} = 0")
            c = f"{s[1]} < {s[2]}"
            if s[3] is not None:
                c = f"({c}) and {self.expr(s[3])}"
            self.emit(ind, f"while {c}:")
            self.emit(ind + 1, f"{s[1]} = {s[1]} + 1")
            self.block(ind + 1, s[4])
        elif k == "for":
            self.emit(ind, f"for {s[1]} in range({s[2]}):")
            self.block(ind + 1, s[3])
        else:
            Renderer.stmt(self, ind, s)

    def newrec(self, ind, name, a, b):
        self.emit(ind, f"{name} = Rec({self.expr(a)}, {self.expr(b)})")

    def newarr(self, ind, name, es):
        self.emit(ind, f"{name} = [{', '.join(self.expr(e) for e in es)}]")

    def out(self, ind, e):
        self.emit(ind, f"out({self.expr(e)})")

    def render(self, prog):
        if prog.uses_rec:
            self.emit(0, "class Rec:")
            self.emit(1, "def __init__(self, a, b):")
            self.emit(2, f"self.{FIELDS[0]} = a")
            self.emit(2, f"self.{FIELDS[1]} = b")
            if "rec-methods" in prog.features:
                self.emit(2, "self.fc = 5")
                self.emit(1, "def total(self):")
                self.emit(2, f"return ((self.{FIELDS[0]} + self.{FIELDS[1]}) + self.fc)")
                self.emit(1, "def selfarea(self):")
                self.emit(2, "return area(self)")
                self.emit(0, "def area(r):")
                self.emit(1, f"return (r.{FIELDS[0]} * 2)")
        for name, params, body in prog.funcs:
            self.types = {p: INT for p in params}
            self.emit(0, f"def {name}({', '.join(params)}):")
            self.block(1, body)
        self.types = {}
        self.emit(0, "def main():")
        self.block(1, prog.main)
        self.emit(0, "main()")
        return "\n".join(self.lines) + "\n"


class JavaR(Renderer):
    lang, ext = "java", "java"
    TY = {INT: "int", STR: "String"}

    def let(self, ind, name, ty, e):
        self.emit(ind, f"{self.TY[ty]} {name} = {self.expr(e)};")

    def newrec(self, ind, name, a, b):
        self.emit(ind, f"Rec{self.ident} {name} = new Rec{self.ident}({self.expr(a)}, {self.expr(b)});")

    def newarr(self, ind, name, es):
        self.emit(ind, f"int[] {name} = new int[{len(es)}];")
        for i, e in enumerate(es):
            self.emit(ind, f"{name}[{i}] = {self.expr(e)};")

    def out(self, ind, e):
        self.emit(ind, f"System.out.println({self.expr(e)});")

    def for_(self, ind, i, n, body):
        self.emit(ind, f"for (int {i} = 0; {i} < {n}; {i}++) {{")
        self.block(ind + 1, body)
        self.emit(ind, "}")

    def render(self, prog):
        if prog.uses_rec:
            self.emit(0, f"class Rec{self.ident} {{")
            self.emit(1, f"int {FIELDS[0]};")
            self.emit(1, f"int {FIELDS[1]};")
            if "rec-methods" in prog.features:
                self.emit(1, "static int made = 0;")
                self.emit(1, "int fc = 5;")
            self.emit(1, f"Rec{self.ident}(int a, int b) {{ this.{FIELDS[0]} = a; this.{FIELDS[1]} = b; }}")
            if "rec-methods" in prog.features:
                self.emit(1, f"int total() {{ return ((this.{FIELDS[0]} + this.{FIELDS[1]}) + this.fc); }}")
                self.emit(1, f"int selfarea() {{ return Main{self.ident}.area(this); }}")
            self.emit(0, "}")
        self.emit(0, f"public class Main{self.ident} {{")
        if prog.uses_rec and "rec-methods" in prog.features:
            self.emit(1, f"static int area(Rec{self.ident} r) {{ return (r.{FIELDS[0]} * 2); }}")
        for name, params, body in prog.funcs:
            self.types = {p: INT for p in params}
            self.emit(1, f"static int {name}({', '.join('int ' + p for p in params)}) {{")
            self.block(2, body)
            self.emit(1, "}")
        self.types = {}
        self.emit(1, "public static void main(String[] args) {")
        self.block(2, prog.main)
        self.emit(1, "}")
        self.emit(0, "}")
        return "\n".join(self.lines) + "\n"


class CR(Renderer):
    lang, ext = "c", "c"
    TY = {INT: "int", STR: "char*"}

    def let(self, ind, name, ty, e):
        self.emit(ind, f"{self.TY[ty]} {name} = {self.expr(e)};")

    def newrec(self, ind, name, a, b):
        self.emit(ind, f"struct Rec {name};")
        self.emit(ind, f"{name}.{FIELDS[0]} = {self.expr(a)};")
        self.emit(ind, f"{name}.{FIELDS[1]} = {self.expr(b)};")

    def newarr(self, ind, name, es):
        self.emit(ind, f"int {name}[{len(es)}];")
        for i, e in enumerate(es):
            self.emit(ind, f"{name}[{i}] = {self.expr(e)};")

    def out(self, ind, e):
        if self.is_str(e):
            self.emit(ind, f"puts({self.expr(e)});")
        else:
            self.emit(ind, f'printf("%d\\n", {self.expr(e)});')

    def for_(self, ind, i, n, body):
        self.emit(ind, f"for (int {i} = 0; {i} < {n}; {i}++) {{")
        self.block(ind + 1, body)
        self.emit(ind, "}")

    def render(self, prog):
        self.emit(0, "#include <stdio.h>")
        if prog.uses_rec:
            self.emit(0, f"struct Rec {{ int {FIELDS[0]}; int {FIELDS[1]}; }};")
        for name, params, body in prog.funcs:
            self.types = {p: INT for p in params}
            self.emit(0, f"int {name}({', '.join('int ' + p for p in params)}) {{")
            self.block(1, body)
            self.emit(0, "}")
        self.types = {}
        self.emit(0, "int main() {")
        self.block(1, prog.main)
        self.emit(1, "return 0;")
        self.emit(0, "}")
        return "\n".join(self.lines) + "\n"


class GoR(Renderer):
    lang, ext = "go", "go"

    def let(self, ind, name, ty, e):
        self.emit(ind, f"{name} := {self.expr(e)}")
        self.emit(ind, f"_ = {name}")

    END = ""

    def stmt(self, ind, s):
        k = s[0]
        if k == "if":
            c = self.expr(s[1])
            self.emit(ind, f"if {c} {{")
            self.block(ind + 1, s[2])
            if s[3] is not None:
                self.emit(ind, "} else {")
                self.block(ind + 1, s[3])
            self.emit(ind, "}")
        elif k == "while":
            self.types[s[1]] = INT
            self.emit(ind, f"{s[1]} := 0")
            c = f"{s[1]} < {s[2]}"
            if s[3] is not None:
                c = f"({c}) && {self.expr(s[3])}"
            self.emit(ind, f"for {c} {{")
            self.emit(ind + 1, f"{s[1]} = {s[1]} + 1")
            self.block(ind + 1, s[4])
            self.emit(ind, "}")
        else:
            Renderer.stmt(self, ind, s)

    def newrec(self, ind, name, a, b):
        self.emit(ind, f"var {name} Rec")
        self.emit(ind, f"{name}.{FIELDS[0]} = {self.expr(a)}")
        self.emit(ind, f"{name}.{FIELDS[1]} = {self.expr(b)}")

    def newarr(self, ind, name, es):
        self.emit(ind, f"{name} := []int{{{', '.join(self.expr(e) for e in es)}}}")

    def out(self, ind, e):
        self.emit(ind, f"fmt.Println({self.expr(e)})")

    def for_(self, ind, i, n, body):
        self.emit(ind, f"for {i} := 0; {i} < {n}; {i}++ {{")
        self.block(ind + 1, body)
        self.emit(ind, "}")

    def render(self, prog):
        self.emit(0, "package main")
        self.emit(0, "")
        self.emit(0, 'import "fmt"')
        self.emit(0, "")
        if prog.uses_rec:
            self.emit(0, "type Rec struct {")
            self.emit(1, f"{FIELDS[0]} int")
            self.emit(1, f"{FIELDS[1]} int")
            self.emit(0, "}")
        for name, params, body in prog.funcs:
            self.types = {p: INT for p in params}
            self.emit(0, f"func {name}({', '.join(p + ' int' for p in params)}) int {{")
            self.block(1, body)
            self.emit(0, "}")
        self.types = {}
        self.emit(0, "func main() {")
        self.block(1, prog.main)
        self.emit(0, "}")
        return "\n".join(self.lines).replace("    ", "\t") + "\n"


class PhpR(Renderer):
    lang, ext = "php", "php"
    SAPP = ".="

    def v(self, name):
        return "$" + name

    def let(self, ind, name, ty, e):
        self.emit(ind, f"${name} = {self.expr(e)};")

    def field(self, var, f):
        return f"${var}->{f}"

    def newrec(self, ind, name, a, b):
        self.emit(ind, f"${name} = new Rec({self.expr(a)}, {self.expr(b)});")

    def newarr(self, ind, name, es):
        self.emit(ind, f"${name} = [{', '.join(self.expr(e) for e in es)}];")

    def out(self, ind, e):
        self.emit(ind, f"echo {self.expr(e)};")

    def for_(self, ind, i, n, body):
        self.emit(ind, f"for (${i} = 0; ${i} < {n}; ${i}++) {{")
        self.block(ind + 1, body)
        self.emit(ind, "}")

    def render(self, prog):
        self.emit(0, "<?php")
        if prog.uses_rec:
            self.emit(0, "class Rec {")
            self.emit(1, f"public ${FIELDS[0]};")
            self.emit(1, f"public ${FIELDS[1]};")
            if "rec-methods" in prog.features:
                self.emit(1, "public static $made = 0;")
                self.emit(1, "public $fc = 5;")
            self.emit(1, f"function __construct($a, $b) {{ $this->{FIELDS[0]} = $a; $this->{FIELDS[1]} = $b; }}")
            if "rec-methods" in prog.features:
                self.emit(1, f"function total() {{ return (($this->{FIELDS[0]} + $this->{FIELDS[1]}) + $this->fc); }}")
                self.emit(1, "function selfarea() { return area($this); }")
            self.emit(0, "}")
            if "rec-methods" in prog.features:
                self.emit(0, f"function area($r) {{ return ($r->{FIELDS[0]} * 2); }}")
        for name, params, body in prog.funcs:
            self.types = {p: INT for p in params}
            self.emit(0, f"function {name}({', '.join('$' + p for p in params)}) {{")
            self.block(1, body)
            self.emit(0, "}")
        self.types = {}
        self.block(0, prog.main)
        return "\n".join(self.lines) + "\n"


RENDERERS = {"python": PyR, "javascript": JsR, "typescript": TsR, "java": JavaR, "go": GoR, "c": CR, "php": PhpR}
