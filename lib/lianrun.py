"""Zygote preparation and child-side helpers to run the real lian pipeline from /repo's working tree."""
import builtins
import copy
import hashlib
import io
import json
import os
import sys

from . import common

_YAML_OK_CACHE = os.path.join(common.DEPS, "yaml_equal.json")
_memo = {}
_prepared = False


def _load_ok_cache():
    try:
        with open(_YAML_OK_CACHE) as f:
            return json.load(f)
    except Exception:
        return {}


def _install_yaml_memo():
    """yaml.safe_load is a pure function of the bytes; big settings files are parsed once with the C loader
    (after the two loaders have been shown equal on that exact content) and handed out as deep copies."""
    import yaml
    real_safe_load = yaml.safe_load
    ok = _load_ok_cache()
    dirty = [False]

    def memo_safe_load(stream):
        if hasattr(stream, "read"):
            data = stream.read()
        else:
            data = stream
        raw = data.encode("utf-8") if isinstance(data, str) else data
        if len(raw) < 65536 or not getattr(yaml, "__with_libyaml__", False):
            return real_safe_load(data)
        key = hashlib.sha256(raw).hexdigest()
        if key in _memo:
            return copy.deepcopy(_memo[key])
        fast = yaml.load(data, Loader=yaml.CSafeLoader)
        if ok.get(key) is not True:
            slow = real_safe_load(data)
            ok[key] = (slow == fast)
            dirty[0] = True
            try:
                os.makedirs(common.DEPS, exist_ok=True)
                with open(_YAML_OK_CACHE, "w") as f:
                    json.dump(ok, f)
            except OSError:
                pass
            if not ok[key]:
                return slow
        _memo[key] = fast
        return copy.deepcopy(fast)

    yaml.safe_load = memo_safe_load


def prepare_zygote(warm=True):
    """Import lian from the working tree (this is the 'rebuild': there is no build artefact) and warm the memo."""
    global _prepared
    if _prepared:
        return
    common.ensure_deps()
    os.environ.setdefault("PYTHONDONTWRITEBYTECODE", "1")
    sys.dont_write_bytecode = True
    os.environ[common.GUARD] = "1"
    sc = common.scratch()
    os.environ["MPLCONFIGDIR"] = os.path.join(sc, "mpl")
    if not hasattr(builtins, "profile"):
        builtins.profile = lambda f: f
    import warnings
    warnings.filterwarnings("ignore")
    _install_yaml_memo()
    import lian.main  # noqa: F401  (from REPO/src)
    import yaml
    if warm:
        d = os.path.join(common.REPO, "default_settings")
        for name in sorted(os.listdir(d)):
            if name.endswith(".yaml"):
                with open(os.path.join(d, name), "r") as f:
                    try:
                        yaml.safe_load(f)
                    except Exception:
                        pass
    _prepared = True


# ---------------------------------------------------------------------------------------------------
# child side

MIN_SETTINGS = {
    "entry.yaml": "[]\n",
    "source.yaml": "[]\n",
    "sink.yaml": "[]\n",
    "propagation.yaml": "[]\n",
}


def write_settings(dirpath, entry=None, source=None, sink=None, propagation=None):
    import yaml
    os.makedirs(dirpath, exist_ok=True)
    for name, val in (("entry.yaml", entry), ("source.yaml", source), ("sink.yaml", sink),
                      ("propagation.yaml", propagation)):
        with open(os.path.join(dirpath, name), "w") as f:
            if val is None:
                f.write(MIN_SETTINGS[name])
            elif isinstance(val, str):
                f.write(val)
            else:
                yaml.safe_dump(val, f, sort_keys=False)
    return dirpath


def lian_argv(sub, lang, in_paths, workspace, settings=None, extra=()):
    argv = ["lian", sub, "-f", "-l", lang, "-w", workspace]
    if settings:
        argv += ["--default-settings", settings]
    argv += list(extra)
    argv += list(in_paths) if isinstance(in_paths, (list, tuple)) else [in_paths]
    return argv


def run_lian(argv, stage=None):
    """Run in a forked child. stage None = the CLI behaviour (Lian().run()); 'p1' = lang + P1 only.
    Returns the Lian object (its loader stays alive for in-process inspection)."""
    import lian.main as lm
    sys.argv = list(argv)
    app = lm.Lian()
    if stage is None:
        app.run()
        return app
    app.parse_cmds().init_submodules()
    app.lang_analysis()
    if stage == "lang":
        return app
    if stage == "p1":
        from lian.basics.basic_analysis import P1BasicSemanticAnalysis
        P1BasicSemanticAnalysis(app).run()
        app.loader.export()
        return app
    raise ValueError(stage)


def ws_dir(workspace):
    return workspace if "lian_workspace" in workspace else os.path.join(workspace, "lian_workspace")


def read_bundles(ws, subdir, prefix):
    """Concatenate <ws>/<subdir>/<prefix>.bundleN feather files (N ascending) into one DataFrame; None if absent."""
    import pandas as pd
    d = os.path.join(ws, subdir)
    if not os.path.isdir(d):
        return None
    names = [n for n in os.listdir(d) if n.startswith(prefix + ".bundle") and n[len(prefix) + 7:].isdigit()]
    names.sort(key=lambda n: int(n[len(prefix) + 7:]))
    frames = []
    for n in names:
        frames.append(pd.read_feather(os.path.join(d, n)))
    if not frames:
        return None
    return pd.concat(frames, ignore_index=True) if len(frames) > 1 else frames[0]


def read_feather(ws, subdir, name):
    import pandas as pd
    p = os.path.join(ws, subdir, name)
    if not os.path.exists(p):
        return None
    return pd.read_feather(p)


def isnull(v):
    if v is None:
        return True
    try:
        return v != v
    except Exception:
        return False


def rows_as_dicts(df):
    """DataFrame -> list of dicts with NaN/None/'' dropped (pyarrow round-trips None as NaN/None)."""
    out = []
    cols = list(df.columns)
    for tup in df.itertuples(index=False, name=None):
        d = {}
        for c, v in zip(cols, tup):
            if isnull(v):
                continue
            d[c] = v
        out.append(d)
    return out
