"""Shared plumbing: paths, tiers/seeds, evidence, known findings, verdicts, replay files."""
import json
import os
import shutil
import subprocess
import sys
import tempfile
import time

VERIF = os.path.dirname(os.path.dirname(os.path.abspath(__file__)))
REPO = os.environ.get("LIAN_REPO", "/repo")
DEPS = os.path.join(VERIF, ".deps")
EVIDENCE_DIR = os.path.join(VERIF, "evidence")
REPLAY_DIR = os.path.join(VERIF, "replay")
FINDINGS_FILE = os.path.join(VERIF, "known_findings.json")
GUARD = "LIAN_VERIF"

EXIT_HELD, EXIT_VIOLATED, EXIT_INCONCLUSIVE = 0, 1, 3


def ensure_deps():
    """Install icontract/hypothesis/jsonschema into /verif/.deps if a fresh checkout lacks them."""
    if not os.path.exists(os.path.join(DEPS, ".ok")):
        subprocess.run([os.path.join(VERIF, "setup.sh")], check=True, stdout=subprocess.DEVNULL)
    if DEPS not in sys.path:
        sys.path.append(DEPS)          # appended: /venv's own packages stay authoritative
    src = os.path.join(REPO, "src")
    if src not in sys.path:
        sys.path.insert(0, src)


def tier():
    t = os.environ.get("VERIF_TIER", "quick")
    return t if t in ("quick", "thorough") else "quick"


def seed():
    try:
        return int(os.environ.get("VERIF_SEED", "0"))
    except ValueError:
        return 0


_scratch_root = None


def scratch():
    """A per-process scratch directory outside /repo and /verif, removed at exit."""
    global _scratch_root
    if _scratch_root is None:
        base = os.environ.get("VERIF_SCRATCH", tempfile.gettempdir())
        _scratch_root = tempfile.mkdtemp(prefix="lianverif_", dir=base)
        import atexit
        pid = os.getpid()

        def _rm():
            if os.getpid() == pid:
                shutil.rmtree(_scratch_root, ignore_errors=True)
        atexit.register(_rm)
    return _scratch_root


class Findings:
    def __init__(self, prop):
        self.prop = prop
        self.open = {}
        self.fixed = {}
        try:
            with open(FINDINGS_FILE) as f:
                data = json.load(f)
        except FileNotFoundError:
            data = {"findings": []}
        for e in data.get("findings", []):
            if e.get("property") != prop:
                continue
            if str(e.get("status", "open")).startswith("fixed"):
                self.fixed[e["signature"]] = e
            else:
                self.open[e["signature"]] = e

    def is_known(self, signature):
        return signature in self.open


class Check:
    """Collects observations for one property run and turns them into verdict, evidence and replay files."""

    def __init__(self, prop, level="exploration", rule=""):
        self.prop = prop
        self.level = level
        self.rule = rule
        self.tier = tier()
        self.seed = seed()
        self.t0 = time.time()
        self.findings = Findings(prop)
        self.evaluations = 0
        self.nontrivial = set()
        self.samples = []
        self.counters = {}
        self.extra = {}
        self.assumptions = []
        self.violations = []          # (signature, description, case)
        self.known_hits = {}          # signature -> [count, first description]
        self.inconclusive = []
        self.exhaustive = None
        self.max_samples = 6

    # ---- observations -------------------------------------------------
    def count(self, key, n=1):
        self.counters[key] = self.counters.get(key, 0) + n

    def evaluated(self, n=1):
        self.evaluations += n

    def nontrivial_case(self, key):
        self.nontrivial.add(key if isinstance(key, (str, int, tuple)) else json.dumps(key, sort_keys=True, default=str))

    def sample(self, s):
        if len(self.samples) < self.max_samples:
            self.samples.append(s)

    def fail(self, signature, description, case):
        """Report a failing case. Listed open signatures become KNOWN-FINDING lines, others violations."""
        if self.findings.is_known(signature):
            ent = self.known_hits.setdefault(signature, [0, description])
            ent[0] += 1
        else:
            self.violations.append((signature, description, case))

    def note_inconclusive(self, reason):
        self.inconclusive.append(reason)

    def require(self, key, floor):
        if self.counters.get(key, 0) < floor:
            self.note_inconclusive(f"monitor '{key}' observed {self.counters.get(key, 0)} events, floor {floor}")

    # ---- finish -------------------------------------------------------
    def finish(self):
        os.makedirs(EVIDENCE_DIR, exist_ok=True)
        for sig, (n, desc) in sorted(self.known_hits.items()):
            what = self.findings.open[sig].get("description") or desc
            print(f"KNOWN-FINDING: property={self.prop} {sig}: {what} (seen {n}x in this run; e.g. {str(desc)[:160]})")
        replay_paths = []
        if self.violations:
            d = os.path.join(REPLAY_DIR, self.prop)
            os.makedirs(d, exist_ok=True)
            seen_sig = {}
            for sig, desc, case in self.violations:
                k = seen_sig.get(sig, 0)
                seen_sig[sig] = k + 1
                if k >= 3:        # at most three replay files per signature
                    continue
                path = os.path.join(d, f"{len(replay_paths)}.json")
                with open(path, "w") as f:
                    json.dump({"property": self.prop, "signature": sig, "description": desc,
                               "seed": self.seed, "tier": self.tier, "case": case}, f, indent=1, default=str)
                replay_paths.append((sig, desc, path))
        cov = {
            "evaluations": int(self.evaluations),
            "distinct_nontrivial": len(self.nontrivial),
            "rule": self.rule,
            "samples": self.samples if self.samples else ["(no sample recorded)"],
            "monitor_events": self.counters,
            "known_findings_seen": {s: n for s, (n, _) in self.known_hits.items()},
            "inconclusive_reasons": self.inconclusive,
        }
        if self.exhaustive is not None:
            cov["exhaustive"] = bool(self.exhaustive)
        cov.update(self.extra)
        ev = {
            "property_id": self.prop, "tier": self.tier, "seed": self.seed, "level": self.level,
            "coverage": cov, "assumptions": self.assumptions,
            "wall_s": round(time.time() - self.t0, 2), "violations": len(self.violations),
        }
        with open(os.path.join(EVIDENCE_DIR, f"{self.prop}.json"), "w") as f:
            json.dump(ev, f, indent=1, default=str)
        summary = (f"[{self.prop}] tier={self.tier} seed={self.seed} evaluations={self.evaluations} "
                   f"distinct_nontrivial={len(self.nontrivial)} wall={ev['wall_s']}s")
        print(summary)
        for k in sorted(self.counters):
            print(f"  observed {k} = {self.counters[k]}")
        if replay_paths:
            for sig, desc, path in replay_paths:
                print(f"  violated: {sig}: {desc}")
                print(f"VIOLATION property={self.prop} replay={path}")
            extra = len(self.violations) - len(replay_paths)
            if extra > 0:
                print(f"  (+{extra} further failing cases with the same signatures)")
            return EXIT_VIOLATED
        if self.inconclusive:
            for r in self.inconclusive:
                print(f"INCONCLUSIVE property={self.prop} reason={r}")
            return EXIT_INCONCLUSIVE
        print(f"HELD property={self.prop} on everything observed")
        return EXIT_HELD
